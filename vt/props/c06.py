"""C06 — Container TOC and attached metadata stay in exact one-to-one sync."""
import json

from .. import compat  # noqa: F401
from .. import cmodel as C
from .. import history as H
from .. import hyp
from ..evidence import Violation
from ..treemodel import diff_dumps

ID = "C06"
LEVEL = "exploration"
RULE = (
    "Hypothesis-generated container histories (set/create/require/delete/attrs/copy with and without attributes and "
    "metadata in string, node-object and group-destination forms/move/replace, attach of valid instances of 11 schema "
    "accesses by name, class or object, refused attaches (auxiliary, unknown, wrong version, invalid object, "
    "duplicate, missing node), detach, held node.meta handles, IH5 patch boundaries, reopen) on MetadorContainer over "
    "h5py.File and IH5Record/IH5MFRecord. After EVERY step (successful or refused) an independent raw-tree auditor "
    "re-derives objects, links, schema and package records from the unwrapped tree and checks the link<->object "
    "bijection, link targets, uuid uniqueness, owners, records == schemas in use, no empty bookkeeping groups; the "
    "objects must equal the reference model's; the user-visible tree must equal the plain reference tree; after "
    "reopen the rebuilt index gives the same public picture as the incrementally maintained one. Further ops: refused "
    "writes without an open patch, detach_all, single-change patches, delete / copy of the root, node objects and dtypes "
    "as values, kept (stale) metadata handles, group copy without metadata followed by a delete, flush. Scenario shard: "
    "copy with a group node on a local_only node, kept .meta objects after delete / move of their node. Non-trivial = "
    "history that copies or moves a node carrying metadata (or annotated descendants) and later empties a schema; "
    "distinct by step kinds + schema multiset"
)
ASSUMPTIONS = ["not asserted: private dict equality of the TOC classes; UUID values; order",
               "held node.meta handles are reused only for directly consecutive operations on the same node",
               "moving a node into its own subtree is excluded"]
REQUIRED_CLASSES = {"all": ["failed_step", "last_object_of_schema_removed", "group_copy_without_meta", "move_with_meta",
                            "copy_with_meta", "reopen", "commit", "held_handle_reused", "attach_refused", "copy_node_forms"]}
BUDGET_S = {"quick": 900, "thorough": 3 * 3600}
NSHARD = 16


def public_picture(mc, model):
    """What the container reports through its public TOC interface."""
    sc = mc.metador.schemas
    pic = dict(schemas=sorted((r.name, tuple(r.version)) for r in sc.keys()),
               packages=sorted((k[0], tuple(k[1])) for k in sc.packages.keys()), per_schema={}, per_node={})
    for r in sc.keys():
        key = f"{r.name}__{tuple(r.version)}"
        prov = sc.provider(r)
        pic["per_schema"][key] = dict(
            parent_path=[(p.name, tuple(p.version)) for p in sc.parent_path(r.name, tuple(r.version))],
            children=sorted((c.name, tuple(c.version)) for c in sc.children(r.name, tuple(r.version))),
            provider=(prov.name, tuple(prov.version)))
    for p in model.tree.paths():
        node = mc if p == "/" else mc[p]
        ks = sorted(node.meta.keys())
        if ks:
            pic["per_node"][p] = ks
    for name in sorted({n for d in model.meta.values() for n in d}):
        pic.setdefault("queries", {})[name] = sorted(n.name for n in mc.metador.query(name))
    return pic


def after_step(sess, op):
    m = sess.model
    exp_objs = {}
    for p, d in m.meta.items():
        for name, v in d.items():
            exp_objs[(p, f"{name}__{'.'.join(map(str, v['ref'][1]))}")] = v["json"]
    exp_tree = m.tree.dump()
    for t in sess.targets:
        where = f"after step {sess.pos} {op[0]} on {t.driver}"
        a = C.audit(t.mc.__wrapped__, where)
        got = {}
        for (owner, ep, uid), raw in a["objects"].items():
            if (owner, ep) in got:
                raise Violation("C06:two-objects-of-one-schema", f"{where}: {owner} {ep}", "at most one per schema and node")
            try:
                got[(owner, ep)] = json.loads(raw.decode())
            except Exception as e:  # noqa: BLE001
                raise Violation("C06:stored-object-unreadable", f"{where}: {owner} {ep}: {e}", "JSON bytes")
        if got != exp_objs:
            miss = sorted(set(exp_objs) - set(got))
            extra = sorted(set(got) - set(exp_objs))
            diff = [k for k in got if k in exp_objs and got[k] != exp_objs[k]]
            kind = "missing" if miss else ("extra" if extra else "content")
            raise Violation(f"C06:attached-objects-differ-from-model:{kind}", f"{where}: missing {miss[:3]} extra {extra[:3]} differing {diff[:2]}",
                            "objects == reference model")
        ud = C.user_dump(t.mc)
        if ud != exp_tree:
            dd = diff_dumps(ud, exp_tree)
            internal = any("metador_" in x for x in dd)
            raise Violation("C06:user-tree-differs:" + ("bookkeeping-visible" if internal else "+".join(sorted({x.split()[0] for x in dd}))),
                            f"{where}: {dd}", "user-visible tree == plain reference tree")
    if op[0] == "reopen":
        for t in sess.targets:
            now = public_picture(t.mc, m)
            before = sess.pictures.get(t.driver)
            if before is not None and now != before:
                ks = [k for k in now if now[k] != before[k]]
                det = []
                for k in ks:
                    if isinstance(now[k], dict):
                        for kk in sorted(set(now[k]) | set(before[k])):
                            if now[k].get(kk) != before[k].get(kk):
                                det.append(f"{k}[{kk}]: live {before[k].get(kk)} -> reopened {now[k].get(kk)}")
                    else:
                        det.append(f"{k}: live {before[k]} -> reopened {now[k]}")
                raise Violation("C06:index-after-reopen-differs:" + "+".join(ks), f"{t.driver}: " + "; ".join(det)[:900],
                                "rebuilt index == incremental index")


def before_step(sess, op):
    if op[0] == "reopen":  # the live (incrementally maintained) picture right before closing
        sess.pictures = {t.driver: public_picture(t.mc, sess.model) for t in sess.targets}


def run_case(case, rec=None):
    sess = C.CSession(case["drivers"], sig="C06", after_step=after_step, before_step=before_step)
    sess.pictures = {}
    try:
        try:
            sess.feed(case["history"])
        except C.EnvBug:
            if rec is not None:
                rec.excluded["hdf5-2.0-H5Ocopy-absolute-destination-bug"] += 1
                rec.cls("skipped_env_bug")
            return
        # final: reopen everything and compare once more
        sess.step(["reopen"])
        if rec is not None:
            cl = sess.classes
            nt = bool(cl & {"copy_with_meta", "move_with_meta", "group_copy_without_meta"}) and "last_object_of_schema_removed" in cl
            kinds = [k for k, _ in sess.steps]
            rec.case(nt_key=[case["drivers"], kinds, sorted(sess.model.used_schemas())] if nt else None,
                     classes=sorted(cl) + [f"driver_{d}" for d in case["drivers"]],
                     sample=dict(case, steps=kinds) if nt else None)
    finally:
        sess.destroy()


def selfcheck():
    H.install_work_guard()


def plan(tier, seed):
    return [dict(name=f"hist-{i}", i=i) for i in range(NSHARD)] + [dict(name="scenarios", kind="scen")]


def _scenario_container(driver):
    t = C.CTarget(driver)
    mc = t.mc
    mc["d"] = 1
    mc["g/e"] = 2
    mc.create_group("x")
    mc["d"].meta["verif.base"] = {"label": "d"}
    mc["g"].meta["verif.base"] = {"label": "g"}
    mc["g/e"].meta["verifother.thing"] = {"name": "e"}
    return t


def check_scenarios(driver, rec):
    """Failed or unusual calls that touch metadata: whatever happens, TOC and attached objects stay in sync (raw audit),
    live and after reopening."""
    def audit(t, what, case):
        for phase in ("live", "reopened"):
            try:
                C.audit(t.mc.__wrapped__, f"{what} ({phase}) on {driver}")
            except Violation as v:
                rec.fail(v.signature + ":" + case["scenario"], case, v.observed, v.expected)
                return
            if phase == "live":
                t.reopen()

    # 1. copy with a group NODE as destination, called on a local_only node (no absolute path is passed by the caller)
    case = dict(kind="scenario", driver=driver, scenario="local-only-copy-group-dst")
    t = _scenario_container(driver)
    try:
        r = t.mc["/"].restrict(local_only=True)
        try:
            r.copy("g", r["x"])
        except Exception:  # noqa: BLE001 - refusing is fine, a half-done copy is not
            pass
        audit(t, "copy('g', <group node>) on a local_only root", case)
        rec.case(nt_key=[driver, case["scenario"]], classes=["scenario_local_only_copy"], sample=case)
    finally:
        t.destroy()
    # 2. a metadata interface object kept while its node is deleted / moved away, then used to attach
    for how in ("del", "move"):
        case = dict(kind="scenario", driver=driver, scenario=f"kept-meta-object-after-{how}")
        t = _scenario_container(driver)
        try:
            m = t.mc["d"].meta
            if how == "del":
                del t.mc["d"]
            else:
                t.mc.move("d", "moved")
            try:
                m["verifother.thing"] = {"name": "late"}
            except Exception:  # noqa: BLE001
                pass
            audit(t, f"attach through a kept .meta object after {how}", case)
            rec.case(nt_key=[driver, case["scenario"]], classes=["scenario_kept_meta_object"], sample=case)
        finally:
            t.destroy()


def run_shard(shard, tier, seed, rec):
    H.install_work_guard()
    if shard.get("kind") == "scen":
        for drv in ("h5", "ih5"):
            check_scenarios(drv, rec)
        return
    i = shard["i"]
    n = {"quick": 50, "thorough": 1500}[tier]
    drivers = [["h5"], ["ih5"], ["ih5mf"], ["h5"]][i % 4]
    strat = C.chistories(10, 30 if tier == "quick" else 60).map(lambda h: dict(history=h, drivers=drivers))
    hyp.search(strat, lambda c: run_case(c, rec), rec, seed=seed * 1000 + i, max_examples=n,
               shrink_budget_s=30 if tier == "quick" else 120)


def replay(rp, rec):
    H.install_work_guard()
    try:
        if rp["case"].get("kind") == "scenario":
            check_scenarios(rp["case"]["driver"], rec)
        else:
            run_case(rp["case"], rec)
    except Violation as v:
        rec.fail(v.signature, rp["case"], v.observed, v.expected)
