"""C20 — Containers are self-describing about the schemas they use."""
import json

import jsonschema

from .. import compat  # noqa: F401
from .. import cmodel as C
from .. import history as H
from .. import hyp
from ..evidence import Violation

from metador_core.plugins import schemas  # noqa: E402

ID = "C20"
LEVEL = "exploration"
RULE = (
    "Hypothesis-generated container histories (as C06) over installed schemas and the harness family verif.* (three "
    "versions of one name, 3-level inheritance, constants, custom-parser fields, a second provider package). After "
    "every metadata-changing step and after reopen, for EVERY object found by the raw-tree auditor: a schema record "
    "exists; its embedded JSON Schema passes Draft-07 check_schema and validates the stored JSON (jsonschema library); "
    "the embedded parent chain equals the plugin system's parent_path; an embedded package record provides the schema "
    "and carries the name/version/plugin list the plugin system reports; the container's public TOC answers "
    "(schemas[...], parent_path, provider, packages) equal the embedded data, also on a freshly opened container; "
    "constants appear under $metador_constants. Non-trivial = object of a schema with >=2 plugin ancestors or with a "
    "custom-parser / constant field validated after a reopen; distinct by (schema, stored JSON keys)"
)
ASSUMPTIONS = ["jsonschema 4.26 Draft7Validator is the judge of validity; 'format' keywords are not asserted",
               "not asserted: that the embedded schema rejects invalid objects"]
REQUIRED_CLASSES = {"all": ["validated_after_reopen", "deep_inheritance", "second_provider", "has_constants", "custom_parser_field"]}
BUDGET_S = {"quick": 900, "thorough": 3 * 3600}
NSHARD = 16


def ep(name, ver):
    return f"{name}__{'.'.join(map(str, ver))}"


def check(sess, op, rec=None, after_reopen=False):
    for t in sess.targets:
        mc = t.mc
        raw = mc.__wrapped__
        where = f"after step {sess.pos} {op[0]} on {t.driver}"
        a = C.audit(raw, where, sig="C20")
        nodes = a["nodes"]
        toc = mc.metador.schemas
        for (owner, epn, uid), blob in a["objects"].items():
            name, _, vs = epn.partition("__")
            ver = tuple(int(x) for x in vs.split("."))
            base = f"{C.TOC}/schemas/{epn}"
            if base + "/jsonschema.json" not in nodes or base + "/compat" not in nodes:
                raise Violation("C20:schema-record-missing", f"{where}: {epn} used at {owner}", "jsonschema.json and compat stored")
            try:
                js = json.loads(bytes(nodes[base + "/jsonschema.json"][1]).decode())
                compat_l = json.loads(bytes(nodes[base + "/compat"][1]).decode())
                inst = json.loads(blob.decode())
            except Exception as e:  # noqa: BLE001
                raise Violation("C20:embedded-record-unreadable", f"{where}: {epn}: {e}", "JSON")
            try:
                jsonschema.Draft7Validator.check_schema(js)
            except Exception as e:  # noqa: BLE001
                raise Violation("C20:embedded-jsonschema-invalid", f"{where}: {epn}: {str(e)[:300]}", "valid draft-07 schema")
            errs = sorted(jsonschema.Draft7Validator(js).iter_errors(inst), key=lambda e: list(e.path))
            if errs:
                e0 = errs[0]
                raise Violation(f"C20:stored-object-fails-embedded-schema:{e0.validator}", f"{where}: {epn} at {owner}: {e0.message[:200]} at {list(e0.path)} "
                                f"(instance {json.dumps(inst)[:200]})", "every stored object validates against the embedded JSON Schema")
            # parent chain
            # (the chain of the classes the schema really derives from - not schemas.parent_path, the function under test)
            exp_pp = list(reversed(C.class_parents(schemas.get(name, ver))))
            sys_pp = [(r.name, tuple(r.version)) for r in schemas.parent_path(name, ver)]
            if sys_pp != exp_pp:
                raise Violation("C20:plugin-system-parent-chain-wrong", f"{where}: schemas.parent_path({name!r}, {ver}) -> {sys_pp}", exp_pp)
            got_pp = [(r["name"], tuple(r["version"])) for r in compat_l]
            if got_pp != exp_pp:
                raise Violation("C20:embedded-parent-chain-wrong", f"{where}: {epn}: {got_pp}", exp_pp)
            ref = schemas.PluginRef(name=name, version=ver)
            def ask(label, fn):
                # the schema is in use in this container: its self-description interface has to answer
                try:
                    return fn()
                except Exception as e:  # noqa: BLE001
                    raise Violation(f"C20:reported-interface-raises:{label}", f"{where}: {epn}: {type(e).__name__}: {str(e)[:200]}",
                                    "an answer for a schema that is in use")
            pub_pp = [(r.name, tuple(r.version)) for r in ask("parent_path", lambda: toc.parent_path(name, ver))]
            if pub_pp != exp_pp:
                raise Violation("C20:reported-parent-chain-wrong", f"{where}: {epn}: {pub_pp}", exp_pp)
            if ask("getitem", lambda: toc[ref]) != js:
                raise Violation("C20:reported-jsonschema-differs-from-embedded", f"{where}: {epn}", "schemas[ref] == embedded")
            if ask("get", lambda: toc.get(ref)) != js or ref not in toc:
                raise Violation("C20:reported-jsonschema-differs-from-embedded:get", f"{where}: {epn}: schemas.get(ref) -> "
                                f"{'None' if toc.get(ref) is None else 'something else'}, ref in schemas -> {ref in toc}", "the embedded schema, like schemas[ref]")
            unused = schemas.PluginRef(name="verif.nope", version=(9, 9, 9))
            try:
                nothing = toc.get(unused)
            except Exception as e:  # noqa: BLE001
                raise Violation("C20:schemas-get-raises-for-unused", f"{where}: {type(e).__name__}: {e}", "None")
            if nothing is not None or unused in toc:
                raise Violation("C20:schemas-reports-unused-schema", f"{where}: {nothing!r}", "None")
            # provider
            env = schemas.provider(ref)
            provs = [(k, v) for k, v in a["packages"].items() if any(
                r["name"] == name and tuple(r["version"]) == ver for r in (v.get("plugins", {}) or {}).get("schema", []))]
            if not provs:
                raise Violation("C20:no-embedded-provider", f"{where}: {epn}", f"package record of {env.name}")
            if not any(v["name"] == env.name and tuple(v["version"]) == tuple(env.version) and
                       sorted((r["name"], tuple(r["version"])) for r in v["plugins"]["schema"]) ==
                       sorted((r.name, tuple(r.version)) for r in env.plugins["schema"]) for _, v in provs):
                raise Violation("C20:embedded-provider-differs", f"{where}: {epn}: {[(v['name'], v['version']) for _, v in provs]}",
                                (env.name, tuple(env.version)))
            pub = ask("provider", lambda: toc.provider(ref))
            if (pub.name, tuple(pub.version)) not in [(v["name"], tuple(v["version"])) for _, v in provs]:
                raise Violation("C20:reported-provider-wrong", f"{where}: {epn}: {(pub.name, tuple(pub.version))}", provs[0][0])
            if (str(pub.name), tuple(pub.version)) not in [(k[0], tuple(k[1])) for k in toc.packages.keys()]:
                raise Violation("C20:packages-listing-lacks-provider", f"{where}: {epn}", "listed")
            # constants
            cls = schemas.get(name, ver)
            consts = getattr(cls, "__constants__", {}) or {}
            if consts:
                if js.get("$metador_constants") != json.loads(json.dumps(consts)):
                    raise Violation("C20:embedded-constants-wrong", f"{where}: {epn}: {js.get('$metador_constants')}", consts)
                for k, v in consts.items():
                    if inst.get(k) != v:
                        raise Violation("C20:stored-object-lacks-constant", f"{where}: {epn} at {owner}: {k}={inst.get(k)!r}", v)
            if rec is not None:
                cl = ["validated"]
                if after_reopen:
                    cl.append("validated_after_reopen")
                if len(exp_pp) >= 3:
                    cl.append("deep_inheritance")
                if env.name == "verif_other":
                    cl.append("second_provider")
                if consts:
                    cl.append("has_constants")
                if any(k in inst for k in ("dur", "qty", "duration", "width", "height")):
                    cl.append("custom_parser_field")
                nt = after_reopen and (len(exp_pp) >= 3 or "custom_parser_field" in cl or consts)
                rec.case(nt_key=[epn, sorted(inst)] if nt else None, classes=cl,
                         sample=dict(kind="object", schema=epn, owner=owner, driver=t.driver, parent_chain=exp_pp, stored=inst) if nt else None)
        # every schema record belongs to a used schema (C06) and can be asked for publicly
        used = {epn for (_, epn, _) in a["objects"]}
        pub_keys = {ep(r.name, tuple(r.version)) for r in toc.keys()}
        if pub_keys != used:
            raise Violation("C20:reported-schemas-differ-from-used", f"{where}: {sorted(pub_keys)}", sorted(used))


def after_step(rec):
    def f(sess, op):
        if op[0] in ("attach", "detach", "mcopy", "move", "del", "replace", "commit", "purge", "gcopy_nometa", "attach_bad"):
            check(sess, op, rec)
        elif op[0] == "reopen":
            check(sess, op, rec, after_reopen=True)
    return f


def run_case(case, rec=None):
    sess = C.CSession(case["drivers"], sig="C20", after_step=after_step(rec))
    try:
        try:
            sess.feed(case["history"])
            sess.step(["reopen"])
        except C.EnvBug:
            if rec is not None:
                rec.excluded["hdf5-2.0-H5Ocopy-absolute-destination-bug"] += 1
            return
        if rec is not None:
            rec.case(classes=["history"] + sorted(sess.classes))
    finally:
        sess.destroy()


def selfcheck():
    H.install_work_guard()


def plan(tier, seed):
    return [dict(name=f"hist-{i}", i=i) for i in range(NSHARD)]


def run_shard(shard, tier, seed, rec):
    H.install_work_guard()
    i = shard["i"]
    n = {"quick": 40, "thorough": 700}[tier]
    drivers = [["h5"], ["ih5"], ["h5"], ["ih5mf"]][i % 4]
    strat = C.chistories(8, 24 if tier == "quick" else 50).map(lambda h: dict(history=h, drivers=drivers))
    hyp.search(strat, lambda c: run_case(c, rec), rec, seed=seed * 1000 + i, max_examples=n,
               shrink_budget_s=30 if tier == "quick" else 120)


def replay(rp, rec):
    H.install_work_guard()
    try:
        run_case(rp["case"], rec)
    except Violation as v:
        rec.fail(v.signature, rp["case"], v.observed, v.expected)
