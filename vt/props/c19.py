"""C19 — Directory hashsums identify directory content."""
import copy
import hashlib
import io
import os
import shutil
from pathlib import Path

from hypothesis import strategies as st

from .. import compat  # noqa: F401
from .. import dirmodel as D
from .. import hyp
from ..evidence import HarnessError, Violation
from ..history import new_scratch

from metador_core.util import hashsums as HS  # noqa: E402

ID = "C19"
LEVEL = "exploration"
RULE = (
    "Hypothesis-generated abstract directory trees (files with sizes around hash-block multiples, empty and nested "
    "directories, awkward names, in-directory symlinks to files / directories / dangling names with ./ and ../ "
    "detours) realised twice on disk in different creation orders, write patterns and mtimes; oracles: both "
    "realisations hash equal AND equal the model-side tree (file -> alg:hexdigest via hashlib, link -> "
    "symlink:<normalised target>, dir -> dict) - an injective encoding, so distinct trees must differ; single "
    "edits (content byte, rename, add/remove, file<->dir, retarget link to an equal-content file / dir / dangling, "
    "file -> link to equal file) must change the result; hashsum() on streams with short reads in generated "
    "chunkings; every outside-leading symlink (file, dir, .. chain, absolute, sibling with common name prefix) "
    "must raise ValueError. Non-trivial = tree with >=1 symlink and >=1 empty directory, or a retarget/"
    "replace-by-link edit; distinct by tree + edit"
)
ASSUMPTIONS = ["links never point to other links and never traverse a link (chains/cycles not asserted)",
               "special files and permission bits not asserted"]
REQUIRED_CLASSES = {"all": ["symlink_and_empty_dir", "edit_retarget_equal_content", "edit_file_to_link", "outside_link",
                            "chunked_stream", "edit_content_byte", "sha512", "in_place_edit_same_mtime"]}
BUDGET_S = {"quick": 600, "thorough": 3600}


def compute(root, alg="sha256"):
    try:
        return HS.dir_hashsums(Path(root), alg) if alg != "sha256" else HS.dir_hashsums(Path(root))
    except Exception as e:  # noqa: BLE001
        raise Violation("C19:dir-hashsums-raises", f"{type(e).__name__}: {e}", "a hashsum tree")


def check_tree(tree, key, rec=None, edits=()):
    root = new_scratch("vt-c19-")
    classes = []
    try:
        a, b = os.path.join(root, "one"), os.path.join(root, "base")  # 'one' is also a name-prefix sibling test
        os.mkdir(a), os.mkdir(b)
        D.realize(tree, a, key, mtime=1_000_000_000)
        D.realize(tree, b, key + 1 + key % 5, mtime=None)
        exp = D.expected_hashsums(tree)
        ha, hb = compute(a), compute(b)
        if ha != hb:
            raise Violation("C19:order-or-mtime-dependent", f"{ha} vs {hb}", "equal")
        if ha != exp:
            flat = D.flatten(tree)
            kinds = sorted({e[0] for e in flat.values()})
            sub = "symlink" if any(e[0] == "l" for e in flat.values()) and _strip_links(ha) == _strip_links(exp) else "content"
            raise Violation(f"C19:differs-from-model:{sub}", f"{ha}", f"{exp} (entry kinds {kinds})")
        # the same directory reached through other valid spellings of its path
        alias = os.path.join(root, "alias")
        os.symlink(root, alias)
        selfl = os.path.join(root, "self-link")
        os.symlink(a, selfl)
        for how, sp in (("dotdot", os.path.join(root, "base", "..", "one")), ("symlinked_parent", os.path.join(alias, "one")),
                        ("symlink_to_dir", selfl)):
            try:
                hs = HS.dir_hashsums(Path(sp))
            except Exception as e:  # noqa: BLE001
                raise Violation(f"C19:depends-on-path-spelling:{how}:raises", f"{type(e).__name__}: {str(e)[:200]}", "same tree as via the canonical path")
            if hs != ha:
                raise Violation(f"C19:depends-on-path-spelling:{how}", f"{hs}", f"{ha}")
        os.unlink(alias), os.unlink(selfl)
        classes.append("path_spellings")
        if key % 4 == 0:
            h5 = compute(a, "sha512")
            if h5 != D.expected_hashsums(tree, "sha512"):
                raise Violation("C19:differs-from-model:sha512", h5, "sha512 digests")
            classes.append("sha512")
        flat = D.flatten(tree)
        # the same path hashed again after an in-place edit that keeps size and (restored) mtime: results must not
        # depend on timestamps or on anything remembered from an earlier call
        files = sorted(p for p, e in flat.items() if e[0] == "f" and e[1])
        if files:
            fp = files[key % len(files)]
            full = os.path.join(a, fp)
            st_ = os.stat(full)
            data = bytearray(open(full, "rb").read())
            data[key % len(data)] ^= 0x5A
            with open(full, "r+b") as fh:
                fh.write(bytes(data))
            os.utime(full, ns=(st_.st_atime_ns, st_.st_mtime_ns))
            t_edit = copy.deepcopy(tree)
            node = t_edit
            segs = fp.split("/")
            for sg in segs[:-1]:
                node = node[sg][1]
            node[segs[-1]] = ["f", bytes(data).hex()]
            h_edit = compute(a)
            if h_edit != D.expected_hashsums(t_edit):
                raise Violation("C19:stale-after-in-place-edit", f"file {fp} edited in place (same size, same mtime): result unchanged or wrong",
                                "hashsum of the new bytes")
            classes.append("in_place_edit_same_mtime")
        has_link = any(e[0] == "l" for e in flat.values())
        has_empty = any(e[0] == "d" and not e[1] for e in flat.values())
        if has_link and has_empty:
            classes.append("symlink_and_empty_dir")
        # metamorphic single edits
        for ed in edits:
            t2, cl = apply_edit(tree, ed)
            if t2 is None:
                continue
            c = os.path.join(root, "edit")
            os.mkdir(c)
            try:
                D.realize(t2, c, key)
                hc = compute(c)
                if D.expected_hashsums(t2) == exp:
                    if hc != ha:
                        raise Violation("C19:equal-trees-differ", cl, "equal")
                elif hc == ha:
                    raise Violation(f"C19:edit-invisible:{cl}", f"edit {ed} leaves the hashsum tree unchanged", "different")
                elif hc != D.expected_hashsums(t2):
                    raise Violation("C19:differs-from-model:after-edit", hc, D.expected_hashsums(t2))
                classes.append("edit_" + cl)
            finally:
                shutil.rmtree(c, ignore_errors=True)
        nt = (has_link and has_empty) or bool({"edit_retarget_equal_content", "edit_file_to_link", "edit_retarget_dir",
                                               "edit_retarget_dangling"} & set(classes))
        if rec is not None:
            rec.case(nt_key=[tree, list(edits)] if nt else None, classes=classes,
                     sample=dict(tree=tree, edits=list(edits)) if nt else None)
    finally:
        shutil.rmtree(root, ignore_errors=True)


def _strip_links(h):
    return {k: (_strip_links(v) if isinstance(v, dict) else ("L" if v.startswith("symlink:") else v)) for k, v in h.items()}


def apply_edit(tree, ed):
    """-> (edited tree | None, class)"""
    t = copy.deepcopy(tree)
    kind, idx = ed[0], ed[1]
    flat = D.flatten(t)
    files = sorted(p for p, e in flat.items() if e[0] == "f")
    links = sorted(p for p, e in flat.items() if e[0] == "l")
    dirs = sorted(p for p, e in flat.items() if e[0] == "d")

    def parent_and_name(p):
        node = t
        segs = p.split("/")
        for s in segs[:-1]:
            node = node[s][1]
        return node, segs[-1]

    if kind == "content_byte" and files:
        p = files[idx % len(files)]
        node, n = parent_and_name(p)
        data = bytearray(bytes.fromhex(node[n][1]))
        if not data:
            node[n] = ["f", "00"]
        else:
            data[idx % len(data)] ^= 1 + idx % 255
            node[n] = ["f", bytes(data).hex()]
        return t, "content_byte"
    if kind == "rename" and flat:
        p = sorted(flat)[idx % len(flat)]
        node, n = parent_and_name(p)
        if n + "_r" in node:
            return None, ""
        node[n + "_r"] = node.pop(n)
        # links pointing at the renamed entry now dangle: still a different tree
        return t, "rename"
    if kind == "add_file":
        d = ([""] + dirs)[idx % (len(dirs) + 1)]
        node = t if not d else parent_and_name(d)[0][parent_and_name(d)[1]][1]
        if "added" in node:
            return None, ""
        node["added"] = ["f", ""] if idx % 2 else ["d", {}]
        return t, "add_empty_file" if idx % 2 else "add_empty_dir"
    if kind == "remove" and flat:
        p = sorted(flat)[idx % len(flat)]
        node, n = parent_and_name(p)
        del node[n]
        return t, "remove"
    if kind == "file_to_dir" and files:
        p = files[idx % len(files)]
        node, n = parent_and_name(p)
        node[n] = ["d", {}]
        return t, "file_to_dir"
    if kind == "dir_to_file" and dirs:
        p = dirs[idx % len(dirs)]
        node, n = parent_and_name(p)
        node[n] = ["f", ""]
        return t, "dir_to_file"
    if kind == "file_to_link" and files:
        # replace a file by a symlink to a (new) file with identical content
        p = files[idx % len(files)]
        node, n = parent_and_name(p)
        pointed = {os.path.normpath(os.path.join(lp.rpartition("/")[0], flat[lp][1])) for lp in links}
        if "twin" in node or p in pointed:
            return None, ""  # (a link pointing at the file would become a link -> link chain: outside the domain)
        node["twin"] = ["f", node[n][1]]
        t_with_twin = copy.deepcopy(t)
        node[n] = ["l", "twin"]
        # compare against the tree that has the twin but still the regular file: done by caller via model;
        # here the edit is "add twin + link", which must be visible as well
        return t, "file_to_link"
    if kind == "retarget" and links:
        p = links[idx % len(links)]
        node, n = parent_and_name(p)
        ldir = p.rpartition("/")[0]
        old = os.path.normpath(os.path.join(ldir, node[n][1]))
        oe = flat.get(old)
        mode = ed[2] % 3
        if mode == 0 and oe is not None and oe[0] == "f":
            if "twin2" in t:
                return None, ""
            t["twin2"] = ["f", oe[1]]  # equal content elsewhere
            node[n] = ["l", D.rel_target(ldir, "twin2")]
            return t, "retarget_equal_content"
        if mode == 1 and dirs:
            tgt = dirs[idx % len(dirs)]
            if os.path.normpath(tgt) == old:
                return None, ""
            node[n] = ["l", D.rel_target(ldir, tgt)]
            return t, "retarget_dir"
        tgt = "dangling-%d" % (idx % 3)
        if tgt == old:
            return None, ""
        node[n] = ["l", D.rel_target(ldir, tgt)]
        return t, "retarget_dangling"
    return None, ""


def check_outside(tree, spec, rec=None):
    """A symlink leading outside must be rejected with ValueError."""
    kind, di = spec
    root = new_scratch("vt-c19o-")
    try:
        base = os.path.join(root, "data")
        os.mkdir(base)
        D.realize(tree, base, 0)
        # things outside
        os.mkdir(os.path.join(root, "data_backup"))
        with open(os.path.join(root, "data_backup", "secret.txt"), "wb") as f:
            f.write(b"s")
        with open(os.path.join(root, "outside.txt"), "wb") as f:
            f.write(b"o")
        os.mkdir(os.path.join(root, "odir"))
        dirs = D.dirs_of(tree)
        ldir = dirs[di % len(dirs)]
        depth = len([s for s in ldir.split("/") if s])
        up = "../" * (depth + 1)
        target = {
            "file": up + "outside.txt", "dir": up + "odir", "prefix_sibling": up + "data_backup/secret.txt",
            "prefix_sibling_dir": up + "data_backup", "absolute_file": os.path.join(root, "outside.txt"),
            "absolute_dir": "/", "parent": up.rstrip("/"), "dangling_outside": up + "nothing-here",
            "updown": up + "odir/../outside.txt",
            # leaves the directory and comes back in through a link that lives outside
            "out_and_back": up + "odir/back", "out_and_back_file": up + "odir/backf",
        }[kind]
        os.symlink(base, os.path.join(root, "odir", "back"))
        files_in = sorted(p for p, e in D.flatten(tree).items() if e[0] == "f")
        os.symlink(os.path.join(base, files_in[0]) if files_in else base, os.path.join(root, "odir", "backf"))
        lp = os.path.join(base, ldir, "outlink")
        if os.path.lexists(lp):
            return
        os.symlink(target, lp)
        try:
            res = HS.dir_hashsums(Path(base))
        except ValueError:
            if rec is not None:
                rec.case(nt_key=["outside", kind, ldir], classes=["outside_link", f"outside_{kind}"],
                         sample=dict(kind="outside", link_dir=ldir, target=target))
            return
        except Exception as e:  # noqa: BLE001
            raise Violation("C19:outside-link-wrong-exception", f"{kind}: {type(e).__name__}: {e}", "ValueError")
        node = res
        for s in [x for x in ldir.split("/") if x]:
            node = node[s]
        raise Violation(f"C19:outside-link-accepted:{'file' if 'file' in kind or kind in ('prefix_sibling', 'updown') else 'other'}",
                        f"{kind}: link {ldir}/outlink -> {target} accepted as {node.get('outlink')!r}", "ValueError")
    finally:
        shutil.rmtree(root, ignore_errors=True)


def check_link_resolution(rec):
    """Targets that pass through other links: what counts is where the operating system takes the link (all but the
    last component resolved), not a textual simplification of the target string."""
    root = new_scratch("vt-c19r-")
    try:
        def fresh(name):
            d = os.path.join(root, name)
            os.makedirs(os.path.join(d, "sub"))
            os.makedirs(os.path.join(d, "deep", "x", "y"))
            for f in ("f", "deep/f", "deep/other"):
                with open(os.path.join(d, f), "wb") as fh:
                    fh.write(f.encode())
            return d

        with open(os.path.join(root, "secret.txt"), "wb") as fh:
            fh.write(b"outside")
        # (a) leaves the directory through an inner link that points at the directory itself
        d = fresh("a")
        os.symlink("..", os.path.join(d, "sub", "up"))  # -> d (inside)
        os.symlink("sub/up/../secret.txt", os.path.join(d, "esc"))  # -> <parent of d>/secret.txt
        case = dict(kind="linkres", which="escape-through-inner-link")
        try:
            res = HS.dir_hashsums(Path(d))
            rec.fail("C19:outside-link-accepted:through-inner-link", case, f"esc -> sub/up/../secret.txt (really {os.path.realpath(os.path.join(d, 'esc'))}) "
                     f"recorded as {res.get('esc')!r}", "ValueError")
        except ValueError:
            pass
        rec.case(nt_key=["linkres", "a"], classes=["link_through_link"], sample=case)
        # (b) stays inside although the text of the target seems to go up too far
        d = fresh("b")
        os.symlink("deep/x/y", os.path.join(d, "s"))
        os.symlink("s/../../other", os.path.join(d, "l"))  # -> deep/other
        case = dict(kind="linkres", which="inside-through-link")
        try:
            res = HS.dir_hashsums(Path(d))
            if res.get("l") != "symlink:deep/other":
                rec.fail("C19:differs-from-model:link-through-link", case, res.get("l"), "symlink:deep/other")
        except ValueError as e:
            rec.fail("C19:inside-link-rejected", case, f"l -> s/../../other points to {os.path.realpath(os.path.join(d, 'l'))}: {e}", "symlink:deep/other")
        rec.case(nt_key=["linkres", "b"], classes=["link_through_link"], sample=case)
        # (c) two different targets
        d1, d2 = fresh("c1"), fresh("c2")
        for dd, tgt in ((d1, "f"), (d2, "s/../f")):
            os.symlink("deep/x", os.path.join(dd, "s"))
            os.symlink(tgt, os.path.join(dd, "l"))  # d1: -> f, d2: -> deep/f
        case = dict(kind="linkres", which="retarget-through-link")
        try:
            h1, h2 = HS.dir_hashsums(Path(d1)), HS.dir_hashsums(Path(d2))
            if h1 == h2:
                rec.fail("C19:edit-invisible:retarget-through-link", case, f"l -> f and l -> s/../f (= deep/f) both recorded as {h1.get('l')!r}", "different trees")
        except ValueError as e:
            rec.fail("C19:inside-link-rejected", case, str(e), "accepted")
        rec.case(nt_key=["linkres", "c"], classes=["link_through_link"], sample=case)
    finally:
        shutil.rmtree(root, ignore_errors=True)


class ChunkyStream(io.RawIOBase):
    """Binary stream that returns short reads according to a generated chunking."""

    def __init__(self, data, chunks):
        self.data, self.pos, self.chunks, self.i = data, 0, chunks or [1], 0

    def read(self, n=-1):
        lim = self.chunks[self.i % len(self.chunks)]
        self.i += 1
        if n is None or n < 0:
            n = len(self.data)
        n = max(1, min(n, lim))
        out = self.data[self.pos:self.pos + n]
        self.pos += len(out)
        return out


def check_stream(case, rec):
    size, fill, chunks, alg = case
    data = bytes((fill + i * 7) % 256 for i in range(size))
    exp = hashlib.new(alg, data).hexdigest()
    for what, arg in (("bytes", data), ("BytesIO", io.BytesIO(data)), ("chunky", ChunkyStream(data, chunks))):
        got = HS.hashsum(arg, alg)
        if got != exp:
            raise Violation(f"C19:hashsum-wrong:{what}", f"size {size} chunks {chunks[:5]} -> {got}", exp)
    q = HS.qualified_hashsum(ChunkyStream(data, chunks), alg)
    if q != f"{alg}:{exp}":
        raise Violation("C19:qualified-prefix", q, f"{alg}:{exp}")
    rec.case(nt_key=["stream", size, chunks[:4], alg] if size > 64 and len(set(chunks)) > 1 else None, classes=["chunked_stream"])


EDIT = st.tuples(st.sampled_from(["content_byte", "content_byte", "rename", "add_file", "remove", "file_to_dir",
                                  "dir_to_file", "file_to_link", "file_to_link", "retarget", "retarget", "retarget"]),
                 st.integers(0, 60), st.integers(0, 5))


def plan(tier, seed):
    return ([dict(name=f"trees-{i}", kind="trees", i=i) for i in range(12)]
            + [dict(name=f"outside-{i}", kind="outside", i=i) for i in range(2)]
            + [dict(name=f"stream-{i}", kind="stream", i=i) for i in range(2)] + [dict(name="linkres", kind="linkres", i=0)])


def run_shard(shard, tier, seed, rec):
    k = shard["kind"]
    s = seed * 100 + shard["i"]
    if k == "linkres":
        check_link_resolution(rec)
        return
    if k == "trees":
        n = {"quick": 110, "thorough": 3500}[tier]
        strat = st.tuples(D.trees(3, 4), st.integers(0, 40), st.lists(EDIT, min_size=1, max_size=3))
        hyp.search(strat, lambda c: check_tree(c[0], c[1], rec, [list(e) for e in c[2]]), rec, seed=s, max_examples=n)
    elif k == "outside":
        n = {"quick": 150, "thorough": 3000}[tier]
        kinds = ["file", "dir", "prefix_sibling", "prefix_sibling_dir", "absolute_file", "absolute_dir", "parent",
                 "dangling_outside", "updown", "out_and_back", "out_and_back_file"]
        strat = st.tuples(D.trees(2, 3), st.tuples(st.sampled_from(kinds), st.integers(0, 10)))
        hyp.search(strat, lambda c: check_outside(c[0], c[1], rec), rec, seed=s + 50, max_examples=n)
    elif k == "stream":
        n = {"quick": 400, "thorough": 8000}[tier]
        sizes = st.one_of(st.sampled_from(D.SIZES + [65535, 65536, 65537, 70000]), st.integers(0, 5000))
        strat = st.tuples(sizes, st.integers(0, 255), st.lists(st.sampled_from([1, 2, 7, 63, 64, 65, 128, 1000, 10 ** 6]),
                                                               min_size=1, max_size=6), st.sampled_from(["sha256", "sha512"]))
        hyp.search(strat, lambda c: check_stream(c, rec), rec, seed=s + 70, max_examples=n)
        try:
            HS.hashsum(b"x", "md5-nope")
        except ValueError:
            pass
        else:
            rec.fail("C19:unsupported-alg-accepted", dict(kind="alg"), "no error", "ValueError")
    else:
        raise HarnessError(shard)


def replay(rp, rec):
    case = rp["case"]
    try:
        if isinstance(case, dict) and case.get("kind") == "linkres":
            check_link_resolution(rec)
        elif isinstance(case, (list, tuple)) and len(case) == 3 and isinstance(case[0], dict):
            check_tree(case[0], case[1], rec, [list(e) for e in case[2]])
        elif isinstance(case, (list, tuple)) and len(case) == 2:
            check_outside(case[0], tuple(case[1]), rec)
        elif isinstance(case, (list, tuple)) and len(case) == 4:
            check_stream(case, rec)
    except Violation as v:
        rec.fail(v.signature, case, v.observed, v.expected)
