"""C01 — IH5 overlay is transparent: patch boundaries are unobservable."""
from .. import compat  # noqa: F401
from .. import history as H
from .. import hyp
from ..evidence import HarnessError, Violation

ID = "C01"
LEVEL = "exploration"
RULE = (
    "Hypothesis-generated histories (set/mkgrp/del/setattr/delattr/copy/move + macro ops replace, touch, "
    "copy-into-own-subtree; 4-name pool + awkward keys; ~10% ops aimed at missing/wrong-kind paths) with commit, "
    "reopen(r+/a, committed or not) and discard ops at generated positions; every history runs under placements "
    "none / generated / commit-after-every-op against IH5Record (and IH5MFRecord in half the shards) in lock step "
    "with an independent reference tree; after every op: success parity, full tree dump equality, "
    "keys/len/in/[]/get/visit/visititems agreement. Ops also cover: re-creation at deleted paths by set/mkgrp/move/copy "
    "(revive), values h5py refuses (the failed assignment must change nothing), refused attribute writes after a delete, "
    "in-place edits of array datasets (copy_into_patch), 0-dim / string-array / opaque-datetime / enum / non-UTF-8 values. "
    "Fixed matrices (shard invalid-keys): keys outside the alphabet x every entry point, forms of the deletion-marker "
    "value (refused or stored visibly), a lazily allocated 8 TiB dataset next to ordinary data, a group moved below itself "
    "(refused without effect), copy(name=None). Non-trivial = a node recreated in a patch is later touched "
    "in a later container (>=3 containers involved) or a delete/recreate happens in container index >=2; "
    "distinct by (placement, container count, bound op kinds and paths)"
)
ASSUMPTIONS = [
    "reference tree validated against plain h5py.File on generated histories at check start (exit 2 on disagreement)",
    "values compared through one canonicaliser of ds[()] / attrs[k]; storage conversions taken from plain h5py",
    "not asserted: exception classes, iteration order, '.'/empty segments, move onto itself/into own subtree, "
    "dataset slice writes",
    "divergence detected by a work counter on h5py create_* calls (50x node count), never by wall clock",
]
REQUIRED_CLASSES = {"all": ["containers_ge3", "replace_then_touch_3containers", "copy_into_own_subtree",
                            "delete_node_from_earlier_container", "attr_delete_across_containers", "reopen",
                            "reopen_uncommitted", "discard", "expected_failure", "recreate_in_patch"]}
BUDGET_S = {"quick": 900, "thorough": 3 * 3600}
NSHARD = 16


def selfcheck():
    H.install_work_guard()
    H.selfcheck_model(60)


def plan(tier, seed):
    return [dict(name=f"hist-{i}", i=i) for i in range(NSHARD)] + [dict(name="invalid-keys", kind="keys")]


BAD_KEYS = ["a b", "ä", "a@b", "g/a b", "g/ä/x", "tab\tkey", "@", "nl\n", "g/nl\n"]


def check_lazy_big(cls_name, in_patch, rec):
    """A dataset far larger than memory (created by shape, allocated lazily by HDF5): listing the record, reading its
    siblings and slices of it works as on a plain HDF5 file."""
    import numpy as np

    t = _mk(cls_name)()
    case = dict(kind="lazybig", cls=cls_name, in_patch=in_patch)
    try:
        r = t.rec
        r["small"] = 1
        if in_patch:
            t.commit()
        try:
            r.create_dataset("g/big", shape=(2 ** 40,), dtype="f8")
            got = dict(keys=sorted(r.keys()), gkeys=sorted(r["g"].keys()), small=int(r["small"][()]), has=("g/big" in r),
                       part=np.asarray(r["g/big"][5:8]).tolist(), last=float(r["g/big"][2 ** 40 - 1]))
            r["other"] = 2
            t.reopen("r+", True)
            r = t.rec
            got["keys_after_reopen"] = sorted(r.keys())
        except MemoryError as e:
            rec.fail("C01:record-unusable-next-to-large-dataset", case, f"MemoryError: {str(e)[:120]}", "works as on a plain HDF5 file")
            return
        exp = dict(keys=["g", "small"], gkeys=["big"], small=1, has=True, part=[0.0, 0.0, 0.0], last=0.0,
                   keys_after_reopen=["g", "other", "small"])
        if got != exp:
            rec.fail("C01:view-differs:large-dataset", case, got, exp)
        rec.case(nt_key=[cls_name, in_patch, "lazybig"], classes=["lazy_large_dataset"], sample=case)
    finally:
        t.destroy()


def check_marker_forms(cls_name, in_patch, rec):
    """The reserved deletion-marker value, however it reaches the container, is either refused loudly or stored as a
    visible value - never accepted and then treated as 'deleted'."""
    import numpy as np

    M = b"\x7f"
    forms = [
        ("setitem_void", lambda r: r.__setitem__("x", np.void(M))),
        ("setitem_0d", lambda r: r.__setitem__("x", np.asarray(np.void(M)))),
        ("create_dataset_bytes_dtype", lambda r: r.create_dataset("x", data=M, dtype="V1")),
        ("create_dataset_uint8_dtype", lambda r: r.create_dataset("x", data=np.uint8(127), dtype="V1")),
        ("create_dataset_array_shape", lambda r: r.create_dataset("x", data=np.array([M], "V1"), shape=())),
        ("require_dataset_data", lambda r: r.require_dataset("x", shape=(), dtype="V1", data=M)),
        ("dataset_assign", lambda r: (r.create_dataset("x", data=np.void(b"\x00")), r["x"].__setitem__((), np.void(M)))),
        ("dataset_assign_0d", lambda r: (r.create_dataset("x", data=np.void(b"\x00")), r["x"].__setitem__((), np.asarray(np.void(M))))),
        ("attr_void", lambda r: r["keep"].attrs.__setitem__("x", np.void(M))),
        ("attr_0d", lambda r: r["keep"].attrs.__setitem__("x", np.asarray(np.void(M)))),
    ]
    for name, fn in forms:
        t = _mk(cls_name)()
        try:
            r = t.rec
            r["keep"] = 1
            if in_patch:
                r["x"] = 5  # something older at that path
                r["keep"].attrs["x"] = 5
                t.commit()
                del r["x"]
                del r["keep"].attrs["x"]
            case = dict(kind="marker", cls=cls_name, in_patch=in_patch, form=name)
            try:
                fn(r)
                raised = False
            except Exception:  # noqa: BLE001
                raised = True
            if not raised:
                where = r["keep"].attrs if name.startswith("attr") else r
                visible = "x" in where and bytes(np.asarray(where["x"] if name.startswith("attr") else where["x"][()]).tobytes()) == M
                if not visible:
                    rec.fail(f"C01:marker-value-stored-silently:{name}", case, f"{name}: accepted, but 'x' is "
                             f"{'absent' if 'x' not in where else 'something else'} afterwards", "refused loudly, or stored as a visible value")
            elif name.startswith("dataset_assign") and ("x" not in r or bytes(r["x"][()].tobytes()) != b"\x00"):
                rec.fail(f"C01:refused-marker-write-had-effect:{name}", case, "the dataset is gone / changed after the refused write", "unchanged")
            rec.case(nt_key=[cls_name, in_patch, name], classes=["marker_form_" + ("refused" if raised else "stored_visibly")], sample=None)
        finally:
            t.destroy()


def check_invalid_keys(cls_name, in_patch, rec):
    """Keys outside the documented alphabet (printable ASCII without blank and '@') are refused by EVERY entry point,
    with no effect - an accepted one would make a node that no other call can address."""
    from ..treemodel import dump_real

    t = _mk(cls_name)()
    try:
        r = t.rec
        r["g/x"] = 1
        r["d"] = 2
        if in_patch:
            t.commit()
        for key in BAD_KEYS:
            before = dump_real(r, crosscheck=False)
            for how, fn in (("setitem", lambda: r.__setitem__(key, 1)), ("create_group", lambda: r.create_group(key)),
                            ("require_group", lambda: r.require_group(key)), ("create_dataset", lambda: r.create_dataset(key, data=1)),
                            ("require_dataset", lambda: r.require_dataset(key, shape=(), dtype="i8")),
                            ("copy_dst", lambda: r.copy("d", key)), ("move_dst", lambda: r.move("d", key)),
                            ("attr_set", lambda: r["g"].attrs.__setitem__(key, 1))):
                if how == "attr_set" and "/" in key:
                    continue
                case = dict(kind="keys", cls=cls_name, in_patch=in_patch, key=key, how=how)
                try:
                    fn()
                    raised = False
                except Exception:  # noqa: BLE001
                    raised = True
                try:
                    after = dump_real(r, crosscheck=False)
                except Exception as e:  # noqa: BLE001 - e.g. the new node cannot be addressed by the listing itself
                    after = {"<unreadable>": f"{type(e).__name__}: {e}"}
                if not raised or after != before:
                    rec.fail(f"C01:invalid-key-accepted:{how}", case,
                             f"{how} with key {key!r}: raised={raised}, tree {'changed' if after != before else 'unchanged'}"
                             f" (now {sorted(after)})", "refused without effect")
                    t.destroy()
                    t = _mk(cls_name)()
                    r = t.rec
                    r["g/x"] = 1
                    r["d"] = 2
                    if in_patch:
                        t.commit()
                    before = dump_real(r, crosscheck=False)
                rec.case(nt_key=[cls_name, in_patch, key, how], classes=["invalid_key_refused"], sample=None)
    finally:
        t.destroy()


def _mk(cls_name):
    cls = H.IH5Record if cls_name == "IH5Record" else H.IH5MFRecord
    return lambda: H.IH5Target(cls)


def run_case(case, rec=None):
    hist, cls_name = case["history"], case.get("cls", "IH5Record")
    placements = ["none", "generated"] + (["every"] if len(hist) <= 25 else [])
    for pl in placements:
        try:
            out = H.run_history(hist, _mk(cls_name), placement=pl)
        except Violation as v:
            v.extra["placement"] = pl
            v.signature = v.signature + ("" if pl != "none" else ":single-container")
            raise
        out.target.destroy()
        if rec is not None:
            nt = out.nontrivial
            rec.case(nt_key=H.shape_key(out, pl) if nt else None, classes=sorted(out.classes) + [f"placement_{pl}"],
                     sample=dict(placement=pl, cls=cls_name, containers=out.n_containers, history=hist)
                     if nt and pl == "generated" else None)


def check_move_into_self(cls_name, in_patch, rec):
    """Moving a group below itself has no single-tree reference (raw HDF5 detaches the subtree), so it is not part of
    the generated histories; the one sound outcome - refused, nothing changed - is checked here."""
    from vt.treemodel import dump_real

    t = _mk(cls_name)()
    case = dict(kind="move-into-self", cls=cls_name, in_patch=in_patch)
    try:
        r = t.rec
        r["g/b"] = 1
        r["g/sub/c"] = [1, 2]
        r["g"].attrs["k"] = "v"
        if in_patch:
            t.commit()
        before = dump_real(r)
        for src, dst, recv in (("g", "g/x", "/"), ("g", "g/sub/g", "/"), ("g/sub", "g/sub/sub", "/"), ("sub", "sub/deeper/x", "g")):
            try:
                (r if recv == "/" else r[recv]).move(src, dst)
                raised = False
            except Exception:  # noqa: BLE001
                raised = True
            now = dump_real(r)
            if now != before:
                rec.fail("C01:move-into-own-subtree-changed-tree", dict(case, src=src, dst=dst),
                         f"move({src!r}, {dst!r}) {'raised but' if raised else 'returned and'} the tree changed: {sorted(set(before) ^ set(now))[:6]}",
                         "refused without effect")
                return
            if not raised:
                rec.fail("C01:move-into-own-subtree-accepted", dict(case, src=src, dst=dst), "returned normally", "refused")
        rec.case(nt_key=[cls_name, in_patch, "move-into-self"], classes=["move_into_own_subtree_refused"], sample=case)
    finally:
        t.destroy()


def check_copy_name_default(cls_name, in_patch, rec):
    """copy(src, group_node, name=None): None is the documented default of the keyword (= take the source's name)."""
    from vt.treemodel import dump_real

    t = _mk(cls_name)()
    case = dict(kind="copy-name-none", cls=cls_name, in_patch=in_patch)
    try:
        r = t.rec
        r["g/d"] = [1, 2]
        r.create_group("h")
        r.create_group("h2")
        if in_patch:
            t.commit()
        try:
            r.copy("g/d", r["h"])
            r.copy("g/d", r["h2"], name=None)
        except Exception as e:  # noqa: BLE001
            rec.fail("C01:op-fails:copy:name-none", case, f"{type(e).__name__}: {e}", "as without the keyword")
            return
        d = dump_real(r)
        if d.get("/h/d") != d.get("/g/d") or d.get("/h2/d") != d.get("/g/d"):
            rec.fail("C01:view-differs:copy-name-none", case, sorted(d), "/h/d and /h2/d are copies of /g/d")
        rec.case(nt_key=[cls_name, in_patch, "copy-name-none"], classes=["copy_name_keyword_default"], sample=case)
    finally:
        t.destroy()


def run_shard(shard, tier, seed, rec):
    H.install_work_guard()
    if shard.get("kind") == "keys":
        for cn in ("IH5Record", "IH5MFRecord"):
            for ip in (False, True):
                check_invalid_keys(cn, ip, rec)
                check_marker_forms(cn, ip, rec)
                check_lazy_big(cn, ip, rec)
                check_move_into_self(cn, ip, rec)
                check_copy_name_default(cn, ip, rec)
        return
    i = shard["i"]
    n = {"quick": 70, "thorough": 2500}[tier]
    max_ops = {"quick": 30, "thorough": 60 if i % 4 else 120}[tier]
    cls_name = "IH5Record" if i % 2 == 0 else "IH5MFRecord"
    strat = H.histories(3, max_ops, boundary_weight=1 if i % 3 else 2).map(lambda h: dict(history=h, cls=cls_name))
    hyp.search(strat, lambda c: run_case(c, rec), rec, seed=seed * 1000 + i, max_examples=n,
               shrink_budget_s=25 if tier == "quick" else 120)


def replay(rp, rec):
    H.install_work_guard()
    try:
        if rp["case"].get("kind") == "keys":
            check_invalid_keys(rp["case"]["cls"], rp["case"]["in_patch"], rec)
        elif rp["case"].get("kind") == "lazybig":
            check_lazy_big(rp["case"]["cls"], rp["case"]["in_patch"], rec)
        elif rp["case"].get("kind") == "copy-name-none":
            check_copy_name_default(rp["case"]["cls"], rp["case"]["in_patch"], rec)
        elif rp["case"].get("kind") == "move-into-self":
            check_move_into_self(rp["case"]["cls"], rp["case"]["in_patch"], rec)
        elif rp["case"].get("kind") == "marker":
            check_marker_forms(rp["case"]["cls"], rp["case"]["in_patch"], rec)
        else:
            run_case(rp["case"], rec)
    except Violation as v:
        rec.fail(v.signature, rp["case"], v.observed, v.expected)
