"""C01 — IH5 overlay is transparent: patch boundaries are unobservable."""
from .. import compat  # noqa: F401
from .. import history as H
from .. import hyp
from ..evidence import HarnessError, Violation

ID = "C01"
LEVEL = "exploration"
RULE = (
    "Hypothesis-generated histories (set/mkgrp/del/setattr/delattr/copy/move + macro ops replace, touch, "
    "copy-into-own-subtree; 4-name pool + awkward keys; ~10% ops aimed at missing/wrong-kind paths) with commit, "
    "reopen(r+/a, committed or not) and discard ops at generated positions; every history runs under placements "
    "none / generated / commit-after-every-op against IH5Record (and IH5MFRecord in half the shards) in lock step "
    "with an independent reference tree; after every op: success parity, full tree dump equality, "
    "keys/len/in/[]/get/visit/visititems agreement. Non-trivial = a node recreated in a patch is later touched "
    "in a later container (>=3 containers involved) or a delete/recreate happens in container index >=2; "
    "distinct by (placement, container count, bound op kinds and paths)"
)
ASSUMPTIONS = [
    "reference tree validated against plain h5py.File on generated histories at check start (exit 2 on disagreement)",
    "values compared through one canonicaliser of ds[()] / attrs[k]; storage conversions taken from plain h5py",
    "not asserted: exception classes, iteration order, '.'/empty segments, move onto itself/into own subtree, "
    "dataset slice writes",
    "divergence detected by a work counter on h5py create_* calls (50x node count), never by wall clock",
]
REQUIRED_CLASSES = {"all": ["containers_ge3", "replace_then_touch_3containers", "copy_into_own_subtree",
                            "delete_node_from_earlier_container", "attr_delete_across_containers", "reopen",
                            "reopen_uncommitted", "discard", "expected_failure", "recreate_in_patch"]}
BUDGET_S = {"quick": 900, "thorough": 3 * 3600}
NSHARD = 16


def selfcheck():
    H.install_work_guard()
    H.selfcheck_model(60)


def plan(tier, seed):
    return [dict(name=f"hist-{i}", i=i) for i in range(NSHARD)]


def _mk(cls_name):
    cls = H.IH5Record if cls_name == "IH5Record" else H.IH5MFRecord
    return lambda: H.IH5Target(cls)


def run_case(case, rec=None):
    hist, cls_name = case["history"], case.get("cls", "IH5Record")
    placements = ["none", "generated"] + (["every"] if len(hist) <= 25 else [])
    for pl in placements:
        try:
            out = H.run_history(hist, _mk(cls_name), placement=pl)
        except Violation as v:
            v.extra["placement"] = pl
            v.signature = v.signature + ("" if pl != "none" else ":single-container")
            raise
        out.target.destroy()
        if rec is not None:
            nt = out.nontrivial
            rec.case(nt_key=H.shape_key(out, pl) if nt else None, classes=sorted(out.classes) + [f"placement_{pl}"],
                     sample=dict(placement=pl, cls=cls_name, containers=out.n_containers, history=hist)
                     if nt and pl == "generated" else None)


def run_shard(shard, tier, seed, rec):
    H.install_work_guard()
    i = shard["i"]
    n = {"quick": 70, "thorough": 2500}[tier]
    max_ops = {"quick": 30, "thorough": 60 if i % 4 else 120}[tier]
    cls_name = "IH5Record" if i % 2 == 0 else "IH5MFRecord"
    strat = H.histories(3, max_ops, boundary_weight=1 if i % 3 else 2).map(lambda h: dict(history=h, cls=cls_name))
    hyp.search(strat, lambda c: run_case(c, rec), rec, seed=seed * 1000 + i, max_examples=n,
               shrink_budget_s=25 if tier == "quick" else 120)


def replay(rp, rec):
    H.install_work_guard()
    try:
        run_case(rp["case"], rec)
    except Violation as v:
        rec.fail(v.signature, rp["case"], v.observed, v.expected)
