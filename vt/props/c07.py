"""C07 — Metadata comes back as stored and queries are exact."""
import json

from .. import compat  # noqa: F401
from .. import cmodel as C
from .. import history as H
from .. import hyp
from ..evidence import Violation

from metador_core.plugin.metaclass import UndefVersion  # noqa: E402
from metador_core.plugins import schemas  # noqa: E402
from typing import Optional  # noqa: E402
from metador_core.schema import MetadataSchema  # noqa: E402

ID = "C07"
LEVEL = "exploration"
RULE = (
    "Hypothesis-generated container histories (as C06: attach valid instances of installed and harness schemas incl. "
    "three versions of one name and a 3-level inheritance chain, refused attaches, detach, copy/move/delete, held "
    "handles, patch boundaries, reopen) with probes after every step: node.meta[S] / get(S, v) / S in meta / keys / "
    "meta.query for S over stored schemas, every ancestor, absent and unknown schemas and v over {none, exact, lower "
    "minor, higher minor, other major}; container- and group-level metador.query(S, v) from root, groups and datasets. "
    "Oracle: exact lookup returns an object equal to the stored one, ancestor lookup an instance of the ancestor class "
    "equal to Ancestor.parse(stored); query sets == brute force over the reference model using parent chains derived "
    "from the class MRO (not from the TOC), both directions; membership is also asked with plugin references and "
    "classes. Scenario shard: copy with a node of ANOTHER container as source (h5->h5, ih5->ih5, h5->ih5). Non-trivial = query whose expected set is non-empty, "
    "differs from 'all annotated nodes', and contains a node matched only through a descendant schema, or a version "
    "argument that excludes an otherwise matching node; distinct by (query, expected set, tree shape)"
)
ASSUMPTIONS = ["not asserted: which of several compatible objects at one node serves an ancestor request",
               "unversioned lookups by a name with two installed major versions are skipped when the newest installed "
               "version does not support the stored one (documented multi-version limitation); counted as excluded"]
REQUIRED_CLASSES = {"all": ["query_via_descendant", "query_version_excludes", "get_exact", "get_ancestor", "get_absent",
                            "start_subgroup", "start_dataset", "held_handle_reused"]}
BUDGET_S = {"quick": 900, "thorough": 3 * 3600}
NSHARD = 16

NAMES = ["verif.base", "verif.mid", "verif.leaf", "verif.alpha", "verifother.thing", "core.file", "core.table", "core.person",
         "example.matsci.material", "core.dir", "verif.nope"]
VERSIONS = [None, (1, 0, 0), (1, 1, 0), (1, 2, 0), (2, 0, 0), (0, 1, 0), (0, 3, 1), (0, 3, 0), (0, 4, 0), (1, 0, 5)]


def supports(req, ref):
    """req = (name, version or None), ref = (name, version): does a request for req accept an object of ref?"""
    if req[0] != ref[0]:
        return False
    if req[1] is None:
        return True
    return req[1][0] == ref[1][0] and req[1][1] >= ref[1][1]


def matching(model, path, sname, sver):
    """Stored objects at `path` that satisfy a request for (sname, sver): [(stored name, via)], via in exact|descendant."""
    out = []
    for name, v in model.meta.get(path, {}).items():
        for i, p in enumerate(v["parents"]):
            if supports((sname, sver), (p[0], tuple(p[1]))):
                out.append((name, "exact" if p[0] == name else "descendant", tuple(p[1])))
                break
    return out


def probe(sess, op, rec=None, full=False):
    m = sess.model
    tree = m.tree.dump()
    paths = sorted(tree)
    annotated = sorted(p for p in m.meta if m.meta[p])
    k = sess.pos
    combos = [(n, v) for n in NAMES for v in VERSIONS]
    pick = combos[k % 4::4] if full else [combos[(k * 7 + i * 13) % len(combos)] for i in range(3)]
    # make sure stored schemas and their ancestors are asked for
    for p in (annotated if full or len(annotated) <= 4 else annotated[k % 2:][:2]):
        for name, v in m.meta[p].items():
            for par in v["parents"]:
                pick.append((par[0], tuple(par[1])))
                pick.append((par[0], None))
                pick.append((par[0], (par[1][0], par[1][1] + 1, 0)))  # higher minor: still supports
                if par[1][1] > 0:
                    pick.append((par[0], (par[1][0], par[1][1] - 1, 0)))  # lower minor: excludes
    starts = ["/"] + [p for p in paths if tree[p][0] == "g" and p != "/"][: 3 if full else 1] + [p for p in annotated if tree[p][0] == "d"][:1]
    for t in sess.targets:
        mc = t.mc
        where = f"after step {sess.pos} {op[0]} on {t.driver}"
        for sname, sver in dict.fromkeys(pick):
            # ---- queries
            for s in starts:
                exp = sorted(p for p in paths if (p == s or p.startswith(s.rstrip("/") + "/")) and matching(m, p, sname, sver))
                start_node = mc if s == "/" else mc[s]
                try:
                    got = sorted(n.name for n in start_node.metador.query(sname, sver))
                    if s != "/":
                        got2 = sorted(n.name for n in mc.metador.query(sname, sver, node=start_node))
                    else:
                        got2 = got
                except Exception as e:  # noqa: BLE001
                    raise Violation("C07:query-raises", f"{where}: query({sname}, {sver}) from {s}: {type(e).__name__}: {str(e)[:200]}", exp)
                if got != exp or got2 != exp:
                    missing = sorted(set(exp) - set(got))
                    extra = sorted(set(got) - set(exp))
                    kind = "missing" if missing else ("extra" if extra else "group-vs-container-form")
                    sub = ":start-node" if (s in missing or s in extra) else ""
                    raise Violation(f"C07:query-{kind}{sub}", f"{where}: query({sname}, {sver}) from {s} -> {got} (container form {got2})", exp)
                via_desc = any(any(x[1] == "descendant" for x in matching(m, p, sname, sver)) for p in exp)
                others = [p for p in annotated if (p == s or p.startswith(s.rstrip("/") + "/"))]
                ver_excl = sver is not None and any(matching(m, p, sname, None) and not matching(m, p, sname, sver) for p in others)
                classes = []
                if via_desc and exp and exp != others:
                    classes.append("query_via_descendant")
                if ver_excl:
                    classes.append("query_version_excludes")
                if s != "/":
                    classes.append("start_subgroup" if tree[s][0] == "g" else "start_dataset")
                if rec is not None:
                    nt = bool(classes[:2]) and bool(set(classes) & {"query_via_descendant", "query_version_excludes"})
                    rec.case(nt_key=[sname, sver, s, exp, sorted(annotated)] if nt else None, classes=classes + ["query_probe"],
                             sample=dict(kind="query", schema=sname, version=sver, start=s, expected=exp,
                                         annotated={p: sorted(m.meta[p]) for p in annotated}) if nt else None)
            # ---- per-node lookups
            for p in (annotated[:4] if not full else annotated) + ([paths[k % len(paths)]] if paths else []):
                node = mc if p == "/" else mc[p]
                h = node.meta
                cands = matching(m, p, sname, sver)
                try:
                    present = (sname, sver) in h if sver is not None else sname in h
                except Exception as e:  # noqa: BLE001
                    raise Violation("C07:contains-raises", f"{where}: ({sname},{sver}) in meta of {p}: {type(e).__name__}: {e}", bool(cands))
                if present != bool(cands):
                    raise Violation("C07:contains-wrong", f"{where}: ({sname},{sver}) in meta of {p} -> {present}", bool(cands))
                # something that names no schema plugin at all is not contained (and matches nothing)
                for form, key in (("class-without-plugin", _NoPlugin), ("None", None)):
                    try:
                        bogus = (key in h, [str(r) for r in h.query(key)] if key is not None else [])
                    except Exception:  # noqa: BLE001 - refusing the question is fine
                        bogus = (False, [])
                    if bogus[0] or bogus[1]:
                        raise Violation(f"C07:contains-wrong:{form}", f"{where}: <{form}> in meta of {p} -> {bogus[0]}, query -> {bogus[1]}", "False / nothing")
                if sver is not None and schemas.get(sname, sver) is not None:
                    # the same question asked with a plugin reference and with the schema class
                    for form, key in (("ref", schemas.PluginRef(name=sname, version=sver)), ("class", schemas.get(sname, sver))):
                        try:
                            present_k = key in h
                        except Exception as e:  # noqa: BLE001
                            raise Violation(f"C07:contains-raises:{form}", f"{where}: <{form} {sname} {sver}> in meta of {p}: {type(e).__name__}: {e}", present)
                        if form == "ref" and present_k != present:
                            raise Violation(f"C07:contains-wrong:{form}", f"{where}: {present_k}", present)
                # unversioned request by a multi-version name: skip if the newest installed version cannot parse it
                if sver is None and cands:
                    newest = schemas.resolve(sname)
                    stored_anc = cands[0][2]
                    if newest is not None and not supports((sname, tuple(newest.version)), (sname, stored_anc)):
                        if rec is not None:
                            rec.excluded["unversioned-get-with-incompatible-newest-major"] += 1
                        continue
                try:
                    obj = h.get(sname, sver)
                except Exception as e:  # noqa: BLE001
                    if sname == "verif.nope" or schemas.resolve(sname, sver) is None:
                        obj = None  # requested schema (version) is not installed at all: nothing can be returned
                        if cands:
                            continue
                    else:
                        raise Violation("C07:get-raises", f"{where}: get({sname},{sver}) at {p}: {type(e).__name__}: {str(e)[:200]}", "object or None")
                if not cands:
                    if obj is not None:
                        raise Violation("C07:get-returns-unexpected-object", f"{where}: get({sname},{sver}) at {p} -> {obj!r}", None)
                    if rec is not None:
                        rec.cls("get_absent")
                    continue
                if obj is None:
                    if schemas.resolve(sname, sver) is None:
                        continue
                    raise Violation("C07:get-misses-object", f"{where}: get({sname},{sver}) at {p} -> None, stored {cands}", "an object")
                req_cls = schemas.get(sname, sver) if sver is not None else schemas.get(sname)
                req_cls = UndefVersion._unwrap(req_cls) or req_cls  # (unversioned access hands out a marked copy)
                if not isinstance(obj, req_cls):
                    raise Violation("C07:get-wrong-class", f"{where}: get({sname},{sver}) at {p} -> {type(obj).__name__}", req_cls.__name__)
                ok = False
                exact = [c for c in cands if c[1] == "exact" and c[0] == sname]
                for stored_name, via, _ in (exact or cands):  # an object stored under the requested schema itself wins
                    js = m.meta[p][stored_name]["json"]
                    try:
                        expected = req_cls.parse_obj(js).json_dict()
                    except Exception:  # noqa: BLE001
                        continue
                    if obj.json_dict() == expected:
                        ok = True
                        if rec is not None:
                            rec.cls("get_exact" if via == "exact" else "get_ancestor")
                        break
                if not ok:
                    raise Violation("C07:get-returns-different-object", f"{where}: get({sname},{sver}) at {p} -> {json.dumps(obj.json_dict())[:300]}",
                                    f"view of one of {[c[0] for c in cands]}: {json.dumps(m.meta[p][cands[0][0]]['json'])[:300]}")
                try:
                    obj2 = h[sname] if sver is None else h[(sname, sver)] if False else None
                except Exception:  # noqa: BLE001
                    obj2 = None
        # keys(): exactly the explicitly attached schema names
        for p in annotated + [q for q in paths if q not in m.meta][:2]:
            node = mc if p == "/" else mc[p]
            ks = sorted(node.meta.keys())
            if ks != sorted(m.meta.get(p, {})) or len(node.meta) != len(ks) or sorted(iter(node.meta)) != ks:
                raise Violation("C07:keys-wrong", f"{where}: meta.keys() at {p} -> {ks}", sorted(m.meta.get(p, {})))
            listed = sorted((r.name, tuple(r.version)) for r in node.meta.query())
            exp_l = sorted((n, tuple(v["ref"][1])) for n, v in m.meta.get(p, {}).items())
            if listed != exp_l:
                raise Violation("C07:meta-query-all-wrong", f"{where}: meta.query() at {p} -> {listed}", exp_l)


class _NoPlugin(MetadataSchema):
    """A schema class that is no plugin."""

    x: Optional[int]


def run_case(case, rec=None):
    sess = C.CSession(case["drivers"], sig="C07", after_step=lambda s, op: probe(s, op, rec))
    try:
        try:
            sess.feed(case["history"])
            sess.step(["reopen"])
            probe(sess, ["final"], rec, full=True)
        except C.EnvBug:
            if rec is not None:
                rec.excluded["hdf5-2.0-H5Ocopy-absolute-destination-bug"] += 1
            return
        if rec is not None:
            rec.case(classes=sorted(sess.classes) + ["history"])
    finally:
        sess.destroy()


def selfcheck():
    H.install_work_guard()


def plan(tier, seed):
    return [dict(name=f"hist-{i}", i=i) for i in range(NSHARD)] + [dict(name="cross-container", kind="cross")]


def check_cross_container(da, db, rec):
    """copy() with a node of ANOTHER container as source: the copy carries (copies of) the source node's metadata
    objects - never objects stored for some node of the destination container - or the call is refused."""
    a, b = C.CTarget(da), C.CTarget(db)
    try:
        A, B = a.mc, b.mc
        A["d"] = 1
        A["only"] = 2
        A["grp/x"] = 3
        A["d"].meta["verif.base"] = {"label": "A-d"}
        A["only"].meta["verif.base"] = {"label": "A-only"}
        A["grp/x"].meta["verif.base"] = {"label": "A-grp-x"}
        B["d"] = 10
        B["d"].meta["verif.base"] = {"label": "B-d (unrelated)"}
        for src, dst, exp in (("d", "e", "A-d"), ("only", "f", "A-only"), ("grp", "g/x", "A-grp-x")):
            case = dict(kind="cross", drivers=[da, db], src=src, dst=dst)
            try:
                B.copy(A[src], dst.split("/")[0])
            except Exception:  # noqa: BLE001 - refusing foreign nodes is fine
                rec.case(nt_key=None, classes=["cross_container_copy_refused"])
                continue
            got = B[dst].meta.get("verif.base")
            label = got.label if got is not None else None
            if label != exp:
                rec.fail("C07:cross-container-copy-wrong-metadata", case, f"B.copy(A[{src!r}], ...): metadata of the copy is "
                         f"{label!r}", f"{exp!r} (a copy of the source node's object)")
            q = sorted(n.name for n in B.metador.query("verif.base"))
            if ("/" + dst) not in q and label is not None:
                rec.fail("C07:query-missing:cross-container-copy", case, q, "/" + dst)
            rec.case(nt_key=[da, db, src], classes=["cross_container_copy"], sample=case)
    finally:
        a.destroy()
        b.destroy()


def run_shard(shard, tier, seed, rec):
    H.install_work_guard()
    if shard.get("kind") == "cross":
        for da, db in (("h5", "h5"), ("ih5", "ih5"), ("h5", "ih5")):
            check_cross_container(da, db, rec)
        return
    i = shard["i"]
    n = {"quick": 10, "thorough": 700}[tier]
    drivers = [["h5"], ["ih5"], ["h5"], ["ih5mf"]][i % 4]
    strat = C.chistories(8, 20 if tier == "quick" else 50).map(lambda h: dict(history=h, drivers=drivers))
    hyp.search(strat, lambda c: run_case(c, rec), rec, seed=seed * 1000 + i, max_examples=n,
               shrink_budget_s=30 if tier == "quick" else 120)


def replay(rp, rec):
    H.install_work_guard()
    try:
        if rp["case"].get("kind") == "cross":
            check_cross_container(*rp["case"]["drivers"], rec)
        else:
            run_case(rp["case"], rec)
    except Violation as v:
        rec.fail(v.signature, rp["case"], v.observed, v.expected)
