"""C02 — Committed IH5 containers are never modified again."""
import os
import shutil
from pathlib import Path

from hypothesis import strategies as st

from .. import compat  # noqa: F401
from .. import history as H
from .. import hyp, recutil
from ..evidence import Violation
from ..treemodel import diff_dumps, dump_real

ID = "C02"
LEVEL = "exploration"
RULE = (
    "generated histories of data ops interleaved with record-level ops (commit with/without manifest_exts, empty "
    "commit, discard, reopen r+/a committed or not, reopen r + back, second read-only handle on the committed files, "
    "read-only probes incl. dataset slicing, merge_files) on IH5Record and IH5MFRecord; after EVERY op the sha256 "
    "and size of every committed *.ih5 and *.ih5mf.json is compared with the digest taken at its commit and the "
    "directory listing is compared with the allowed set; each commit's file set is copied out later and must open "
    "'r' showing the tree recorded at that commit. Scenario shard: relative path + chdir (commit/discard/close), stub "
    "created next to a kept manifest, a second record object (r / r+) while a patch is open. Non-trivial = >=2 commits followed by >=2 different kinds of "
    "later record-level ops; distinct by op-kind sequence"
)
ASSUMPTIONS = ["mode 'w' excluded (explicitly truncating)", "atime/mtime not compared",
               "the harness decides what is committed from its own calls (commit_patch / close(commit=True)), "
               "never from the files"]
REQUIRED_CLASSES = {"all": ["op_merge", "op_discard", "op_reopen", "op_reopen_uncommitted", "op_reopen_r",
                            "op_second_handle", "op_probe", "op_commit_exts", "snapshot_reopened", "commits_ge3",
                            "op_open_prefix", "op_refused_calls"]}
BUDGET_S = {"quick": 900, "thorough": 3 * 3600}
NSHARD = 16

rec_op = st.one_of(
    st.just(["commit"]), st.just(["commit"]), st.just(["commit"]),
    st.builds(lambda k: ["commit", {"manifest_exts": {"e": k}}], st.integers(0, 3)),
    st.just(["discard"]),
    st.tuples(st.just("reopen"), st.sampled_from(["r+", "a"]), st.booleans()).map(list),
    st.just(["reopen_r"]), st.just(["second"]), st.just(["probe"]), st.just(["merge"]),
    st.tuples(st.just("open_prefix"), st.integers(0, 5), st.sampled_from(["r+", "a", "r"])).map(list),
    st.just(["double_commit"]),
)


def histories(max_ops):
    op = st.one_of(H.data_op, H.data_op, H.data_op.map(list), rec_op, rec_op)
    return st.lists(op, min_size=3, max_size=max_ops).map(lambda l: [list(o) for o in l])


class S2(H.Session):
    def __init__(self, cls):
        super().__init__(lambda: H.IH5Target(cls, "rec"), placement="generated", check_every=False, sig_prefix="C02")
        self.cls = cls
        self.committed = {}  # file name -> (size, sha)
        self.allowed_extra = set()  # merge targets etc.
        self.snapshots = []  # (file names, tree clone)
        self.kinds = []
        self.n_merge = 0
        self.open_files = {os.path.basename(str(p)) for p in self.target.rec.ih5_files}
        self.extra_check = lambda s, i, b: s.audit(f"after data op {i} {b['op']}")

    # -- bookkeeping
    def _is_mf(self):
        return self.cls is H.IH5MFRecord

    def note_commit(self):
        """Called right after the harness committed: every file of the record is committed now."""
        d = self.target.dir
        files = [os.path.basename(str(p)) for p in self.target.rec.ih5_files]
        names = list(files)
        if self._is_mf():
            names += [f + "mf.json" for f in files if os.path.exists(os.path.join(d, f + "mf.json"))]
            newest = files[-1] + "mf.json"
            if newest not in names:
                raise Violation("C02:manifest-missing-after-commit", newest, "manifest written at commit")
        for n in names:
            p = os.path.join(d, n)
            dig = (os.path.getsize(p), recutil.sha(p))
            if n in self.committed and self.committed[n] != dig:
                raise Violation("C02:committed-file-changed:at-commit", n, "unchanged")
            self.committed[n] = dig
        self.snapshots.append((names, self.tree.clone()))

    def audit(self, where):
        d = self.target.dir
        listing = set(os.listdir(d))
        for n, dig in self.committed.items():
            p = os.path.join(d, n)
            if n not in listing:
                raise Violation("C02:committed-file-removed", f"{n} {where}", "still exists")
            got = (os.path.getsize(p), recutil.sha(p))
            if got != dig:
                what = "manifest" if n.endswith(".json") else "container"
                raise Violation(f"C02:committed-{what}-changed", f"{n} {where}: {dig} -> {got}", "byte-identical")
        rec = self.target.rec
        allowed = set(self.committed) | self.allowed_extra
        if rec is not None:
            self.open_files = {os.path.basename(str(p)) for p in rec.ih5_files}
        allowed |= self.open_files  # (while closed: the files the record had when it was closed)
        extra = listing - allowed
        if extra:
            raise Violation("C02:unexpected-file", f"{sorted(extra)} {where}", "updates land only in the newest container")

    # -- record-level ops
    def boundary(self, op):
        kind = op[0]
        t = self.target
        self.kinds.append(kind if kind != "reopen" else ("reopen" if (len(op) < 3 or op[2]) else "reopen_uncommitted"))
        if kind == "commit":
            kw = op[1] if len(op) > 1 else {}
            if kw and not self._is_mf():
                kw = {}
            t.rec.commit_patch(**kw)
            t.commits += 1
            self.committed_tree = self.tree.clone()
            self.note_commit()
            self.audit("after commit_patch")
            t.rec.create_patch()
            self.out.classes.add("op_commit_exts" if kw else "op_commit")
        elif kind == "discard":
            if not t.can_discard():
                return
            t.rec.discard_patch()
            self.tree = self.committed_tree.clone()
            self.audit("after discard_patch")
            t.rec.create_patch()
            self.out.classes.add("op_discard")
        elif kind == "reopen":
            mode, commit = op[1], (op[2] if len(op) > 2 else True)
            t.rec.close(commit=commit)
            if commit:
                t.commits += 1
                self.committed_tree = self.tree.clone()
                t.rec = self.cls([Path(p) for p in self._files_on_disk()], "r")
                self.note_commit()
                t.rec.close()
            t.rec = None
            self.audit("after close")
            t.rec = self.cls(t.path, mode)
            self.out.classes.add("op_reopen" if commit else "op_reopen_uncommitted")
        elif kind == "reopen_r":
            t.rec.close()
            t.commits += 1
            self.committed_tree = self.tree.clone()
            t.rec = self.cls(t.path, "r")
            self.note_commit()
            self.audit("after open r")
            self.verify("opened r")
            for bad in (lambda: t.rec.create_patch(), lambda: t.rec.__setitem__("zz", 1), lambda: t.rec.commit_patch()):
                try:
                    bad()
                except Exception:  # noqa: BLE001
                    pass
            self.audit("after refused writes in r")
            t.rec.close()
            t.rec = None
            self.audit("after close of r")
            t.rec = self.cls(t.path, "r+")
            self.out.classes.add("op_reopen_r")
        elif kind == "open_prefix":
            # an older state of the record (explicit list of the first k containers) opened for reading or
            # patching: whatever happens (refusal is expected for r+/a: the next patch file exists already),
            # nothing committed may change
            files = [str(p) for p in t.rec.ih5_files]
            t.rec.close()
            t.commits += 1
            self.committed_tree = self.tree.clone()
            t.rec = self.cls([Path(p) for p in files], "r")
            self.note_commit()
            t.rec.close()
            t.rec = None
            if len(files) >= 2:
                k = 1 + op[1] % (len(files) - 1)
                ids = H.open_h5_ids()
                try:
                    r2 = self.cls([Path(p) for p in files[:k]], op[2])
                except Exception:  # noqa: BLE001
                    H.close_leaked_h5(ids)
                else:
                    try:
                        r2.close(commit=False)
                    except Exception:  # noqa: BLE001
                        H.close_leaked_h5(ids)
                self.out.classes.add("op_open_prefix")
                self.audit(f"after opening the first {k} of {len(files)} containers in mode {op[2]}")
            t.rec = self.cls(t.path, "r+")
        elif kind == "double_commit":
            # a refused call (nothing to commit) must not touch anything either
            t.rec.commit_patch()
            t.commits += 1
            self.committed_tree = self.tree.clone()
            self.note_commit()
            for bad in (lambda: t.rec.commit_patch(), lambda: t.rec.discard_patch(),
                        lambda: t.rec.__setitem__("zz", 1)):
                try:
                    bad()
                except Exception:  # noqa: BLE001
                    pass
            self.audit("after refused calls on a fully committed record")
            t.rec.create_patch()
            self.out.classes.add("op_refused_calls")
        elif kind == "second":
            files = [os.path.join(t.dir, n) for n in self.committed if n.endswith(".ih5") and n.startswith("rec")]
            if not files:
                return
            r2 = self.cls([Path(f) for f in files], "r")
            try:
                got = dump_real(r2)
            finally:
                r2.close()
            if self.committed_tree is not None and got != self.committed_tree.dump():
                raise Violation("C02:committed-set-shows-other-state", diff_dumps(got, self.committed_tree.dump()),
                                "state at last commit")
            self.out.classes.add("op_second_handle")
        elif kind == "probe":
            def visit(name, node):
                if not hasattr(node, "keys"):
                    node[()]
                    if getattr(node, "ndim", 0) >= 1:
                        try:
                            node[0:1]
                        except Exception:  # noqa: BLE001
                            pass
                list(node.attrs.items())
            t.rec.visititems(visit)
            repr(t.rec), t.rec.ih5_meta, t.rec.ih5_files, t.rec.mode
            self.out.classes.add("op_probe")
        elif kind == "merge":
            t.rec.commit_patch()
            t.commits += 1
            self.committed_tree = self.tree.clone()
            self.note_commit()
            self.n_merge += 1
            name = f"mrg{self.n_merge}"
            self.allowed_extra |= {name + ".ih5"} | ({name + ".ih5mf.json"} if self._is_mf() else set())
            t.rec.merge_files(Path(t.dir) / name)
            self.audit("after merge_files")
            for fn in (name + ".ih5", name + ".ih5mf.json"):
                fp = os.path.join(t.dir, fn)
                if os.path.exists(fp):
                    self.committed[fn] = (os.path.getsize(fp), recutil.sha(fp))  # the merged container is committed too
            # merging onto a name that exists already (the record itself, the container just written) must be
            # refused without touching anything
            for existing in ("rec", name):
                try:
                    t.rec.merge_files(Path(t.dir) / existing)
                except Exception:  # noqa: BLE001
                    pass
                self.audit(f"after merge_files onto the existing record '{existing}'")
            self.verify("after refused merges")
            t.rec.create_patch()
            self.out.classes.add("op_merge")
        else:
            raise H.HarnessError(op)
        self.audit(f"after {kind}")
        self.verify(f"after {kind}")

    def _files_on_disk(self):
        return [os.path.join(self.target.dir, n) for n in sorted(os.listdir(self.target.dir))
                if n.startswith("rec") and n.endswith(".ih5")]

    def check_snapshots(self, which):
        for names, tree in which:
            sd = H.new_scratch("vt-snap-")
            try:
                for n in names:
                    shutil.copy(os.path.join(self.target.dir, n), os.path.join(sd, n))
                try:
                    r = self.cls([Path(os.path.join(sd, n)) for n in names if n.endswith(".ih5")], "r")
                except Exception as e:  # noqa: BLE001
                    H.close_leaked_h5()
                    raise Violation("C02:commit-snapshot-does-not-open", f"{names}: {type(e).__name__}: {e}", "valid record")
                try:
                    got = dump_real(r)
                finally:
                    r.close()
                if got != tree.dump():
                    raise Violation("C02:commit-snapshot-shows-other-state", diff_dumps(got, tree.dump()), "state at that commit")
                self.out.classes.add("snapshot_reopened")
            finally:
                shutil.rmtree(sd, ignore_errors=True)


def run_case(case, rec=None):
    cls = H.IH5Record if case.get("cls", "IH5Record") == "IH5Record" else H.IH5MFRecord
    s = S2(cls)
    try:
        hist = case["history"]
        mid = len(hist) // 2
        s.feed(hist[:mid])
        s.check_snapshots(s.snapshots[-1:])
        s.feed(hist[mid:])
        s.target.rec.close()
        s.target.commits += 1
        s.committed_tree = s.tree.clone()
        s.target.rec = cls(s.target.path, "r")
        s.note_commit()
        s.audit("after final close")
        s.check_snapshots(s.snapshots)
        out = s.finish()
        if len(s.snapshots) >= 3:
            out.classes.add("commits_ge3")
        if rec is not None:
            later = set()
            ncommit = 0
            for k in s.kinds:
                if ncommit >= 2:
                    later.add(k)
                if k in ("commit", "reopen", "merge", "reopen_r", "open_prefix", "double_commit"):
                    ncommit += 1  # each of these commits the newest container
            nt = ncommit >= 2 and len(later) >= 2
            rec.case(nt_key=[case.get("cls"), s.kinds, len(out.bound)] if nt else None, classes=sorted(out.classes),
                     sample=dict(case, record_ops=s.kinds) if nt else None)
    finally:
        s.destroy()
        H.close_leaked_h5()


def selfcheck():
    H.install_work_guard()


def plan(tier, seed):
    return [dict(name=f"hist-{i}", i=i) for i in range(NSHARD)] + [dict(name="scenarios", kind="scen")]


def check_stub_next_to_sidecar(which, rec):
    """The documented stub use case (only the manifest of a record is kept locally): creating the stub under the
    record's own name next to that manifest must not replace the manifest - it belongs to a committed container."""
    from metador_core.ih5.manifest import IH5MFRecord

    root = H.new_scratch("vt-c02s-")
    case = dict(kind="stubsidecar", which=which)
    try:
        p = os.path.join(root, "rec")
        r = IH5MFRecord(p, "w")
        r["a"] = 1
        r.commit_patch()
        r.create_patch()
        r["b"] = 2
        r.close()
        away = os.path.join(root, "away")
        os.mkdir(away)
        for f in [x for x in os.listdir(root) if x.endswith(".ih5")]:
            shutil.move(os.path.join(root, f), os.path.join(away, f))  # containers elsewhere, manifests stay
        for n_ in [x for x in os.listdir(root) if x.endswith(".json")]:
            shutil.copy(os.path.join(root, n_), os.path.join(away, "_mf_" + n_))  # pristine copies of the manifests
        before = {k: v for k, v in recutil.dir_digest(root).items() if not k.startswith("away")}
        mfile = os.path.join(root, "rec.ih5mf.json" if which == "base" else "rec.p1.ih5mf.json")

        def stub():
            st_ = IH5MFRecord.create_stub(Path(p), Path(mfile))
            st_.close()

        def create(mode):
            def f():
                r_ = IH5MFRecord(p, mode)
                r_["z"] = 1
                r_.close()
            return f

        def merge_onto():
            o = IH5MFRecord(os.path.join(away, "other"), "w")
            o["q"] = 1
            o.close()
            o = IH5MFRecord(os.path.join(away, "other"), "r")
            try:
                o.merge_files(Path(p))
            finally:
                o.close()

        for how, fn in (("create_stub", stub), ("open-a", create("a")), ("open-x", create("x")), ("merge-onto-name", merge_onto)):
            try:
                fn()
            except Exception:  # noqa: BLE001 - refusing is fine
                H.close_leaked_h5()
            after = recutil.dir_digest(root)
            ch = sorted(n for n in before if n.endswith(".json") and after.get(n) != before[n])
            if ch:
                rec.fail(f"C02:manifest-of-committed-container-replaced:{how}", dict(case, how=how),
                         f"{how} under the name 'rec' changed {ch}", "manifest sidecars of committed containers untouched")
            # back to the situation: only the manifests of the original record
            for f_ in os.listdir(root):
                if f_ != "away":
                    os.unlink(os.path.join(root, f_))
            for f_ in [x for x in os.listdir(away) if x.startswith("rec.") and x.endswith(".json.bak")]:
                pass
            for n_ in before:
                if n_.endswith(".json"):
                    shutil.copy(os.path.join(away, "_mf_" + n_), os.path.join(root, n_))
        rec.case(nt_key=["stubsidecar", which], classes=["stub_next_to_kept_manifest"], sample=case)
    finally:
        H.close_leaked_h5()
        shutil.rmtree(root, ignore_errors=True)


def check_second_handle(cls, mode2, rec):
    """A second record object on the same files in the same process (e.g. a viewer opened from container.metador.source)
    while the first one has an uncommitted patch: whatever is refused or allowed, a container that was committed
    never changes afterwards and the record stays openable."""
    root = H.new_scratch("vt-c02h-")
    case = dict(kind="secondhandle", cls=cls.__name__, mode2=mode2)
    a = b = None
    try:
        p = os.path.join(root, "rec")
        r = cls(p, "w")
        r["base"] = 0
        r.close()
        a = cls(p, "r+")
        a["from_a"] = 1
        steps = []
        try:
            b = cls(p, mode2)
            steps.append("second open ok")
        except Exception as e:  # noqa: BLE001 - refusing the second object is fine
            steps.append(f"second open refused ({type(e).__name__})")
        committed = {}

        def note():
            # files that carry a checksum now are committed: remember their digest
            for n_, dg in recutil.dir_digest(root).items():
                if n_.endswith(".ih5") and n_ not in committed:
                    try:
                        from metador_core.ih5.record import IH5UserBlock
                        if IH5UserBlock.load(Path(root) / n_).hdf5_hashsum is not None:
                            committed[n_] = dg
                    except Exception:  # noqa: BLE001
                        pass

        def attempt(what, fn):
            try:
                fn()
                steps.append(what + " ok")
            except Exception as e:  # noqa: BLE001
                steps.append(f"{what} refused ({type(e).__name__})")
            now = recutil.dir_digest(root)
            ch = sorted(n_ for n_, dg in committed.items() if now.get(n_) != dg)
            if ch:
                raise Violation(f"C02:committed-file-modified:second-handle:{mode2}", f"{ch} changed after: {'; '.join(steps)}",
                                "committed containers never change")
            note()

        note()
        if b is not None and mode2 != "r":
            attempt("b write", lambda: b.__setitem__("from_b", 2))
            attempt("b commit", lambda: b.commit_patch())
        if b is not None and mode2 == "r":
            attempt("b read", lambda: sorted(b.keys()))
        attempt("a commit", lambda: a.commit_patch())
        attempt("a late write", lambda: a.__setitem__("late", 3))
        if b is not None:
            attempt("b late attr write", lambda: b.attrs.__setitem__("evil", 1))
            attempt("b close", lambda: b.close())
        attempt("a close", lambda: a.close())
        a = b = None
        H.close_leaked_h5()
        try:
            chk = cls(p, "r")
            chk.close()
        except Exception as e:  # noqa: BLE001
            H.close_leaked_h5()
            raise Violation(f"C02:record-unopenable-after-second-handle:{mode2}", f"{type(e).__name__}: {str(e)[:200]} after: {'; '.join(steps)}",
                            "the record opens")
        rec.case(nt_key=["secondhandle", cls.__name__, mode2], classes=["second_handle_same_process"], sample=dict(case, steps=steps))
    except Violation as v:
        rec.fail(v.signature, case, v.observed, v.expected)
    finally:
        for x in (a, b):
            try:
                if x is not None:
                    x.close(commit=False)
            except Exception:  # noqa: BLE001
                pass
        H.close_leaked_h5()
        shutil.rmtree(root, ignore_errors=True)


def check_relpath_chdir(cls, how, rec):
    """A record opened by a RELATIVE path keeps working on its own files when the process changes its working
    directory - it never touches the committed files of a same-named record in the new working directory."""
    root = H.new_scratch("vt-c02c-")
    old_cwd = os.getcwd()
    case = dict(kind="chdir", cls=cls.__name__, how=how)
    try:
        work, backup = os.path.join(root, "work"), os.path.join(root, "backup")
        os.mkdir(work), os.mkdir(backup)
        for d in (work, backup):
            r = cls(os.path.join(d, "rec"), "w")
            r["a"] = 1
            r.commit_patch()
            if d == backup:  # the other directory holds one more committed patch
                r.create_patch()
                r["b"] = 2
            r.close()
        before = recutil.dir_digest(backup)
        os.chdir(work)
        r = cls("rec", "r+")
        r["c"] = 3
        os.chdir(backup)
        err = None
        try:
            if how == "commit":
                r.commit_patch()
            elif how == "discard":
                r.discard_patch()
            else:
                r.close()
        except Exception as e:  # noqa: BLE001 - failing is acceptable, damaging other files is not
            err = f"{type(e).__name__}: {e}"
        try:
            r.close()
        except Exception:  # noqa: BLE001
            H.close_leaked_h5()
        os.chdir(old_cwd)
        after = recutil.dir_digest(backup)
        if after != before:
            ch = sorted(n for n in set(before) | set(after) if before.get(n) != after.get(n))
            rec.fail(f"C02:committed-file-of-other-directory-touched:{how}", case,
                     f"after chdir, {how} of the record opened as 'rec' in work/ changed {ch} in backup/ (error: {err})",
                     "committed files of the record in the other directory untouched")
        rec.case(nt_key=["chdir", cls.__name__, how], classes=["relative_path_then_chdir"], sample=case)
    finally:
        os.chdir(old_cwd)
        H.close_leaked_h5()
        shutil.rmtree(root, ignore_errors=True)


def run_shard(shard, tier, seed, rec):
    H.install_work_guard()
    if shard.get("kind") == "scen":
        for cls in (H.IH5Record, H.IH5MFRecord):
            for how in ("commit", "discard", "close"):
                check_relpath_chdir(cls, how, rec)
        for which in ("base", "patch"):
            check_stub_next_to_sidecar(which, rec)
        for cls in (H.IH5Record, H.IH5MFRecord):
            for mode2 in ("r", "r+"):
                check_second_handle(cls, mode2, rec)
        return
    i = shard["i"]
    n = {"quick": 100, "thorough": 1300}[tier]
    cls_name = "IH5Record" if i % 2 == 0 else "IH5MFRecord"
    strat = histories(25 if tier == "quick" else 60).map(lambda h: dict(history=h, cls=cls_name))
    hyp.search(strat, lambda c: run_case(c, rec), rec, seed=seed * 1000 + i, max_examples=n,
               shrink_budget_s=25 if tier == "quick" else 120)


def replay(rp, rec):
    H.install_work_guard()
    try:
        if rp["case"].get("kind") == "secondhandle":
            check_second_handle(H.IH5Record if rp["case"]["cls"] == "IH5Record" else H.IH5MFRecord, rp["case"]["mode2"], rec)
        elif rp["case"].get("kind") == "stubsidecar":
            check_stub_next_to_sidecar(rp["case"]["which"], rec)
        elif rp["case"].get("kind") == "chdir":
            check_relpath_chdir(H.IH5Record if rp["case"]["cls"] == "IH5Record" else H.IH5MFRecord, rp["case"]["how"], rec)
        else:
            run_case(rp["case"], rec)
    except Violation as v:
        rec.fail(v.signature, rp["case"], v.observed, v.expected)
