"""C13 — Every child-schema instance is a valid parent-schema instance."""
import itertools
import os
import json
from typing import Dict, List, Literal, Optional, Set, Union

from hypothesis import strategies as st
from pydantic import Extra, Field, NonNegativeInt, PositiveFloat, ValidationError
from typing_extensions import Annotated

from .. import compat  # noqa: F401
from .. import hyp
from .. import schemagen as G
from ..evidence import HarnessError, Violation

from metador_core.schema import MetadataSchema  # noqa: E402
from metador_core.schema import types as T  # noqa: E402
from metador_core.schema.core import SchemaMetaclass, check_types  # noqa: E402
from metador_core.schema.decorators import make_mandatory, override  # noqa: E402

ID = "C13"
LEVEL = "exploration"
RULE = (
    "(a) installed schemas: generated valid instances of every schema plugin are parsed (from their bytes) by every "
    "ancestor class and every ancestor plugin reported by the plugin system; (b) exhaustive over a pool of field types "
    "from the documented grammar (strict primitives, phantom/constrained types incl. a narrowed phantom subclass, "
    "Literal, Optional, Union, List, Set, nested schema and sub-schema; no date/time): all ordered (parent type, child "
    "type) pairs x class-chain shapes (direct child; unregistered middle class carrying the override; grandchild "
    "re-annotating after make_mandatory; Extra.forbid parents) x a shared boundary-value corpus. One-directional "
    "soundness oracle: whenever the class chain is accepted at creation and by check_types and no class on the path "
    "declares @override, every corpus value the leaf accepts must serialise to something each ancestor parses; "
    "@override silences the rule. Pool and shapes also cover Annotated[..., Field(...)] constraints, x: T = None in the "
    "child, make_mandatory with several names, fields added by @add_const_fields / @ld under Extra.forbid, mutually "
    "recursive siblings after a refusal; overrides without a new annotation: @add_const_fields({x: v}) over every pool type, "
    "a bare class-body assignment x = v over every pool type and over plain List/Set/Dict types, and x: T = Field(...) "
    "with constraints / alias in parent and child (all ordered pairs of 10 forms); a refused plugin must stay refused (not handed out / listed by the group) for "
    "manual registration and for entry points. Thorough adds Hypothesis-generated depth-2 types. Non-trivial = accepted pair with "
    "child type != parent type, or refused pair for which the corpus holds a witness; distinct by (parent, child, shape)"
)
ASSUMPTIONS = ["completeness not asserted (a safe override being refused is allowed)",
               "not asserted: date/time types; phantom subclasses whose pattern does not narrow the parent's; plain str/float "
               "parents with Literal / phantom children (model-wide min_anystr_length / allow_inf_nan, see DESIGN 9.6)"]
REQUIRED_CLASSES = {"all": ["accepted_narrowing", "refused_with_witness", "override_declared", "middle_unregistered",
                            "mandatory_then_optional", "extra_forbid_parent", "installed_ancestor_parse",
                            "refusal_sticky_register", "refusal_sticky_ep", "mandatory_several_names", "special_const", "special_bare",
                            "special_assigned", "special_assigned_accepted"]}
BUDGET_S = {"quick": 900, "thorough": 3 * 3600}
NSHARD = 12


class NarrowStr(T.NonEmptyStr, pattern=r"[a-z]+"):
    """A phantom type narrowing NonEmptyStr."""


_n = [0]


_NODEFAULT = object()


def mk(base, ann=None, plugin=False, ovr=False, mandatory=False, extra=None, add_field=False, default=_NODEFAULT):
    _n[0] += 1
    name = f"C13_{_n[0]}"
    ns = {"__module__": "vt_generated", "__qualname__": name}
    anns = {}
    if ann is not None:
        anns["x"] = ann
    if add_field:
        anns["y"] = Optional[T.Int]
    if anns:
        ns["__annotations__"] = anns
    if default is not _NODEFAULT:
        ns["x"] = default
    if plugin:
        ns["Plugin"] = type("Plugin", (), {"name": "vt." + name.lower(), "version": (0, 1, 0)})
    if extra:
        ns["Config"] = type("Config", (), {"extra": {"forbid": Extra.forbid, "allow": Extra.allow, "ignore": Extra.ignore}[extra]})
    cls = SchemaMetaclass(name, (base,), ns)
    setattr(G.GENMOD, name, cls)
    if mandatory:
        cls = make_mandatory(*(("x",) if mandatory is True else mandatory))(cls)
    if ovr:
        cls = override("x")(cls)
    return cls


class BaseM(MetadataSchema):
    b: T.Int


class SubM(BaseM):
    s: T.NonEmptyStr


class OtherM(MetadataSchema):
    o: T.Bool


class BadSubM(BaseM):
    """A nested schema that itself widens an inherited field without declaring it (must be refused wherever used)."""

    b: Union[T.Int, T.Str]


SING = {
    "Bool": T.Bool, "Int": T.Int, "Float": T.Float, "Str": T.Str, "NonEmptyStr": T.NonEmptyStr, "NarrowStr": NarrowStr,
    "MimeTypeStr": T.MimeTypeStr, "HashsumStr": T.HashsumStr, "QualHashsumStr": T.QualHashsumStr,
    "NonNegativeInt": NonNegativeInt, "PositiveFloat": PositiveFloat,
    "Lit_a": Literal["a"], "Lit_ab": Literal["a", "b"], "Lit_1": Literal[1], "Lit_a1": Literal["a", 1],
    "BaseM": BaseM, "SubM": SubM, "OtherM": OtherM, "BadSubM": BadSubM,
}
# pydantic constraints given the documented way (Annotated[..., Field(...)]); weaker and stronger variants
ANNOTATED = {
    "Ann[List[Int],min1]": Annotated[List[T.Int], Field(min_items=1)], "Ann[List[Int],min0]": Annotated[List[T.Int], Field(min_items=0)],
    "Ann[List[Int],max1]": Annotated[List[T.Int], Field(max_items=1)],
    "Ann[int,ge0]": Annotated[int, Field(ge=0)], "Ann[int,ge-10]": Annotated[int, Field(ge=-10)], "Ann[int,le5]": Annotated[int, Field(le=5)],
}
HASHABLE = ["Int", "Str", "NonEmptyStr", "NarrowStr", "Lit_a", "Lit_ab", "Bool"]
UNIONS = [("Int", "Str"), ("Int", "Float"), ("NonEmptyStr", "Int"), ("Lit_a", "Int"), ("BaseM", "Int"), ("SubM", "Int"),
          ("Bool", "NarrowStr"), ("Int", "Str", "Bool")]


def pool():
    out = {k: v for k, v in SING.items()}
    for k, v in SING.items():
        out[f"Optional[{k}]"] = Optional[v]
        out[f"List[{k}]"] = List[v]
    for k in HASHABLE:
        out[f"Set[{k}]"] = Set[SING[k]]
    out.update(ANNOTATED)
    for u in UNIONS:
        out["Union[" + ",".join(u) + "]"] = Union[tuple(SING[m] for m in u)]
        out["Optional[Union[" + ",".join(u) + "]]"] = Optional[Union[tuple(SING[m] for m in u)]]
    return out


CORPUS = [None, True, False, 0, 1, -1, 7, 2 ** 40, 0.0, 1.0, -1.5, 0.5, "", " ", "a", "b", "abc", "Abc", " a ", "a b", "text/plain",
          "abc123", "sha256:abc123", "zz", 1.5, [], [1], ["a"], ["a", "a"], [True], [1.0], [None], ["abc", 1], [[]], {}, {"b": 1},
          {"b": 1, "s": "x"}, {"o": True}, [{"b": 1}], [{"b": 1, "s": "x"}], [{}], {"b": "1"}, "1", [0, 1], ["A"], "text/plain;x",
          {"b": "text"}, [{"b": "text"}]]

SHAPES = ["direct", "direct_override", "middle", "middle_override", "mandatory_then", "mandatory_multi_then", "forbid_parent",
          "default_none"]


def build_chain(ptype, ctype, shape):
    """-> (ancestors [(class, silenced?)], leaf) or raises the creation/check error."""
    if shape == "direct":
        p = mk(MetadataSchema, ptype, plugin=True)
        c = mk(p, ctype, plugin=True)
        return [(p, False)], c
    if shape == "direct_override":
        p = mk(MetadataSchema, ptype, plugin=True)
        c = mk(p, ctype, plugin=True, ovr=True)
        return [(p, True)], c
    if shape == "middle":  # registered base <- unregistered middle carrying the override <- registered leaf
        p = mk(MetadataSchema, ptype, plugin=True)
        m = mk(p, ctype, plugin=False)
        leaf = mk(m, None, plugin=True, add_field=True)
        return [(p, False), (m, False)], leaf
    if shape == "middle_override":
        p = mk(MetadataSchema, ptype, plugin=True)
        m = mk(p, ctype, plugin=False, ovr=True)
        leaf = mk(m, None, plugin=True, add_field=True)
        return [(p, True), (m, False)], leaf
    if shape == "mandatory_then":  # parent Optional[P]; child makes it mandatory by decorator; grandchild re-annotates
        p = mk(MetadataSchema, Optional[ptype], plugin=True)
        m = mk(p, None, plugin=True, mandatory=True)
        leaf = mk(m, ctype, plugin=True)
        return [(p, False), (m, False)], leaf
    if shape == "mandatory_multi_then":  # as above, but the decorator is given several names and x is not the last one
        p = mk(MetadataSchema, Optional[ptype], plugin=True, add_field=True)
        m = mk(p, None, plugin=True, mandatory=("x", "y"))
        leaf = mk(m, ctype, plugin=True)
        return [(p, False), (m, False)], leaf
    if shape == "default_none":  # the child repeats the parent's hint but gives the field the default None
        p = mk(MetadataSchema, ptype, plugin=True)
        c = mk(p, ptype, plugin=True, default=None)
        return [(p, False)], c
    if shape == "forbid_parent":
        p = mk(MetadataSchema, ptype, plugin=True, extra="forbid")
        c = mk(p, ctype, plugin=True, extra="forbid")
        return [(p, False)], c
    raise HarnessError(shape)


def check_pair(pname, ptype, cname, ctype, shape, rec=None):
    case = dict(kind="pair", parent=pname, child=cname, shape=shape)
    try:
        ancestors, leaf = build_chain(ptype, ctype, shape)
        # what loading the plugins does: the leaf plugin is checked, and (as plugin dependencies) its registered
        # ancestors; unregistered intermediate classes are only ever reached through the leaf's own check
        for a, _ in ancestors:
            if a.__dict__.get("Plugin"):
                check_types(a)
        check_types(leaf)
    except (TypeError, ValueError) as e:
        refused = True
        why = f"{type(e).__name__}"
    else:
        refused = False
    classes = [f"shape_{shape}"]
    if shape in ("direct_override", "middle_override"):
        classes.append("override_declared")
    if shape.startswith("middle"):
        classes.append("middle_unregistered")
    if shape in ("mandatory_then", "mandatory_multi_then"):
        classes.append("mandatory_then_optional")
    if shape == "mandatory_multi_then":
        classes.append("mandatory_several_names")
    if shape == "forbid_parent":
        classes.append("extra_forbid_parent")
    if shape == "default_none":
        classes.append("child_default_none")
    if refused:
        # (completeness is not asserted) - only record whether the corpus could have told the difference
        witness = _find_witness_by_types(ptype, ctype, shape)
        if rec is not None:
            rec.case(nt_key=[pname, cname, shape, "refused"] if witness else None,
                     classes=classes + ["refused"] + (["refused_with_witness"] if witness else []),
                     sample=dict(case, outcome="refused", witness=witness) if witness else None)
        return
    accepted_vals = 0
    for v in CORPUS:
        try:
            o = leaf(x=v, y=1) if shape == "mandatory_multi_then" else leaf(x=v)
        except (ValidationError, TypeError, ValueError):
            continue
        accepted_vals += 1
        try:
            raw = bytes(o)
        except Exception as e:  # noqa: BLE001
            raise Violation("C13:serialise-raises", f"{case}: {type(e).__name__}: {e}", "serialisable")
        for a, silenced in ancestors:
            if silenced:
                continue
            try:
                a.parse_raw(raw)
            except Exception as e:  # noqa: BLE001
                kind = "undeclared-override-accepted" if pname != cname or shape.startswith("mandatory") or shape == "default_none" else "same-type"
                raise Violation(f"C13:child-accepts-parent-rejects:{shape}:{kind}",
                                f"parent field {pname}, child field {cname}, shape {shape}: leaf accepts x={v!r} (serialised {raw[:80]!r}) "
                                f"but ancestor {a.__name__} rejects it: {str(e)[:160]}", "refused by check_types, or parent accepts")
    if rec is not None:
        nt = pname != cname and shape not in ("direct_override", "middle_override")
        rec.case(nt_key=[pname, cname, shape, "accepted"] if nt else None,
                 classes=classes + ["accepted"] + (["accepted_narrowing"] if nt else []),
                 sample=dict(case, outcome="accepted", corpus_values_accepted_by_leaf=accepted_vals) if nt and accepted_vals else None)


def check_sticky(pname, ptype, cname, ctype, how, rec):
    """A plugin the group refused stays refused: later lookups neither hand it out nor (manual registration) list it.

    how = "register": manual registration into the real schema plugin group;
    how = "ep": a schema plugin group object built over an entry point (what loading an installed package does)."""
    from importlib.metadata import EntryPoint

    from metador_core.plugin import types as ptypes
    from metador_core.plugin.util import register_in_group
    from metador_core.plugins import schemas

    case = dict(kind="sticky", parent=pname, child=cname, how=how)
    try:
        p = mk(MetadataSchema, ptype, plugin=True)
        c = mk(p, ctype, plugin=True)
        register_in_group(schemas, p, violently=True)
    except (TypeError, ValueError):
        return  # the pair cannot even be declared / the parent alone is refused: nothing to look up
    name, ver = c.Plugin.name, tuple(c.Plugin.version)
    if how == "register":
        g = schemas
        try:
            register_in_group(g, c, violently=True)
            refused = False
        except (TypeError, ValueError):
            refused = True
    else:
        epn = ptypes.to_ep_name(name, ver)
        g = type(schemas)({epn: EntryPoint(epn, f"vt_generated:{c.__name__}", ptypes.to_ep_group_name("schema"))})
        try:
            g.get(name, ver)
            refused = False
        except (TypeError, ValueError):
            refused = True
    if not refused:
        rec.case(nt_key=None, classes=["sticky_accepted_" + how])
        return
    for attempt in (2, 3):
        try:
            got = g.get(name, ver)
        except Exception:  # noqa: BLE001
            got = None
        if got is not None:
            raise Violation(f"C13:refused-plugin-handed-out:{how}",
                            f"{case}: the group refused {name} {ver} with a TypeError, but lookup no. {attempt} returns the class "
                            f"{got.__name__} without complaint", "refused again (or absent)")
    if how == "register" and any(r.name == name for r in g.keys()):
        raise Violation("C13:refused-plugin-listed", f"{case}: {name} is listed by the group after its registration was refused", "not listed")
    rec.case(nt_key=[pname, cname, how, "sticky"], classes=["refusal_sticky", "refusal_sticky_" + how],
             sample=dict(case, outcome="refused at first load and at every later lookup"))


_REC_SRC = """
from __future__ import annotations
from typing import Optional
from metador_core.schema import MetadataSchema
from metador_core.schema.types import Int, Str


class Node(MetadataSchema):
    class Plugin:
        name = "vt.rec-node-TAG"
        version = (0, 1, 0)

    v: Int


class Holder(MetadataSchema):
    class Plugin:
        name = "vt.rec-holder-TAG"
        version = (0, 1, 0)

    a: Node


class BadNode(Node):
    class Plugin:
        name = "vt.rec-badnode-TAG"
        version = (0, 1, 0)

    v: Str  # undeclared override that is no subtype
    back: Optional[BadHolder]


class BadHolder(Holder):
    class Plugin:
        name = "vt.rec-badholder-TAG"
        version = (0, 1, 0)

    a: BadNode  # narrows Node -> BadNode, but BadNode is no valid Node
"""
_rec_n = [0]


def check_recursive_siblings(rec):
    """Two mutually referencing child schemas, one with an undeclared incompatible override: BOTH are refused, in either
    registration order and also after the other one was refused before (the caller catches that error)."""
    import sys
    import types

    from metador_core.plugin.util import register_in_group
    from metador_core.plugins import schemas

    for order in (("BadHolder",), ("BadNode", "BadHolder"), ("BadNode", "BadNode", "BadHolder")):
        _rec_n[0] += 1
        tag = f"{os.getpid()}x{_rec_n[0]}"
        mod = types.ModuleType(f"vt_c13_rec_{tag}")
        sys.modules[mod.__name__] = mod
        exec(compile(_REC_SRC.replace("TAG", tag), mod.__name__, "exec"), mod.__dict__)  # noqa: S102 - fixed source above
        case = dict(kind="recursive", order=list(order))
        mod.BadNode.update_forward_refs()
        register_in_group(schemas, mod.Node, violently=True)
        register_in_group(schemas, mod.Holder, violently=True)
        for i, name in enumerate(order):
            try:
                register_in_group(schemas, getattr(mod, name), violently=True)
            except (TypeError, ValueError):
                continue
            o = mod.BadHolder.parse_obj({"a": {"v": "text"}}) if name == "BadHolder" else None
            rec.fail("C13:accepted-after-sibling-refused" if i else "C13:recursive-bad-schema-accepted", case,
                     f"{name} accepted (registration order {list(order)})" + (f"; it accepts and dumps {bytes(o)!r}, which Holder rejects" if o else ""),
                     "refused: its field type BadNode widens Node.v without declaring it")
            break
        rec.case(nt_key=["recursive", list(order)], classes=["recursive_siblings"], sample=case)


def _find_witness_by_types(ptype, ctype, shape):
    """For a refused pair: is there a corpus value the child type accepts and the parent type rejects?"""
    try:
        p = mk(MetadataSchema, Optional[ptype] if shape.startswith("mandatory") else ptype)
        if shape.startswith("mandatory"):
            p = mk(p, None, mandatory=True)
        c = mk(MetadataSchema, ctype)
    except Exception:  # noqa: BLE001
        return None
    for v in CORPUS:
        try:
            raw = bytes(c(x=v))
        except Exception:  # noqa: BLE001
            continue
        try:
            p.parse_raw(raw)
        except Exception:  # noqa: BLE001
            return repr(v)
    return None


def check_extra_rule(rec):
    """Child of an Extra.forbid parent that allows extras or adds fields must be refused at class creation."""
    for child_extra, add in itertools.product([None, "allow", "ignore", "forbid"], [False, True]):
        p = mk(MetadataSchema, T.Int, plugin=True, extra="forbid")
        case = dict(kind="extra", child_extra=child_extra, adds_field=add)
        must_refuse = child_extra in ("allow", "ignore") or add
        try:
            c = mk(p, None, plugin=True, extra=child_extra, add_field=add)
            check_types(c)
            refused = False
        except (TypeError, ValueError):
            refused = True
        if must_refuse and not refused:
            # witness: an instance with an extra / the new field is rejected by the parent
            try:
                o = c(x=1, y=2) if add else c(x=1, zzz=1)
                p.parse_raw(bytes(o))
                witness = False
            except Exception:  # noqa: BLE001
                witness = True
            if witness:
                rec.fail("C13:extra-policy-not-enforced", case, "child accepted; its instance is rejected by the Extra.forbid parent", "refused at class creation")
        rec.case(nt_key=["extra", child_extra, add], classes=["extra_rule", "extra_forbid_parent"], sample=case)
    # ... also when the new field comes from a decorator (constant fields, JSON-LD type annotation)
    from metador_core.schema.decorators import add_const_fields
    from metador_core.schema.ld import ld

    for how in ("add_const_fields", "ld"):
        p = mk(MetadataSchema, T.Int, plugin=True, extra="forbid")
        case = dict(kind="extra", how=how)
        try:
            c = mk(p, None, plugin=True)
            c = add_const_fields({"kind": "special"})(c) if how == "add_const_fields" else ld(type="Special")(c)
            check_types(c)
            refused = False
        except (TypeError, ValueError):
            refused = True
        if not refused:
            try:
                raw = bytes(c(x=1))
                p.parse_raw(raw)
                witness = None
            except Exception as e:  # noqa: BLE001
                witness = f"{raw!r}: {str(e)[:120]}"
            if witness:
                rec.fail(f"C13:extra-policy-not-enforced:{how}", case, f"child with fields added by @{how} accepted; it dumps {witness}",
                         "refused (the Extra.forbid parent rejects the new field)")
        rec.case(nt_key=["extra", how], classes=["extra_rule", "extra_forbid_parent"], sample=case)


# ---- overrides that are not spelled as a new annotation ----------------------------------------------------------
CONST_VALUES = ["a", "b", 1, True, ["a"], None]
BARE_VALUES = ["misc", "a", 1, 0.5, True, ["a"]]
# plain (non-strict) types, as e.g. `allowed_units: List[str]` of the installed schemas: pydantic infers a new field
# from a bare assignment when the inner type matches
PLAIN = {"plain:List[str]": List[str], "plain:Set[str]": Set[str], "plain:Optional[List[str]]": Optional[List[str]],
         "plain:Dict[str,int]": Dict[str, int], "plain:List[int]": List[int], "plain:str": str, "plain:int": int,
         "plain:Optional[int]": Optional[int]}
ASSIGNED = {  # field given the usual pydantic way: x: T = Field(...)
    "int": (int, None), "int,ge0": (int, dict(ge=0)), "int,ge-10": (int, dict(ge=-10)), "int,le5": (int, dict(le=5)),
    "str": (T.Str, None), "str,re[a-z]": (T.Str, dict(regex="^[a-z]+$")), "str,re[a-z0-9]": (T.Str, dict(regex="^[a-z0-9]+$")),
    "int,alias": (int, dict(alias="fileSize")), "List[int],min1": (List[int], dict(min_items=1)), "List[int]": (List[int], None),
    # pinned values, and a plain default for comparison
    "int,const1": (int, dict(__default__=1, const=True)), "int,const2": (int, dict(__default__=2, const=True)), "int,default1": (int, dict(__default__=1)),
    # a constraint on a str subclass: pydantic swaps the type for a generic constrained str
    "Mime": (T.MimeTypeStr, None), "Mime,max50": (T.MimeTypeStr, dict(max_length=50)),
}


def _assigned_default(kw):
    if not kw:
        return _NODEFAULT
    kw = dict(kw)
    return Field(kw.pop("__default__", ...), **kw)


def _leaf_vs_parent(p, c, case, sig):
    """Every corpus value (and no value at all) the child accepts must dump to something the parent accepts."""
    n = 0
    for v in [_NODEFAULT] + CORPUS:
        try:
            o = c() if v is _NODEFAULT else c(x=v)
        except (ValidationError, TypeError, ValueError):
            continue
        n += 1
        raw = bytes(o)
        try:
            p.parse_raw(raw)
        except Exception as e:  # noqa: BLE001
            shown = "no value" if v is _NODEFAULT else repr(v)
            raise Violation(sig, f"{case}: child accepts x={shown} (serialised {raw[:80]!r}) but the parent rejects it: {str(e)[:160]}",
                            "refused when the plugin is checked, or parent accepts")
    return n


def check_special(kind, pname, ptype, arg, rec):
    """kind const: @add_const_fields({'x': arg}) (no override=True); bare: class body `x = arg` without annotation;
    assigned: parent and child give `x: T = Field(...)` (arg = name of the child's entry in ASSIGNED)."""
    case = dict(kind="special", how=kind, parent=pname, arg=arg)
    try:
        if kind == "assigned":
            pt, pkw = ASSIGNED[pname]
            ct, ckw = ASSIGNED[arg]
            p = mk(MetadataSchema, pt, plugin=True, default=_assigned_default(pkw))
            c = mk(p, ct, plugin=True, default=_assigned_default(ckw))
        elif kind == "bareconst":  # the parent pins the value, the child body just assigns one
            pt, pkw = ASSIGNED[pname]
            p = mk(MetadataSchema, pt, plugin=True, default=_assigned_default(pkw))
            c = mk(p, None, plugin=True, default=arg)
        else:
            p = mk(MetadataSchema, ptype, plugin=True)
            if kind == "const":
                from metador_core.schema.decorators import add_const_fields

                c = add_const_fields({"x": arg})(mk(p, None, plugin=True))
            else:
                c = mk(p, None, plugin=True, default=arg)
        check_types(p)
        check_types(c)
    except (TypeError, ValueError):
        rec.case(nt_key=None, classes=[f"special_{kind}", "refused"], sample=None)
        return
    n = _leaf_vs_parent(p, c, case, f"C13:child-accepts-parent-rejects:{kind}")
    rec.case(nt_key=["special", kind, pname, repr(arg)], classes=[f"special_{kind}", f"special_{kind}_accepted"],
             sample=dict(case, outcome="accepted", values_accepted_by_child=n))


def run_special(rec):
    P = pool()
    jobs = [("const", pn, P[pn], v) for pn in sorted(P) for v in CONST_VALUES]
    jobs += [("bare", pn, P[pn], v) for pn in sorted(P) for v in BARE_VALUES]
    jobs += [("bare", pn, PLAIN[pn], v) for pn in sorted(PLAIN) for v in BARE_VALUES]
    jobs += [("assigned", a, None, b) for a in ASSIGNED for b in ASSIGNED if a != b]
    jobs += [("bareconst", "int,const1", None, v) for v in (1, 2)]
    seen = set()
    for kind, pn, pt, arg in jobs:
        try:
            check_special(kind, pn, pt, arg, rec)
        except Violation as v:
            if v.signature not in seen:
                seen.add(v.signature)
                rec.fail(v.signature, dict(kind="special", how=kind, parent=pn, arg=arg), v.observed, v.expected)


def check_config_mixin(rec):
    """Config settings a schema must not change are refused when written in the Config body; the same setting coming
    from a class the inner Config derives from must not slip through (pydantic merges the whole MRO of Config)."""
    for setting, val, witness in (("min_anystr_length", 0, dict(label="", ratio=1.0)), ("allow_inf_nan", True, dict(label="a", ratio=float("inf"))),
                                  ("anystr_strip_whitespace", False, dict(label=" a ", ratio=1.0))):
        for how in ("direct", "mixin"):
            case = dict(kind="config", setting=setting, how=how)
            parent = SchemaMetaclass("CfgParent", (MetadataSchema,), {"__module__": "vt_generated", "__annotations__": {"label": str, "ratio": float},
                                                                     "Plugin": type("Plugin", (), {"name": f"vt.cfgparent.{setting}.{how}".replace("_", ""), "version": (0, 1, 0)})})
            mixin = type("ProjectDefaults", (), {setting: val})
            conf = type("Config", (), {setting: val}) if how == "direct" else type("Config", (mixin,), {"title": "Child"})
            try:
                child = SchemaMetaclass("CfgChild", (parent,), {"__module__": "vt_generated", "Config": conf,
                                                                 "Plugin": type("Plugin", (), {"name": f"vt.cfgchild.{setting}.{how}".replace("_", ""), "version": (0, 1, 0)})})
                check_types(child)
                refused = False
            except (TypeError, ValueError):
                refused = True
            if not refused:
                try:
                    raw = bytes(child(**witness))
                    parent.parse_raw(raw)
                    bad = None
                except Exception as e:  # noqa: BLE001
                    bad = f"{type(e).__name__}: {str(e)[:150]}"
                if bad:
                    rec.fail(f"C13:config-setting-not-refused:{how}", case, f"child with Config {setting}={val} ({how}) accepted; {witness} is valid for it, "
                             f"but the parent rejects it: {bad}", "refused at class creation (as when written directly)")
            rec.case(nt_key=["config", setting, how], classes=["config_rule", f"config_{how}"], sample=dict(case, refused=refused))


def check_parser_subclass(rec):
    """A field narrowed to a subclass of the parent's nested schema type: the subclass must not accept what the
    parent's type refuses (installed pair core.imagefile / Pixels)."""
    from metador_core.plugins import schemas
    from metador_core.schema.common import Pixels

    Image = schemas.get("core.imagefile", (0, 1, 0))
    noted = SchemaMetaclass("NotedPixels", (Pixels,), {"__module__": "vt_generated", "__annotations__": {"note": Optional[T.Str]}})
    setattr(G.GENMOD, "NotedPixels", noted)
    case = dict(kind="parser-subclass", parent="core.imagefile", field="width")
    try:
        child = SchemaMetaclass("NotedImageMeta", (Image,), {"__module__": "vt_generated", "__annotations__": {"width": noted},
                                                             "Plugin": type("Plugin", (), {"name": "vt.notedimage", "version": (0, 1, 0)})})
        check_types(child)
    except (TypeError, ValueError):
        rec.case(nt_key=["parser-subclass", "refused"], classes=["parser_subclass"], sample=dict(case, outcome="refused"))
        return
    base = dict(filename="a.png", encodingFormat="image/png", contentSize=1, sha256="0" * 64, height={"value": 1})
    for width in ({"value": 5, "unitText": "furlong"}, {"value": 5, "unitText": "px"}, "5 px", 5):
        try:
            o = child(**base, width=width)
        except Exception:  # noqa: BLE001
            continue
        try:
            Image.parse_raw(bytes(o))
        except Exception as e:  # noqa: BLE001
            rec.fail("C13:nested-subclass-loses-parser:core.imagefile.width", dict(case, width=width),
                     f"child with width: NotedPixels(Pixels) passes the plugin check and accepts width={width!r}; core.imagefile rejects the dumped object: {str(e)[:160]}",
                     "refused when the plugin is checked, or the subclass refuses what Pixels refuses")
    rec.case(nt_key=["parser-subclass", "accepted"], classes=["parser_subclass"], sample=dict(case, outcome="accepted"))


def check_installed(name, version, recipe, rec=None):
    from metador_core.plugins import schemas

    cls = schemas.get(name, tuple(version))
    try:
        o = cls.parse_obj(G.realize(recipe))
    except (ValidationError, ValueError, TypeError):
        if rec is not None:
            rec.cls("rejected_at_construction")
        return
    raw = bytes(o)
    ancestors = [c for c in cls.__mro__[1:] if isinstance(c, type) and issubclass(c, MetadataSchema)]
    for ref in schemas.parent_path(name, tuple(version))[:-1]:
        ancestors.append(schemas.get(ref.name, tuple(ref.version)))
    for a in ancestors:
        if getattr(cls, "__overrides__", None) and False:
            continue
        try:
            a.parse_raw(raw)
        except Exception as e:  # noqa: BLE001
            raise Violation(f"C13:ancestor-rejects-child-instance:{name}->{a.__name__}", f"{raw[:200]!r}: {str(e)[:200]}", "parses")
    if rec is not None:
        deep = len(schemas.parent_path(name, tuple(version))) >= 2
        rec.case(nt_key=[name, sorted(recipe)] if deep else None, classes=["installed_ancestor_parse"] + (["has_plugin_ancestor"] if deep else []),
                 sample=dict(kind="installed", schema=name, ancestors=[a.__name__ for a in ancestors][:6]) if deep else None, n=max(1, len(ancestors)))


def plan(tier, seed):
    sh = [dict(name=f"pairs-{i}", kind="pairs", i=i) for i in range(NSHARD)]
    sh += [dict(name="special", kind="special"),
           dict(name="extra-rule", kind="extra"), dict(name="sticky-register", kind="sticky", how="register"),
           dict(name="sticky-ep", kind="sticky", how="ep")]
    inst = G.installed_schemas()
    sh += [dict(name=f"installed-{n}", kind="installed", schema=n, version=list(v)) for n, v, _ in inst]
    if tier == "thorough":
        sh += [dict(name=f"deep-{i}", kind="deep", i=i) for i in range(4)]
    return sh


def run_shard(shard, tier, seed, rec):
    k = shard["kind"]
    if k == "pairs":
        P = pool()
        names = sorted(P)
        seen = set()
        for ia in range(shard["i"], len(names), NSHARD):
            for cn in names:
                pn = names[ia]
                for shape in SHAPES:
                    if shape.startswith("mandatory") and pn.startswith("Optional["):
                        continue
                    if shape == "default_none" and (cn != pn or pn.startswith("Optional[")):
                        continue  # (the shape uses the parent's type only)
                    try:
                        check_pair(pn, P[pn], cn, P[cn], shape, rec)
                    except Violation as v:
                        if v.signature not in seen or len(rec.failures) < 3:
                            seen.add(v.signature)
                            rec.fail(v.signature, dict(kind="pair", parent=pn, child=cn, shape=shape), v.observed, v.expected)
        rec.exhaustive["type_pool_pairs_x_shapes"] = True
        rec.notes.append(f"pool of {len(names)} field types, {len(CORPUS)} corpus values, {len(SHAPES)} chain shapes")
    elif k == "special":
        run_special(rec)
    elif k == "extra":
        check_extra_rule(rec)
        check_config_mixin(rec)
        check_parser_subclass(rec)
        check_recursive_siblings(rec)
    elif k == "sticky":
        P = pool()
        names = sorted(P)
        step = 23 if tier == "quick" else 5  # a fixed sample of the pool's pairs (each leaves two plugins in the group)
        pairs = [(a, b) for a in names for b in names if a != b]
        seen = set()
        for pn, cn in pairs[seed % step::step]:
            try:
                check_sticky(pn, P[pn], cn, P[cn], shard["how"], rec)
            except Violation as v:
                if v.signature not in seen:
                    seen.add(v.signature)
                    rec.fail(v.signature, dict(kind="sticky", parent=pn, child=cn, how=shard["how"]), v.observed, v.expected)
    elif k == "installed":
        from metador_core.plugins import schemas

        cls = schemas.get(shard["schema"], tuple(shard["version"]))
        n = {"quick": 40, "thorough": 1500}[tier]
        hyp.search(G.model_recipe(cls, 0, dates=True).map(lambda r: dict(kind="installed", schema=shard["schema"], version=shard["version"], recipe=r)),
                   lambda c: check_installed(c["schema"], c["version"], c["recipe"], rec), rec,
                   seed=seed * 100 + hash(shard["schema"]) % 83, max_examples=n, suppress_filter=True)
    elif k == "deep":
        P = pool()
        names = sorted(P)
        wrap = st.sampled_from(["Optional", "List", "id"])

        def mkdeep(n, w):
            t = P[n]
            if w == "Optional" and not n.startswith("Optional"):
                return f"Optional[{n}]", Optional[t]
            if w == "List":
                return f"List[{n}]", List[t]
            return n, t

        strat = st.tuples(st.sampled_from(names), wrap, st.sampled_from(names), wrap, st.sampled_from(SHAPES))

        def t_deep(c):
            pn, pt = mkdeep(c[0], c[1])
            cn, ct = mkdeep(c[2], c[3])
            if (c[4].startswith("mandatory") or c[4] == "default_none") and pn.startswith("Optional["):
                return
            try:
                check_pair(pn, pt, cn, ct, c[4], rec)
            except TypeError as e:
                if "forbidden pattern" in str(e):
                    return
                raise

        hyp.search(strat, t_deep, rec, seed=seed * 100 + shard["i"], max_examples=6000)
    else:
        raise HarnessError(shard)


def replay(rp, rec):
    case = rp["case"]
    try:
        if case.get("kind") == "pair":
            P = pool()
            check_pair(case["parent"], P[case["parent"]], case["child"], P[case["child"]], case["shape"], rec)
        elif case.get("kind") == "installed":
            check_installed(case["schema"], case["version"], case["recipe"], rec)
        elif case.get("kind") == "special":
            P = pool()
            check_special(case["how"], case["parent"], P.get(case["parent"], PLAIN.get(case["parent"])), case["arg"], rec)
        elif case.get("kind") == "config":
            check_config_mixin(rec)
        elif case.get("kind") == "parser-subclass":
            check_parser_subclass(rec)
        elif case.get("kind") == "extra":
            check_extra_rule(rec)
        elif case.get("kind") == "recursive":
            check_recursive_siblings(rec)
        elif case.get("kind") == "sticky":
            P = pool()
            check_sticky(case["parent"], P[case["parent"]], case["child"], P[case["child"]], case["how"], rec)
    except Violation as v:
        rec.fail(v.signature, case, v.observed, v.expected)
