"""C11 — A crash while patching never damages what was committed."""
import json
import os
import shutil
import signal
import subprocess
import sys
import time
from pathlib import Path

from hypothesis import strategies as st

from .. import compat  # noqa: F401
from .. import faults
from .. import history as H
from .. import hyp, recutil
from ..evidence import HarnessError, Violation
from ..treemodel import Tree, diff_dumps, dump_real

ID = "C11"
LEVEL = "fault_enumeration"
RULE = (
    "scenario = generated C01-style history with >=1 commit (the committed prefix) + a generated tail of data ops "
    "that is applied in a new patch and committed (commit_patch or close; IH5Record and IH5MFRecord). Fault family 1: "
    "the patching program runs in a forked child that dies by os._exit at the n-th event (h5py.File init/close/flush, "
    "every IH5 data call, create/commit/discard_patch enter+exit, user-block/manifest save enter+exit, every "
    "open/write/flush/close of the header and manifest files, hashsum, unlink): quick = 40 points per scenario "
    "always including every event inside commit_patch, thorough = every point. Family 2: every prefix length L of "
    "the final user-block write (new[:L]+old[L:1024]+post-commit payload), exhaustive per commit. Family 3: real "
    "SIGKILL of a writer process looping fill/commit (half of the kills at a random delay, half aimed 0-3 ms after the "
    "writer announced commit number 0..5; the writer must be alive when the signal is sent), judged only via its "
    "fsync'd progress log. Oracle on the "
    "directory left behind: committed containers and manifests byte-identical; committed subset opens and shows the "
    "last committed state; the full set either fails to open, or opens recognisably uncommitted, or opens with a "
    "verifying hash and shows exactly the old or the completely written new state; reopening r+ and closing never "
    "alters earlier containers. Non-trivial = crash point inside commit_patch / torn L strictly inside the JSON / "
    "kill between begin and done; distinct by (scenario shape, point or L)"
)
ASSUMPTIONS = ["os._exit at event boundaries models process death (userspace buffers die, like SIGKILL); crash points "
               "inside a single h5py/libhdf5 call are reached only by the SIGKILL family",
               "torn writes inside the HDF5 payload of the uncommitted file are not asserted (it has no hash yet)",
               "power-loss reordering / durability is not claimed (no fsync is promised)"]
REQUIRED_CLASSES = {"all": ["long_chain_12_containers", "crash_in_commit", "crash_before_commit", "torn_inside_json", "outcome_fails_to_open",
                            "outcome_uncommitted", "outcome_new_state", "outcome_old_state", "sigkill"]}
BUDGET_S = {"quick": 900, "thorough": 4 * 3600}
NSHARD = 16


def _cls(name):
    return H.IH5Record if name == "IH5Record" else H.IH5MFRecord


def prepare(case):
    """Build the committed prefix; returns dict(dir=template dir, files, committed digests, tree, bound tail)."""
    cls = _cls(case.get("cls", "IH5Record"))
    sess = H.Session(lambda: H.IH5Target(cls, "rec"), placement="generated", check_every=False, sig_prefix="C11")
    try:
        sess.feed(case["history"])
        t = sess.target
        t.rec.close()
        t.rec = None
        files = sorted(os.listdir(t.dir))
        tpl = H.new_scratch("vt-c11t-")
        for f in files:
            shutil.copy(os.path.join(t.dir, f), os.path.join(tpl, f))
        committed_tree = sess.tree.clone()
        # dry run of the tail in-process on the still existing dir -> bound ops + tree after
        t.rec = cls(t.path, "r+")
        sess.placement = "none"
        nbefore = len(sess.out.bound)
        sess.feed(case["tail"])
        bound = sess.out.bound[nbefore:]
        tree_after = sess.tree.clone()
        t.rec.close()
        t.rec = None
        return dict(tpl=tpl, digests=recutil.dir_digest(tpl), committed_tree=committed_tree, tree_after=tree_after,
                    bound=bound, cls=cls)
    finally:
        sess.destroy()
        H.close_leaked_h5()


def program(d, cls, bound, commit_via, exts):
    """The patching program (runs in the forked child)."""
    def run():
        rec = cls(os.path.join(d, "rec"), "r+")
        for b in bound:
            try:
                H.apply_real(rec, b)
            except Exception:  # noqa: BLE001 - ops the reference refuses are refused here too (C01's business)
                pass
        if commit_via == "commit_patch":
            kw = {"manifest_exts": exts} if exts is not None and cls is H.IH5MFRecord else {}
            rec.commit_patch(**kw)
            rec.close()
        else:
            rec.close()
    return run


def judge(d, prep, where, allow_r_plus=True):
    """Apply the property's oracle to the directory left behind. Returns the outcome class."""
    cls = prep["cls"]
    now = recutil.dir_digest(d)
    for f, dig in prep["digests"].items():
        if now.get(f) != dig:
            what = "manifest" if f.endswith(".json") else "container"
            raise Violation(f"C11:committed-{what}-damaged", f"{f} {where}: {dig} -> {now.get(f)}", "byte-identical")
    committed_files = [os.path.join(d, f) for f in prep["digests"] if f.endswith(".ih5")]
    # (2) committed subset alone (the newest manifest of the subset is committed too)
    ids = H.open_h5_ids()
    try:
        r = cls([Path(p) for p in committed_files], "r")
    except Exception as e:  # noqa: BLE001
        H.close_leaked_h5(ids)
        raise Violation("C11:committed-subset-does-not-open", f"{where}: {type(e).__name__}: {e}", "opens")
    try:
        got = dump_real(r, crosscheck=False)
    finally:
        r.close()
    if got != prep["committed_tree"].dump():
        raise Violation("C11:committed-subset-wrong-state", diff_dumps(got, prep["committed_tree"].dump()), "last committed state")
    # (3) the complete file set, found by name
    has_new_file = any(f not in prep["digests"] and f.endswith(".ih5") for f in now)
    ids = H.open_h5_ids()
    outcome = None
    try:
        r = cls(os.path.join(d, "rec"), "r")
    except Exception:  # noqa: BLE001
        H.close_leaked_h5(ids)
        outcome = "outcome_fails_to_open"
    else:
        try:
            last = r.ih5_meta[-1]
            if last.hdf5_hashsum is None:
                outcome = "outcome_uncommitted"
            else:
                got = dump_real(r, crosscheck=False)
                if has_new_file and got == prep["tree_after"].dump():
                    outcome = "outcome_new_state"
                elif got == prep["committed_tree"].dump():
                    outcome = "outcome_old_state" if not has_new_file else "outcome_new_state_equals_old"
                    if has_new_file and prep["tree_after"].dump() != prep["committed_tree"].dump():
                        raise Violation("C11:opens-clean-with-unwritten-state", f"{where}: new container present, marked "
                                        "committed, but the view is the OLD state", "old+uncommitted, or complete new state")
                else:
                    raise Violation("C11:opens-clean-with-unwritten-state",
                                    f"{where}: {diff_dumps(got, prep['tree_after'].dump())}", "old or complete new state")
        finally:
            try:
                r.close()
            except Exception as e:  # noqa: BLE001
                H.close_leaked_h5(ids)
                raise Violation("C11:readonly-look-at-leftover-raises-on-close", f"{where}: {type(e).__name__}: {e}",
                                "a record opened 'r' closes without trying to change anything")
        after_look = recutil.dir_digest(d)
        if after_look != now:
            ch = sorted(f for f in set(now) | set(after_look) if now.get(f) != after_look.get(f))
            raise Violation("C11:readonly-look-changed-files", f"{where}: {ch}", "opening 'r' and closing changes nothing")
    # r+ reopen and close must not alter earlier containers
    if allow_r_plus:
        ids = H.open_h5_ids()
        try:
            r = cls(os.path.join(d, "rec"), "r+")
            r.close()
        except Exception:  # noqa: BLE001
            H.close_leaked_h5(ids)
        now2 = recutil.dir_digest(d)
        for f, dig in prep["digests"].items():
            if now2.get(f) != dig:
                raise Violation("C11:committed-container-damaged:by-r+-recovery", f"{f} {where}", "byte-identical")
    return outcome


def fresh_copy(tpl):
    d = H.new_scratch("vt-c11-")
    for f in os.listdir(tpl):
        shutil.copy(os.path.join(tpl, f), os.path.join(d, f))
    return d


def run_scenario(case, rec, tier):
    try:
        prep = prepare(case)
    except (Violation, HarnessError):
        raise
    except Exception as e:  # noqa: BLE001 - plain use: create, fill, commit, close, reopen r+
        H.close_leaked_h5()
        raise Violation("C11:committed-record-cannot-be-continued", f"{type(e).__name__}: {str(e)[:300]}",
                        "a committed record reopens for patching")
    cls = prep["cls"]
    commit_via = case.get("commit_via", "commit_patch")
    exts = case.get("exts")
    try:
        # dry run: number and names of events
        d0 = fresh_copy(prep["tpl"])
        res = os.path.join(d0, "_events.json")
        try:
            rc = faults.run_forked(program(d0, cls, prep["bound"], commit_via, exts), None, True, res)
            if rc != 0:
                err = open(res + ".err").read() if os.path.exists(res + ".err") else ""
                raise Violation("C11:patching-program-fails", f"rc={rc} {err[-400:]}", "patch is created, filled and committed")
            info = json.load(open(res))
            os.unlink(res)
            outcome = judge(d0, prep, "after complete run", allow_r_plus=False)
            if outcome not in ("outcome_new_state", "outcome_new_state_equals_old"):
                raise Violation("C11:complete-run-not-committed", outcome, "fully committed new state")
            # keep the complete post-commit state for the torn-header family
            newest = sorted(f for f in os.listdir(d0) if f.endswith(".ih5") and f not in prep["digests"])
            new_bytes = {f: open(os.path.join(d0, f), "rb").read() for f in os.listdir(d0) if f not in prep["digests"]}
        finally:
            shutil.rmtree(d0, ignore_errors=True)
        N, log = info["n"], info["log"]
        inside, depth = set(), 0
        for i, name in enumerate(log, start=1):
            if name.endswith("commit_patch"):
                depth += 1
            if depth > 0:
                inside.add(i)
            if name.endswith("commit_patch:done"):
                depth -= 1
        points = list(range(1, N + 1))
        if tier == "quick" and len(points) > 40:
            rest = [p for p in points if p not in inside]
            step = max(1, len(rest) // max(1, 40 - len(inside)))
            points = sorted(inside | set(rest[::step]))
        shape = [case.get("cls"), commit_via, len(prep["digests"]), [b["op"] for b in prep["bound"]]]
        old_header = None
        for n in points:
            d = fresh_copy(prep["tpl"])
            try:
                rc = faults.run_forked(program(d, cls, prep["bound"], commit_via, exts), n)
                if rc != 137:
                    raise HarnessError(f"child did not die at event {n}/{N} (rc={rc}, event {log[n - 1]})")
                where = f"after crash before event {n}/{N} '{log[n - 1]}'"
                if log[n - 1] == "IH5UserBlock.save" and n in inside and newest:
                    p = os.path.join(d, newest[-1])
                    if os.path.exists(p):
                        with open(p, "rb") as f:
                            old_header = f.read(1024)  # header right before the committing save
                outcome = judge(d, prep, where)
                in_commit = n in inside
                rec.case(nt_key=[shape, n] if in_commit else None,
                         classes=[outcome, "crash_in_commit" if in_commit else "crash_before_commit"],
                         sample=dict(cls=case.get("cls"), commit_via=commit_via, crash_before_event=log[n - 1], n=n, of=N,
                                     outcome=outcome, tail=[b["op"] for b in prep["bound"]]) if in_commit and n % 7 == 0 else None)
            finally:
                shutil.rmtree(d, ignore_errors=True)
        # family 2: torn final user-block write
        if old_header is not None and newest:
            fname = newest[-1]
            end = new_bytes[fname][:1024].find(b"\x00")
            for L, data in faults.torn_headers(old_header, new_bytes[fname]):
                d = fresh_copy(prep["tpl"])
                try:
                    for f, b in new_bytes.items():
                        with open(os.path.join(d, f), "wb") as fh:
                            fh.write(data if f == fname else b)
                    outcome = judge(d, prep, f"torn user block L={L}")
                    strictly_inside = 20 < L < end
                    rec.case(nt_key=[shape, "torn", L] if strictly_inside else None,
                             classes=[outcome] + (["torn_inside_json"] if strictly_inside else ["torn_edge"]),
                             sample=dict(kind="torn", L=L, header_end=end, outcome=outcome) if L == end // 2 else None)
                    # the same torn header with the manifest not written yet (MF: saved after the user block)
                    if cls is H.IH5MFRecord and L % 16 == 0:
                        mfp = os.path.join(d, fname + "mf.json")
                        if os.path.exists(mfp):
                            os.unlink(mfp)
                            judge(d, prep, f"torn user block L={L}, manifest not yet written")
                            rec.case(classes=["torn_without_manifest"])
                finally:
                    shutil.rmtree(d, ignore_errors=True)
            rec.exhaustive["torn_prefix_lengths_per_commit"] = True
        if tier == "thorough":
            rec.exhaustive["event_boundaries_per_scenario"] = True
    finally:
        shutil.rmtree(prep["tpl"], ignore_errors=True)
        H.close_leaked_h5()


# ---------------------------------------------------------------- family 3: real SIGKILL

WRITER = r'''
import os, sys
sys.path.insert(0, %(verif)r)
import vt.compat
from metador_core.ih5.container import IH5Record, IH5MFRecord
cls = IH5Record if sys.argv[2] == "IH5Record" else IH5MFRecord
d = sys.argv[1]
log = open(os.path.join(d, "progress.log"), "a")
def say(s):
    log.write(s + "\n"); log.flush(); os.fsync(log.fileno())
rec = cls(os.path.join(d, "rec"), "w")
i = 0
say("ready")
while True:
    say("begin %%d" %% i)
    rec["v%%d" %% i] = i
    if "blob" not in rec:
        rec["blob"] = bytes([1 + i %% 250]) * 3000
    if i: 
        if "v%%d" %% (i - 1) in rec and i %% 3 == 0:
            del rec["v%%d" %% (i - 1)]
    rec.attrs["last"] = i
    say("cbegin %%d" %% i)
    rec.commit_patch()
    say("done %%d" %% i)
    rec.create_patch()
    i += 1
'''


def expected_after(k):
    """Reference state after commits 0..k-1 of the writer (k = number of completed commits)."""
    t = {}
    for i in range(k):
        t[f"v{i}"] = i
        if i and i % 3 == 0:
            t.pop(f"v{i - 1}", None)
    return t


def kill_run(delay_ms, cls_name, rec, target=None):
    d = H.new_scratch("vt-c11k-")
    try:
        script = os.path.join(d, "writer.py")
        with open(script, "w") as f:
            f.write(WRITER % dict(verif=compat.VERIF))
        env = dict(os.environ, PYTHONPATH=compat.VERIF, VT_SRC=compat.SRC)
        p = subprocess.Popen([sys.executable, "-W", "ignore", script, d, cls_name], env=env,
                             stdout=subprocess.DEVNULL, stderr=subprocess.DEVNULL)
        lp = os.path.join(d, "progress.log")
        t0 = time.time()
        while time.time() - t0 < 60:
            if os.path.exists(lp) and "ready" in open(lp).read():
                break
            if p.poll() is not None:
                raise HarnessError("writer died before it was ready")
            time.sleep(0.01)
        if target is not None:
            # aimed kill: wait until the writer announces commit number `target`, then kill `delay_ms` later, so
            # that the signal lands inside commit_patch (hashing / header rewrite / manifest write) far more often
            want = "cbegin %d\n" % target
            while time.time() - t0 < 60 and want not in open(lp).read():
                if p.poll() is not None:
                    raise HarnessError("writer died before the aimed commit")
                time.sleep(0.0005)
        time.sleep(delay_ms / 1000.0)
        if p.poll() is not None:
            # the family is only meaningful while the writer is alive when the signal arrives
            raise HarnessError("writer ended by itself (rc=%s) before the SIGKILL: %s" % (p.returncode, open(lp).read()[-200:]))
        p.send_signal(signal.SIGKILL)
        p.wait()
        lines = open(lp).read().split()
        log = open(lp).read().splitlines()
        done = sum(1 for ln in log if ln.startswith("done"))
        begun = sum(1 for ln in log if ln.startswith("begin"))
        cls = _cls(cls_name)
        files = sorted(f for f in os.listdir(d) if f.endswith(".ih5"))
        # committed subset by the log: the first `done` containers
        def name(i):
            return "rec.ih5" if i == 0 else f"rec.p{i}.ih5"

        def view(r):
            out = {}
            for k in r.keys():
                if k.startswith("v"):
                    out[k] = int(r[k][()])
            return out

        if done:
            sub = [Path(os.path.join(d, name(i))) for i in range(done)]
            ids = H.open_h5_ids()
            try:
                r = cls(sub, "r")
            except Exception as e:  # noqa: BLE001
                H.close_leaked_h5(ids)
                raise Violation("C11:committed-subset-does-not-open:sigkill", f"{done} commits logged: {type(e).__name__}: {e}", "opens")
            try:
                v = view(r)
                last = int(r.attrs["last"])
            finally:
                r.close()
            if v != expected_after(done) or last != done - 1:
                raise Violation("C11:committed-subset-wrong-state:sigkill", f"{v} last={last}", expected_after(done))
        ids = H.open_h5_ids()
        try:
            r = cls(os.path.join(d, "rec"), "r")
        except Exception:  # noqa: BLE001
            H.close_leaked_h5(ids)
            outcome = "outcome_fails_to_open"
        else:
            try:
                if r.ih5_meta[-1].hdf5_hashsum is None:
                    outcome = "outcome_uncommitted"
                else:
                    v = view(r)
                    ok = [expected_after(k) for k in (done, done + 1)]
                    if v not in ok:
                        raise Violation("C11:opens-clean-with-unwritten-state:sigkill", f"{v} after {done} done / {begun} begun", ok)
                    outcome = "outcome_new_state"
            finally:
                try:
                    r.close()
                except Exception as e:  # noqa: BLE001
                    H.close_leaked_h5(ids)
                    raise Violation("C11:readonly-look-at-leftover-raises-on-close", f"sigkill: {type(e).__name__}: {e}", "closes")
        between = begun > done
        in_commit = bool(log) and log[-1].startswith("cbegin")
        rec.case(nt_key=["kill", cls_name, done, outcome, in_commit] if between else None,
                 classes=["sigkill", outcome] + (["sigkill_in_commit"] if in_commit else []),
                 sample=dict(kind="sigkill", delay_ms=delay_ms, target=target, done=done, begun=begun, outcome=outcome,
                             in_commit=in_commit, files=len(files)))
    finally:
        shutil.rmtree(d, ignore_errors=True)


def selfcheck():
    H.install_work_guard()


def plan(tier, seed):
    return [dict(name=f"scen-{i}", kind="scen", i=i) for i in range(NSHARD - 2)] + \
           [dict(name=f"kill-{i}", kind="kill", i=i) for i in range(2)]


def run_shard(shard, tier, seed, rec):
    H.install_work_guard()
    i = shard["i"]
    if shard["kind"] == "scen":
        n = {"quick": 2, "thorough": 28}[tier]
        cls_name = "IH5Record" if i % 2 == 0 else "IH5MFRecord"
        strat = st.builds(
            lambda h, tail, via, e: dict(history=h + [["commit"]], tail=tail, cls=cls_name, commit_via=via, exts=e),
            H.histories(1, 10, boundary_weight=2), H.histories(1, 6, boundary_weight=0),
            st.sampled_from(["commit_patch", "commit_patch", "close"]), st.sampled_from([None, {"k": 1}]))
        if i in (0, 1):
            # a fixed long chain: the interrupted patch is the 12th container (two-digit patch numbers in file names)
            long = []
            for k in range(11):
                long += [["set", 0, f"w{k}", {"t": "int", "v": k % 10}], ["commit"]]
            case = dict(history=long, tail=[["set", 0, "t", {"t": "int", "v": 1}], ["del", 0, 0]], cls=cls_name,
                        commit_via="commit_patch", exts=None)
            try:
                run_scenario(case, rec, tier)
                rec.cls("long_chain_12_containers")
            except Violation as v:
                rec.fail(v.signature, case, v.observed, v.expected)
        hyp.search(strat, lambda c: run_scenario(c, rec, tier), rec, seed=seed * 1000 + i, max_examples=n,
                   shrink_budget_s=30 if tier == "quick" else 120)
    else:
        import random
        rng = random.Random(seed * 77 + i)
        n = {"quick": 10, "thorough": 100}[tier]
        for k in range(n):
            cn = "IH5Record" if (k + i) % 2 == 0 else "IH5MFRecord"
            if k % 2:
                # aimed at commit number `target`: 0..6 ms after the writer announced it
                target, delay = rng.randrange(0, 6), rng.random() * 3
            else:
                target, delay = None, rng.choice([0, 1, 3, 5, 8, 13, 21, 34, 55, 89]) + rng.random() * 5
            try:
                kill_run(delay, cn, rec, target)
            except Violation as v:
                rec.fail(v.signature, dict(kind="sigkill", delay_ms=delay, cls=cn, target=target), v.observed, v.expected)


def replay(rp, rec):
    H.install_work_guard()
    try:
        if rp["case"].get("kind") == "sigkill":
            for _ in range(3):
                kill_run(rp["case"]["delay_ms"], rp["case"]["cls"], rec, rp["case"].get("target"))
        else:
            run_scenario(rp["case"], rec, "thorough")
    except Violation as v:
        rec.fail(v.signature, rp["case"], v.observed, v.expected)
