"""C10 — Patches built on a stub apply to the real record with the same result."""
import copy
import json
import os
import random
import shutil
from pathlib import Path

import h5py
from hypothesis import strategies as st

from .. import compat  # noqa: F401
from .. import history as H
from .. import hyp, recutil
from ..evidence import Violation
from ..treemodel import OpFails, diff_dumps, dump_real

from metador_core.ih5.manifest import IH5Manifest, IH5MFRecord  # noqa: E402
from metador_core.ih5.skeleton import IH5Skeleton  # noqa: E402

ID = "C10"
LEVEL = "exploration"
RULE = (
    "real IH5MFRecord from a generated C01-style history (1-6 containers; commits pass manifest_exts at generated "
    "positions, incl. {} and overrides); after EVERY commit: manifest file digest and uuid equal those in the "
    "container's user block, its skeleton equals the reference tree (paths, kinds, attribute names; dataset and "
    "attribute patch_index == index of the container the reference says wrote them last), manifest_exts == last "
    "explicitly passed value. Then create_stub from the newest manifest: same paths/kinds/attribute names, all "
    "values empty, merge refused; a generated existence-based update history U (create/delete/replace/set+del attr, "
    "no reads, no copy/move) is applied via stub and directly: per-op success parity, the stub-made patch opens as "
    "next patch of the real files and shows exactly the reference result, extensions persist through the stub. "
    "Optionally one patch is made with the plain IH5Record class before a last manifest patch (extensions persist). "
    "Non-trivial = real record with >=2 containers incl. a delete, and U deletes/replaces a node that lives in a "
    "non-newest real container; distinct by bound ops of history and U"
)
ASSUMPTIONS = ["not asserted: skeleton patch_index of groups; patch indices in stub-derived chains",
               "U is restricted to operations whose outcome depends only on existence/kind (the property's domain)"]
REQUIRED_CLASSES = {"all": ["real_ge3_containers", "exts_set", "exts_cleared_with_empty_dict", "update_deletes_old_node",
                            "stub_patch_applied", "root_attr_only_patch", "refused_commit_then_commit",
                            "plain_class_patch_in_between"]}
BUDGET_S = {"quick": 900, "thorough": 3 * 3600}
NSHARD = 16

EXIST_KINDS = {"set", "mkgrp", "del", "setattr", "delattr", "replace", "touch"}


def check_commit(sess, container_path, last_exts):
    """Invariants of the manifest written by the commit of `container_path`."""
    ub, ext, mf = recutil.check_manifest_matches(container_path, "C10")
    if ext.is_stub_container:
        raise Violation("C10:real-container-marked-stub", str(container_path), "not a stub")
    if mf.manifest_exts != last_exts:
        raise Violation("C10:manifest-exts-wrong", f"{mf.manifest_exts}", f"last explicitly passed value {last_exts}")
    skel = {k: v for k, v in mf.skeleton.__root__.items()}
    exp = sess.tree.dump()
    if set(skel) != set(exp):
        raise Violation("C10:skeleton-paths-differ", sorted(set(skel) ^ set(exp)), "skeleton lists exactly the record's paths")
    for p, (kind, _, attrs) in exp.items():
        ni = skel[p]
        if ni.node_type.value != ("group" if kind == "g" else "dataset"):
            raise Violation("C10:skeleton-kind-wrong", f"{p}: {ni.node_type}", kind)
        if set(ni.attrs) != set(attrs):
            raise Violation("C10:skeleton-attrs-differ", f"{p}: {sorted(ni.attrs)}", sorted(attrs))
        if kind == "d" and ni.patch_index != sess.created_in.get(p, 0):
            raise Violation("C10:skeleton-dataset-patch-index", f"{p}: {ni.patch_index}", sess.created_in.get(p, 0))
        for a, idx in ni.attrs.items():
            if idx != sess.attr_set_in.get((p, a), 0):
                raise Violation("C10:skeleton-attr-patch-index", f"{p}@{a}: {idx}", sess.attr_set_in.get((p, a), 0))


def skel_shape(rec):
    sk = IH5Skeleton.for_record(rec)
    return {p: (v.node_type.value, sorted(v.attrs)) for p, v in sk.__root__.items()}


def run_case(case, rec=None):
    classes = set()
    state = dict(exts={})

    def on_b(sess, kind):
        # a commit just happened when the number of committed containers grew
        t = sess.target
        if t.commits > state.get("seen", 0):
            state["seen"] = t.commits
            files = t.rec.ih5_files
            committed = files[-2] if len(files) >= 2 else files[-1]
            check_commit(sess, committed, state["exts"])
        if kind == "reopen" and t.commits >= 1:
            # the manifest of the last commit is what a reopened record reports (also while an uncommitted patch exists)
            try:
                got = t.rec.manifest.manifest_exts
            except Exception as e:  # noqa: BLE001
                raise Violation("C10:manifest-not-available-after-reopen", f"{type(e).__name__}: {e} ({len(t.rec.ih5_files)} containers, "
                                f"{t.commits} committed)", "manifest of the last commit")
            if got != state["exts"]:
                raise Violation("C10:manifest-exts-wrong:after-reopen", got, state["exts"])
            classes.add("manifest_after_reopen")

    sess = H.Session(lambda: H.IH5Target(IH5MFRecord, "rec"), placement="generated", check_every=False, sig_prefix="C10",
                     on_boundary=on_b)
    extra_dirs = []
    try:
        # feed, tracking explicitly passed manifest_exts
        for op in case["history"]:
            if op[0] == "commit" and len(op) > 1:
                state["exts"] = op[1]["manifest_exts"]
                classes.add("exts_set" if op[1]["manifest_exts"] else "exts_cleared_with_empty_dict")
            if op[0] == "commit":
                before_paths = set(sess.target.rec.ih5_files)
                n_bound = len(sess.out.bound)
            if op[0] == "commit" and len(op) > 1:
                # the caller keeps (and later changes) the dict it passed: the committed extensions must not follow
                mine = copy.deepcopy(op[1]["manifest_exts"])
                sess.feed([["commit", {"manifest_exts": mine}]])
                for v_ in list(mine.values()):
                    if isinstance(v_, dict):
                        v_["changed-by-caller-after-commit"] = True
                mine["changed-by-caller-after-commit"] = True
                classes.add("caller_mutates_passed_exts")
                continue
            sess.feed([op])
        t = sess.target
        # was there a patch that only touched root attributes?
        final_kw = case.get("final_exts")
        if final_kw is not None:
            state["exts"] = final_kw
            t.rec.commit_patch(manifest_exts=final_kw)
        else:
            t.rec.commit_patch()
        t.commits += 1
        sess._snap_idx()
        check_commit(sess, t.rec.ih5_files[-1], state["exts"])
        # refused commits (nothing to commit / unknown keyword) must leave manifest and extensions alone
        dig0 = recutil.dir_digest(t.dir)
        for bad in (lambda: t.rec.commit_patch(), lambda: t.rec.commit_patch(manifest_exts={"never": "committed"})):
            try:
                bad()
            except Exception:  # noqa: BLE001
                pass
            else:
                raise Violation("C10:commit-without-patch-accepted", "commit_patch() with nothing to commit succeeded", "refused")
        if recutil.dir_digest(t.dir) != dig0:
            ch = sorted(n for n in dig0 if recutil.dir_digest(t.dir).get(n) != dig0[n])
            raise Violation("C10:refused-commit-changed-files", ch, "manifest on disk still matches its container")
        check_commit(sess, t.rec.ih5_files[-1], state["exts"])
        # ... nor the record object: its in-memory header of the newest container still equals the one on disk
        from metador_core.ih5.record import IH5UserBlock
        mem, disk = t.rec.ih5_meta[-1], IH5UserBlock.load(t.rec.ih5_files[-1])
        if json.loads(mem.json()) != json.loads(disk.json()):
            raise Violation("C10:refused-commit-changed-record-object", f"in memory {mem.json()} vs on disk {disk.json()}",
                            "a refused commit leaves the record as it was")
        if case.get("bad_kw"):
            # a commit refused because of an unknown keyword must not smuggle its extensions into the next commit
            t.rec.create_patch()
            try:
                t.rec.commit_patch(manifest_exts={"never": "committed"}, typo=1)
            except Exception:  # noqa: BLE001
                pass
            else:
                raise Violation("C10:unknown-keyword-accepted", "commit_patch(typo=1)", "refused")
            t.rec.commit_patch()
            t.commits += 1
            sess._snap_idx()
            check_commit(sess, t.rec.ih5_files[-1], state["exts"])
            classes.add("refused_commit_then_commit")
        if case.get("plain_patch"):
            # one patch made with the plain IH5Record class (what MetadorContainer's default IH5 driver does; the
            # docs allow the mix: not every patch needs a manifest), then an IH5MFRecord patch without manifest_exts:
            # the extensions still persist, nobody overrode them
            from metador_core.ih5.container import IH5Record

            n0 = len(t.rec.ih5_files)
            t.rec.close()
            pr = IH5Record(t.path, "r+")
            pr.attrs["viaplain"] = 1
            pr.close()
            t.rec = IH5MFRecord(t.path, "r+")
            t.rec.attrs["viamf"] = 2
            t.rec.commit_patch()
            t.commits += 2
            for key, val, idx in (("viaplain", 1, n0), ("viamf", 2, n0 + 1)):
                sess.tree.setattr("/", key, H.expected_canon({"t": "int", "v": val}, True))
                sess.attr_set_in[("/", key)] = idx
            sess._snap_idx()
            try:
                check_commit(sess, t.rec.ih5_files[-1], state["exts"])
            except Violation as v:
                raise Violation(v.signature + ":after-plain-patch", v.observed, v.expected)
            classes.add("plain_class_patch_in_between")
        sess.verify("real record after final commit")
        real_files = [str(p) for p in t.rec.ih5_files]
        n = len(real_files)
        real_tree = sess.tree.clone()
        real_shape = skel_shape(t.rec)
        model_shape = {p: ("group" if k == "g" else "dataset", sorted(a)) for p, (k, _, a) in real_tree.dump().items()}
        if real_shape != model_shape:
            raise Violation("C10:skeleton-of-real-differs-from-model", sorted(set(map(str, real_shape.items())) ^ set(map(str, model_shape.items())))[:6], "")
        t.rec.close()
        t.rec = None
        # ---- stub
        sd = H.new_scratch("vt-c10s-")
        extra_dirs.append(sd)
        mfile = Path(recutil.manifest_path(real_files[-1]))
        try:
            stub = IH5MFRecord.create_stub(os.path.join(sd, "rec"), mfile)
        except Exception as e:  # noqa: BLE001
            H.close_leaked_h5()
            raise Violation("C10:create-stub-raises", f"{type(e).__name__}: {e}", "stub is created")
        try:
            sshape = skel_shape(stub)
            if sshape != model_shape:
                d = sorted(set(map(str, sshape.items())) ^ set(map(str, model_shape.items())))
                raise Violation("C10:stub-structure-differs", d[:6], "same paths, kinds and attribute names as the real record")

            def all_empty(name, node):
                for k, v in node.attrs.items():
                    if not isinstance(v, h5py.Empty):
                        return f"attr {name}@{k} = {v!r}"
                if not hasattr(node, "keys") and not isinstance(node[()], h5py.Empty):
                    return f"dataset {name} = {node[()]!r}"

            leak = stub.visititems(all_empty) or next((f"attr /@{k}" for k, v in stub.attrs.items() if not isinstance(v, h5py.Empty)), None)
            if leak:
                raise Violation("C10:stub-contains-data", leak, "no data in the stub")
            try:
                stub.merge_files(Path(sd) / "m")
            except Exception:  # noqa: BLE001
                pass
            else:
                raise Violation("C10:stub-merged", "merge_files on a stub succeeded", "refused")
            stub_meta = recutil.meta_dicts(stub)[-1]
            # ---- direct update on a copy of the real record
            dd = H.new_scratch("vt-c10d-")
            extra_dirs.append(dd)
            for f in os.listdir(t.dir):
                shutil.copy(os.path.join(t.dir, f), os.path.join(dd, f))

            class DirectTarget(H.IH5Target):
                def __init__(self):
                    self.cls, self.dir, self.path = IH5MFRecord, dd, os.path.join(dd, "rec")
                    self.rec = IH5MFRecord(self.path, "r+")
                    self.commits = n

            ds = H.Session(DirectTarget, placement="none", check_every=False, sig_prefix="C10")
            ds.tree = real_tree.clone()
            ds.created_in, ds.attr_set_in = dict(sess.created_in), dict(sess.attr_set_in)
            upd = [op for op in case["update"] if op[0] in EXIST_KINDS]
            ds.feed(upd)
            ds.verify("direct update")
            bound = list(ds.out.bound)
            ds.target.rec.commit_patch()
            check_commit(ds, ds.target.rec.ih5_files[-1], state["exts"])
            exp_after = ds.tree.dump()
            ds.target.rec.close()
            ds.target.rec = None
            # ---- same ops on the stub
            stub.create_patch()
            t2 = real_tree.clone()
            for b in bound:
                t2_before = t2.clone()
                try:
                    H.apply_model(t2, b)
                    okm = True
                except OpFails:
                    okm = False
                try:
                    H.apply_real(stub, b)
                    oks = True
                except Exception as e:  # noqa: BLE001
                    oks, err = False, f"{type(e).__name__}: {e}"
                if okm and not oks and H.marker_refused(b, err):
                    t2, okm = t2_before, False  # the reserved marker value is refused on the stub as on the real record
                if okm != oks:
                    raise Violation(f"C10:stub-op-parity:{b['op']}", f"{b}: on the stub {'succeeded' if oks else 'raised ' + err}",
                                    "succeeds" if okm else "fails")
            stub.commit_patch()
            spatch = str(stub.ih5_files[-1])
        finally:
            stub.close()
        if os.path.basename(spatch) != f"rec.p{n}.ih5":
            raise Violation("C10:stub-patch-name", os.path.basename(spatch), f"rec.p{n}.ih5")
        # ---- apply the stub-made patch to the real record
        ad = H.new_scratch("vt-c10a-")
        extra_dirs.append(ad)
        for f in os.listdir(t.dir):
            shutil.copy(os.path.join(t.dir, f), os.path.join(ad, f))
        shutil.copy(spatch, os.path.join(ad, os.path.basename(spatch)))
        shutil.copy(recutil.manifest_path(spatch), os.path.join(ad, os.path.basename(spatch) + "mf.json"))
        ids = H.open_h5_ids()
        try:
            r = IH5MFRecord(os.path.join(ad, "rec"), "r")
        except Exception as e:  # noqa: BLE001
            H.close_leaked_h5(ids)
            raise Violation("C10:stub-patch-not-accepted", f"{type(e).__name__}: {e}", "opens as the next patch of the real record")
        try:
            got = dump_real(r)
            exts_after = r.manifest.manifest_exts
            nfiles = len(r.ih5_files)
        finally:
            r.close()
        if nfiles != n + 1:
            raise Violation("C10:stub-patch-not-accepted", f"{nfiles} containers", n + 1)
        if got != exp_after:
            dd2 = diff_dumps(got, exp_after)
            raise Violation("C10:patched-real-differs:" + "+".join(sorted({x.split()[0] for x in dd2})), dd2, "same as direct update")
        if exts_after != state["exts"]:
            raise Violation("C10:exts-lost-through-stub", exts_after, state["exts"])
        recutil.check_manifest_matches(os.path.join(ad, os.path.basename(spatch)), "C10")
        classes.add("stub_patch_applied")
        if n >= 3:
            classes.add("real_ge3_containers")
        old_del = any(b["op"] == "del" and sess.created_in.get(b["abs"], 0) < n - 1 and real_tree.lookup(b["abs"]) is not None
                      for b in bound)
        if old_del:
            classes.add("update_deletes_old_node")
        if rec is not None:
            nt = n >= 2 and "delete_node_from_earlier_container" in sess.out.classes and old_del
            rec.case(nt_key=[[b["op"] + str(b.get("abs")) for b in sess.out.bound], [b["op"] + str(b.get("abs")) for b in bound]] if nt else None,
                     classes=sorted(classes | sess.out.classes | state.get("cls", set())),
                     sample=dict(case, containers=n) if nt else None)
    finally:
        sess.destroy()
        for d in extra_dirs:
            shutil.rmtree(d, ignore_errors=True)
        H.close_leaked_h5()


def selfcheck():
    H.install_work_guard()


def plan(tier, seed):
    return [dict(name=f"stub-{i}", i=i) for i in range(NSHARD)]


commit_op = st.one_of(
    st.just(["commit"]), st.just(["commit"]),
    st.builds(lambda k: ["commit", {"manifest_exts": {"e": k}}], st.integers(0, 3)),
    st.just(["commit", {"manifest_exts": {}}]),
    st.builds(lambda k: ["commit", {"manifest_exts": {"other": {"nested": [k]}}}], st.integers(0, 3)),
)
# a patch that only touches root attributes (its container has no members)
root_attr_patch = st.builds(lambda v, c: [["commit"], ["setattr", "/", "ra", v], c], H.small_value, commit_op)


def cases(max_ops):
    base = st.lists(st.one_of(H.data_op.map(list), H.data_op.map(list), H.data_op.map(list), commit_op,
                              st.tuples(st.just("del"), H.ref, H.ref).map(list),
                              st.just(["reopen", "r+", True]), st.just(["reopen", "r+", False]), st.just(["reopen", "a", False]),
                              st.just(["discard"])), min_size=2, max_size=max_ops)
    hist = st.builds(lambda h, extra, pos: h[:pos % (len(h) + 1)] + extra + h[pos % (len(h) + 1):], base,
                     st.one_of(st.just([]), root_attr_patch), st.integers(0, 50))
    upd_op = st.one_of(H.data_op.map(list).filter(lambda o: o[0] in EXIST_KINDS),
                       st.tuples(st.just("del"), H.ref, H.ref).map(list),
                       st.tuples(st.just("replace"), H.ref, st.sampled_from(["g", "d"]), H.small_value).map(list))
    upd = st.lists(upd_op, min_size=1, max_size=8)
    return st.builds(lambda h, u, fe, bk, pp: dict(history=h, update=u, final_exts=fe, bad_kw=bk, plain_patch=pp), hist, upd,
                     st.sampled_from([None, None, {"f": 1}, {}]), st.booleans(), st.booleans())


def run_shard(shard, tier, seed, rec):
    H.install_work_guard()
    i = shard["i"]
    n = {"quick": 90, "thorough": 900}[tier]

    def t(c):
        run_case(c, rec)
        if any(o == ["setattr", "/", "ra", o[3]] for o in c["history"] if o[0] == "setattr" and len(o) > 3):
            rec.cls("root_attr_only_patch")

    hyp.search(cases(20 if tier == "quick" else 45), t, rec, seed=seed * 1000 + i, max_examples=n,
               shrink_budget_s=25 if tier == "quick" else 120)


def replay(rp, rec):
    H.install_work_guard()
    try:
        run_case(rp["case"], rec)
    except Violation as v:
        rec.fail(v.signature, rp["case"], v.observed, v.expected)
