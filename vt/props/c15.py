"""C15 — Node restrictions cannot be escaped by navigating the container."""
import itertools
import os
import shutil

import h5py
import numpy as np

from .. import compat  # noqa: F401
from .. import cmodel as C
from .. import history as H
from ..evidence import HarnessError, Violation
from ..treemodel import canon, is_group

from metador_core.container import MetadorContainer  # noqa: E402
from metador_core.container.interface import NodeAcl  # noqa: E402
from metador_core.ih5.container import IH5Record  # noqa: E402

ID = "C15"
LEVEL = "exploration"
RULE = (
    "exhaustive product on a fixed 3-level container (groups, datasets, attributes, metadata at every level) on both "
    "drivers: start node {/, /g, /g/h, /g/d2} x flag set (all 8 subsets of read_only/local_only/skel_only, set before "
    "or after a first navigation on the same wrapper) x navigation chain of length 0..2 (quick) / 0..3 (thorough) over "
    "{[child], [last child], get, values, items, visititems capture, require_group(existing), parent, query result, "
    "multi-segment path} x final operation {every mutating op of group, dataset, attribute manager and metadata "
    "interface; every reading op; every upward op; restrict(flag=False)}. Oracle: derived acl is a superset of the "
    "start's; read_only => every mutating op raises and the raw tree is unchanged; skel_only => every reading op "
    "raises; local_only => nothing above the local root is ever yielded; flags cannot be cleared; unrestricted "
    "control runs of the same chains must succeed (non-vacuity). The fixture also holds (HDF5 driver) a dimension scale "
    "outside /g attached to g/d2 and a named datatype in g/h; read ops include arithmetic / comparison operators (the "
    "answer must not depend on the contents) and comparison of attribute sets. Non-trivial = chain length >=1 ending in an op that "
    "succeeds on the unrestricted control; distinct by (start, flags, chain, op)"
)
ASSUMPTIONS = ["restrictions are documented as soft: __wrapped__ and h5py-only members outside util/types.py are not asserted"]
REQUIRED_CLASSES = {"all": ["ro_mutation_refused", "skel_read_refused", "local_upward_refused", "control_succeeds",
                            "restrict_after_navigation", "chain_ge2"]}
BUDGET_S = {"quick": 900, "thorough": 4 * 3600}
FLAGS = ["read_only", "local_only", "skel_only"]
STARTS = ["/", "/g", "/g/h", "/g/d2"]
PRIMS = ["child0", "childN", "get0", "values0", "items0", "visit0", "reqgrp", "parent", "query0", "deep", "file", "dot",
         "child0+read_only", "childN+skel_only"]  # (the last two: a child that is restricted further before going on)


def build(driver, d):
    if driver == "h5":
        raw = h5py.File(os.path.join(d, "c.h5"), "w")
    else:
        raw = IH5Record(os.path.join(d, "c"), "w")
    mc = MetadorContainer(raw)
    mc.attrs["rk"] = 1
    mc.create_group("g/h")
    mc["d1"] = np.void(b"one")
    mc["secret"] = np.void(b"top-secret")
    mc["g/d2"] = np.array([1, 2, 3])
    mc["g/h/d3"] = 7
    for p in ("g", "g/h", "d1", "g/d2", "g/h/d3", "secret"):
        mc[p].attrs["ak"] = 5
        mc[p].attrs["bk"] = "x"
    mc.meta["verif.mid"] = {"title": "root", "count": 1}
    mc["g"].meta[("verif.base", (1, 1, 0))] = {"title": "g"}
    mc["g/h"].meta["verif.leaf"] = {"title": "h", "count": 2}
    mc["g/h/d3"].meta[("verif.base", (1, 1, 0))] = {"title": "d3"}
    mc["g/d2"].meta[("verif.base", (1, 1, 0))] = {"title": "d2"}
    mc["d1"].meta["verifother.thing"] = {"name": "d1"}
    if driver != "h5":
        raw.commit_patch()
        raw.create_patch()
        mc["g/h"].attrs["ck"] = 1
    else:
        # plain HDF5 features reachable through the wrapped nodes: a dimension scale that lives outside of /g ...
        mc["s1"] = np.array([10, 20, 30])
        mc["s1"].make_scale("t")
        mc["g/d2"].dims[0].attach_scale(mc["s1"])
        # ... and a named datatype (cannot be made through the container; such files exist)
        raw["g/h/ztype"] = np.dtype("<i4")
    return mc


class NA(Exception):
    pass


def navigate(node, prim):
    isg = hasattr(node, "keys") and hasattr(node, "create_group")
    if "+" in prim:
        base, flag = prim.split("+")
        nxt = navigate(node, base)
        if not hasattr(nxt, "restrict"):
            raise NA("not a container node")
        return nxt.restrict(**{flag: True})
    try:
        if prim == "parent":
            return node.parent
        if prim == "file":
            return node.file
        if prim == "dot":  # "." names the group itself on h5py (IH5 refuses it)
            if not isg:
                raise NA()
            return node["."]
        if prim == "query0":
            res = list(node.metador.query("verif.base"))
            if not res:
                raise NA()
            return res[len(res) // 2]
        if not isg:
            raise NA()
        keys = sorted(node.keys())
        if not keys:
            raise NA()
        if prim == "child0":
            return node[keys[0]]
        if prim == "childN":
            return node[keys[-1]]
        if prim == "get0":
            return node.get(keys[0])
        if prim == "values0":
            return next(iter(node.values()))
        if prim == "items0":
            return next(iter(node.items()))[1]
        if prim == "visit0":
            return node.visititems(lambda n, o: o)
        if prim == "reqgrp":
            grp = [k for k in keys if hasattr(node[k], "keys")]
            if not grp:
                raise NA()
            return node.require_group(grp[0])
        if prim == "deep":
            for cand in ("g/h/d3", "h/d3", "g/d2"):
                if cand in node:
                    return node[cand]
            raise NA()
    except NA:
        raise
    except Exception as e:  # noqa: BLE001 - refused or not applicable
        raise NA(str(e))
    raise HarnessError(prim)


def mut_ops(node):
    isg = hasattr(node, "keys") and hasattr(node, "create_group")
    a = node.attrs
    ak = "rk" if node.name == "/" else "ak"
    ops = [
        ("attrs.__setitem__", lambda: a.__setitem__("zz", 1)), ("attrs.__delitem__", lambda: a.__delitem__(ak)),
        ("attrs.update", lambda: a.update({"zz": 1})), ("attrs.pop", lambda: a.pop(ak)), ("attrs.clear", lambda: a.clear()),
        ("attrs.setdefault", lambda: a.setdefault("zz", 1)), ("attrs.popitem", lambda: a.popitem()),
        ("attrs.create", lambda: a.create("zz", 1)), ("attrs.modify", lambda: a.modify(ak, 6)),
        ("meta.__setitem__", lambda: node.meta.__setitem__("core.table", {"name": "t", "columns": []})),
        ("meta.__delitem__", lambda: node.meta.__delitem__(sorted(node.meta.keys())[0])),
        ("meta.values.node.attrs", lambda: list(node.meta.values())[0].node.attrs.__setitem__("zz", 1)),
        ("meta.items.node.file", lambda: list(node.meta.items())[0][1].node.file.__setitem__("written_via_meta_node", 1)),
    ]
    if isg:
        child = sorted(node.keys())[0] if len(node) else "nochild"
        ops += [
            ("__setitem__", lambda: node.__setitem__("new1", 1)), ("create_group", lambda: node.create_group("ng")),
            ("create_dataset", lambda: node.create_dataset("nd", data=1)), ("require_group_new", lambda: node.require_group("ng2")),
            ("require_dataset_new", lambda: node.require_dataset("nd2", shape=(), dtype="i8")),
            ("__delitem__", lambda: node.__delitem__(child)), ("move", lambda: node.move(child, "moved")),
            ("copy", lambda: node.copy(child, "copied")), ("copy_nometa", lambda: node.copy(child, "copied2", without_meta=True)),
            ("nested_setitem", lambda: node.__setitem__("x/y/z", 1)),
        ]
    else:
        ops += [("dataset.shape_assign", lambda: setattr(node, "shape", (2,))),
                ("dataset.copy_into_patch", lambda: node.copy_into_patch()),
                ("dataset.__setitem__", lambda: node.__setitem__((), node[()] if False else 5)),
                ("dataset.write_direct", lambda: node.write_direct(np.zeros(node.shape)) if hasattr(node.__wrapped__, "write_direct") else (_ for _ in ()).throw(AttributeError())),
                ("dataset.resize", lambda: node.resize((5,)) if hasattr(node.__wrapped__, "resize") else (_ for _ in ()).throw(AttributeError()))]
        if _has_scale(node):
            ops += [("dataset.dims_label", lambda: setattr(node.dims[0], "label", "hacked"))]
    return ops


def _has_scale(node):
    raw = node.__wrapped__
    return isinstance(raw, h5py.Dataset) and len(raw.shape) > 0 and len(raw.dims[0]) > 0


class _NoLeak(Exception):
    """Raised by a probe whose result turned out not to depend on the protected contents."""


def _leak_by_compare(node, op):
    """node <op> x for an operand equal to the contents and for a different one: yields data iff the answers differ."""
    import operator

    cur = np.asarray(node.__wrapped__[()])
    same, other = cur.copy(), np.asarray(cur + 1) if cur.dtype.kind in "iuf" else np.void(b"zzz")
    r1, r2 = getattr(operator, op)(node, same), getattr(operator, op)(node, other)
    if np.array_equal(np.asarray(r1), np.asarray(r2)):
        raise _NoLeak()
    return r1


def _attrs_leak_by_compare(a, ak):
    raw = dict(a.__wrapped__.items()) if hasattr(a, "__wrapped__") else dict(a.items())
    other = dict(raw)
    other[ak] = 4711
    if (a == raw) == (a == other) and (a != raw) == (a != other):
        raise _NoLeak()
    return True


def read_ops(node):
    isg = hasattr(node, "keys") and hasattr(node, "create_group")
    a = node.attrs
    ak = "rk" if node.name == "/" else "ak"

    def mkey():
        # (name, version) of the first stored object (a bare name would ask for the newest installed major version)
        m = node.meta
        n = sorted(m.keys())[0]
        return (n, tuple(m._objs[n].schema.version))

    ops = [
        ("attrs.__getitem__", lambda: a[ak]), ("attrs.get", lambda: a.get(ak)), ("attrs.values", lambda: list(a.values())),
        ("attrs.items", lambda: list(a.items())),
        ("meta.__getitem__", lambda: node.meta[mkey()]), ("meta.get", lambda: node.meta.get(*mkey())),
        ("meta.values", lambda: list(node.meta.values())), ("meta.items", lambda: list(node.meta.items())),
    ]
    if not isg:
        ops += [("dataset.__getitem__", lambda: node[()]), ("dataset.get_slice", lambda: node[...])]
        if getattr(node, "shape", ()) != ():  # contents through the sequence / array protocols
            ops += [("dataset.__bytes__", lambda: bytes(node)), ("dataset.__reversed__", lambda: list(reversed(node))),
                    ("dataset.__iter__", lambda: list(node)), ("dataset.__contains__", lambda: 2 in node),
                    ("dataset.sum", lambda: sum(node)), ("dataset.np_array", lambda: np.array(node))]
        plain = isinstance(node.__wrapped__, h5py.Dataset)  # (IH5 datasets implement no operators)
        numeric = plain and np.asarray(node.__wrapped__[()]).dtype.kind in "iuf"
        if numeric:  # arithmetic with a numpy operand ends up in the raw dataset's __array__
            ops += [("dataset.op_add", lambda: node + np.int64(0)), ("dataset.op_radd", lambda: np.int64(0) + node),
                    ("dataset.op_mul", lambda: node * np.int64(1)), ("dataset.op_sub_array", lambda: node - np.zeros(np.shape(node.__wrapped__[()]), int)),
                    ("dataset.op_divmod", lambda: divmod(node, np.int64(1))),
                    ("dataset.op_lt", lambda: _leak_by_compare(node, "lt")), ("dataset.op_ge", lambda: _leak_by_compare(node, "ge"))]
        if numeric:
            ops += [("dataset.op_eq", lambda: _leak_by_compare(node, "eq")), ("dataset.op_ne", lambda: _leak_by_compare(node, "ne"))]
        if _has_scale(node):
            ops += [("dataset.dims_scale_values", lambda: node.dims[0][0][()])]
    raw_attrs = getattr(a, "__wrapped__", a)
    if not any(k in _REF_ATTRS for k in raw_attrs.keys()):
        ops += [("attrs.__eq__", lambda: _attrs_leak_by_compare(a, ak))]
    return ops


def upward_ops(node, root):
    isg = hasattr(node, "keys") and hasattr(node, "create_group")

    def climb():
        cur, seen = node, []
        try:
            for _ in range(8):
                cur = cur.parent
                seen.append(cur.name)
        except Exception:  # noqa: BLE001
            if not seen:
                raise
        return seen

    ops = [("parent_chain", climb), ("file", lambda: node.file.name)]
    if isg:
        ops += [("abs_getitem", lambda: node["/secret"].name), ("abs_contains", lambda: "/secret" in node), ("abs_get", lambda: node.get("/secret").name),
                ("abs_copy_dst", lambda: node.copy(sorted(node.keys())[0], "/escaped") if len(node) else (_ for _ in ()).throw(KeyError())),
                ("abs_setitem", lambda: node.__setitem__("/escaped2", 1)),
                ("rel_dotdot", lambda: node["../secret"].name),
                # the same absolute paths handed over as bytes (h5py itself takes bytes paths)
                ("abs_getitem_bytes", lambda: node[b"/secret"].name), ("abs_root_bytes", lambda: node[b"/"].name),
                ("abs_get_bytes", lambda: node.get(b"/secret").name), ("abs_contains_bytes", lambda: b"/secret" in node),
                ("abs_reqgrp_bytes", lambda: node.require_group(b"/g").name),
                ("abs_create_bytes", lambda: node.create_group(b"/escaped3").name),
                ("abs_setitem_bytes", lambda: node.__setitem__(b"/escaped4", 1))]
    def self_local():
        # the derived node is explicitly made local_only itself: it becomes its own local root
        node.restrict(local_only=True)
        seen = []
        cur = node
        try:
            for _ in range(4):
                cur = cur.parent
                seen.append(("OUTSIDE:" + cur.name) if not within(cur.name, node.name) else cur.name)
        except Exception:  # noqa: BLE001 - refused at some level: what was yielded before still counts
            pass
        return seen

    if not isg:
        if _has_scale(node):
            ops += [("dims_scale_name", lambda: node.dims[0][0].name), ("dims_scale_file", lambda: node.dims[0][0].file.name)]
    else:  # whatever a lookup or listing hands out (also objects that are neither group nor dataset) stays inside
        def odd_objects():
            out = []
            for k, v in list(node.items()) + [(k, node.get(k)) for k in list(node.keys())]:
                if not hasattr(v, "acl"):
                    out += [v.file.name if hasattr(v, "file") else "?", v.parent.name if hasattr(v, "parent") else "?"]
            return out

        ops += [("unwrapped_objects", odd_objects)]
    ops += [("meta_values_node_file", lambda: list(node.meta.values())[0].node.file.name),
            ("meta_values_node_parent", lambda: list(node.meta.values())[0].node.parent.parent.name),
            ("query_default", lambda: [n.name for n in node.metador.query("verif.base")]),
            ("query_node_none", lambda: [n.name for n in node.metador.query("verif.base", node=None)]),
            ("query_other", lambda: [n.name for n in node.metador.query("verifother.thing")]),
            ("zz_self_local_parent", self_local)]  # last: it changes the flags of the derived node
    return ops


_REF_ATTRS = ("REFERENCE_LIST", "DIMENSION_LIST")  # object references: no stable text form


def _attr_snap(o):
    return tuple(sorted((k, repr(canon(v))) for k, v in o.attrs.items() if k not in _REF_ATTRS))


def snap(mc):
    out = {}

    def cb(name, o):
        if isinstance(o, h5py.Datatype):
            out[name] = ("t:" + str(o.dtype), _attr_snap(o))
            return
        out[name] = ("g" if is_group(o) else repr(canon(o[()])), _attr_snap(o))

    mc.__wrapped__.visititems(cb)
    out["/"] = tuple(sorted((k, repr(canon(v))) for k, v in mc.__wrapped__.attrs.items()))
    return out


def within(name, root):
    return root == "/" or name == root or name.startswith(root + "/")


def run_block(driver, start, flags, late, maxlen, rec):
    """All chains x ops for one (driver, start, flag set, restrict-before/after-navigation)."""
    d = H.new_scratch("vt-c15-")
    fl = {f: True for f in flags}
    try:
        mc = build(driver, d)
        base = snap(mc)
        ro, lo, sk = ("read_only" in flags), ("local_only" in flags), ("skel_only" in flags)
        chains = [()] + [c for n in range(1, maxlen + 1) for c in itertools.product(PRIMS, repeat=n)]
        for chain in chains:
            s = mc if start == "/" else mc[start]
            if late:
                # the wrapper is used for navigation first, restricted afterwards
                try:
                    _ = list(s.keys()) if hasattr(s, "keys") else s.parent
                    _ = s.parent if start != "/" else None
                except Exception:  # noqa: BLE001
                    pass
            s = s.restrict(**fl) if fl else s
            node, ok = s, True
            for prim in chain:
                try:
                    node = navigate(node, prim)
                except NA:
                    ok = False
                    break
                if node is None:
                    ok = False
                    break
            if not ok:
                continue
            eff = sorted(set(flags) | {pr.split("+")[1] for pr in chain if "+" in pr})  # flags every derived node must carry
            ro, sk = ("read_only" in eff), ("skel_only" in eff)
            case = dict(driver=driver, start=start, flags=sorted(flags), late=late, chain=list(chain))
            # -- acl inheritance and locality
            try:
                acl = {k.name: v for k, v in node.acl.items()}
            except Exception as e:  # noqa: BLE001
                if eff:  # (unrestricted: e.g. a named datatype comes back as the plain h5py object)
                    rec.fail("C15:derived-node-without-acl", case, f"{type(node).__name__}: {e}", "restricted node")
                continue
            lost = [f for f in eff if not acl.get(f)]
            if lost:
                rec.fail(f"C15:flag-lost:{'+'.join(lost)}:{chain[-1] if chain else 'start'}", case, f"derived node {node.name} has acl {acl}", f"superset of {eff}")
                continue
            if lo and not within(node.name, start):
                rec.fail(f"C15:local-only-escaped:{chain[-1]}", case, f"reached {node.name}", f"within {start}")
                continue
            nt_base = [driver, start, sorted(flags), late, list(chain)]
            # -- restrict cannot clear
            for f in flags:
                node.restrict(**{f: False})
                if not node.acl[NodeAcl[f]]:
                    rec.fail("C15:restriction-removed", dict(case, op=f"restrict({f}=False)"), "flag cleared", "restrictions can only be added")
            classes = ["chain_ge2"] if len(chain) >= 2 else []
            if late and flags:
                classes.append("restrict_after_navigation")
            # -- mutating ops
            if ro:
                for name, fn in mut_ops(node):
                    try:
                        fn()
                        raised = False
                    except Exception:  # noqa: BLE001
                        raised = True
                    if not raised:
                        rec.fail(f"C15:read-only-mutation-accepted:{name}", dict(case, op=name), f"{name} on {node.name} succeeded", "refused")
                    rec.case(nt_key=nt_base + [name] if chain else None, classes=classes + ["ro_mutation_refused"], n=1,
                             sample=dict(case, op=name) if len(chain) == 2 and name == "meta.__setitem__" else None)
                now = snap(mc)
                if now != base:
                    ch = sorted(k for k in set(now) | set(base) if now.get(k) != base.get(k))
                    rec.fail("C15:read-only-node-changed-container", case, f"raw tree changed at {ch[:4]} after the mutating ops on {node.name}", "unchanged")
                    mc.close()
                    shutil.rmtree(d, ignore_errors=True)
                    d = H.new_scratch("vt-c15-")
                    mc = build(driver, d)
                    base = snap(mc)
                    continue
            # -- reading ops
            for name, fn in read_ops(node):
                try:
                    fn()
                    raised = False
                except _NoLeak:
                    if not sk:
                        continue  # (e.g. IH5 attribute sets compare by identity anyway)
                    raised = True
                except Exception as e:  # noqa: BLE001
                    raised = True
                if sk and not raised:
                    rec.fail(f"C15:skel-only-read-accepted:{name}", dict(case, op=name), f"{name} on {node.name} yielded data", "refused")
                elif not sk and raised and not (name.startswith("meta.") and len(node.meta.keys()) == 0) and not eff:
                    rec.fail(f"C15:control-read-fails:{name}", dict(case, op=name), f"{name} on unrestricted {node.name} raised", "succeeds")
                rec.case(nt_key=nt_base + [name] if chain and sk else None,
                         classes=classes + (["skel_read_refused"] if sk else ["control_succeeds"] if not flags else []))
            # -- upward ops
            for name, fn in upward_ops(node, start):
                try:
                    res = fn()
                    raised = False
                except Exception:  # noqa: BLE001
                    res, raised = None, True
                if name == "zz_self_local_parent":
                    bad = [n for n in (res or []) if isinstance(n, str) and n.startswith("OUTSIDE:")]
                    if not raised and bad and node.name != "/":
                        rec.fail("C15:local-only-escaped:after-restricting-derived-node", dict(case, op=name),
                                 f"{node.name}.restrict(local_only=True) then .parent yielded {bad}", f"nothing above {node.name}")
                    rec.case(nt_key=nt_base + [name] if chain else None, classes=classes + ["local_upward_refused"])
                    continue
                if lo and not raised:
                    names = res if isinstance(res, list) else [res] if isinstance(res, str) else []
                    bad = [n for n in names if isinstance(n, str) and not within(n, start)]
                    if bad or res is True:
                        rec.fail(f"C15:local-only-escaped:{name}", dict(case, op=name), f"{name} from {node.name} yielded {bad or res}", f"nothing above {start}")
                if lo:
                    rec.case(nt_key=nt_base + [name] if chain else None, classes=classes + ["local_upward_refused"])
            if lo and snap(mc) != base and not ro:
                # abs_copy_dst / abs_setitem must have been refused
                now = snap(mc)
                ch = sorted(k for k in set(now) | set(base) if now.get(k) != base.get(k))
                if any(k.startswith("escaped") for k in ch):
                    rec.fail("C15:local-only-wrote-outside", case, f"created {ch}", "refused")
                mc.close()
                shutil.rmtree(d, ignore_errors=True)
                d = H.new_scratch("vt-c15-")
                mc = build(driver, d)
                base = snap(mc)
            elif not ro and snap(mc) != base:
                mc.close()
                shutil.rmtree(d, ignore_errors=True)
                d = H.new_scratch("vt-c15-")
                mc = build(driver, d)
                base = snap(mc)
        mc.close()
    finally:
        H.close_leaked_h5()
        shutil.rmtree(d, ignore_errors=True)


_templates = {}


def from_template(driver, d):
    """Fresh copy of the fixture container (built once per process and driver)."""
    if driver not in _templates:
        td = H.new_scratch("vt-c15t-")
        mc = build(driver, td)
        if driver == "h5":
            mc.close()
        else:
            mc.__wrapped__.close(commit=False)
        _templates[driver] = td
    for f in os.listdir(_templates[driver]):
        shutil.copy(os.path.join(_templates[driver], f), os.path.join(d, f))
    raw = h5py.File(os.path.join(d, "c.h5"), "r+") if driver == "h5" else IH5Record(os.path.join(d, "c"), "r+")
    return MetadorContainer(raw)


def run_control(driver, rec):
    """Unrestricted: the mutating ops used above do succeed (so 'everything raises' cannot pass vacuously)."""
    try:
        _run_control(driver, rec)
    finally:
        td = _templates.pop(driver, None)
        if td:
            shutil.rmtree(td, ignore_errors=True)


def _run_control(driver, rec):
    for start in STARTS:
        for chain in [()] + [(p,) for p in PRIMS if "+" not in p]:
            probe_d = H.new_scratch("vt-c15c-")
            try:
                mc = from_template(driver, probe_d)
                node = mc if start == "/" else mc[start]
                try:
                    for prim in chain:
                        node = navigate(node, prim)
                    if not hasattr(node, "acl"):
                        raise NA("not a container node")
                except NA:
                    mc.close()
                    continue
                names = [n for n, _ in mut_ops(node)]
                mc.close()
            finally:
                shutil.rmtree(probe_d, ignore_errors=True)
            for name in names:
                d = H.new_scratch("vt-c15c-")
                try:
                    mc = from_template(driver, d)
                    node = mc if start == "/" else mc[start]
                    for prim in chain:
                        node = navigate(node, prim)
                    fn = dict(mut_ops(node))[name]
                    expect_ok = not (name in ("attrs.create", "attrs.modify", "dataset.write_direct", "dataset.resize",
                                              "dataset.shape_assign", "dataset.copy_into_patch") or
                                     (name in ("__delitem__", "move", "copy", "copy_nometa") and len(node) == 0) or
                                     (name == "meta.__delitem__" and len(node.meta.keys()) == 0) or
                                     (name.startswith("meta.values.") or name.startswith("meta.items.")) and len(node.meta.keys()) == 0 or
                                     (name == "dataset.__setitem__" and not (driver == "h5" and node.name == "/g/h/d3")) or
                                     (driver != "h5" and name in ("attrs.update", "attrs.pop", "attrs.clear", "attrs.setdefault", "attrs.popitem")))
                    try:
                        fn()
                        okk = True
                    except Exception as e:  # noqa: BLE001
                        okk, err = False, f"{type(e).__name__}: {e}"
                    if expect_ok and not okk:
                        rec.fail(f"C15:control-mutation-fails:{name}", dict(driver=driver, start=start, chain=list(chain), op=name), err, "succeeds unrestricted")
                    if okk:
                        rec.case(nt_key=["control", driver, start, list(chain), name] if chain else None, classes=["control_succeeds"])
                    mc.close()
                except NA:
                    pass
                finally:
                    H.close_leaked_h5()
                    shutil.rmtree(d, ignore_errors=True)


def selfcheck():
    H.install_work_guard()


def plan(tier, seed):
    sh = []
    for driver in ("h5", "ih5"):
        for start in STARTS:
            for r in range(4):
                for late in (False, True):
                    sh.append(dict(name=f"{driver}-{start}-{r}-{'late' if late else 'early'}", kind="block", driver=driver, start=start, r=r, late=late))
        sh.append(dict(name=f"control-{driver}", kind="control", driver=driver))
    return sh


def run_shard(shard, tier, seed, rec):
    if shard["kind"] == "control":
        run_control(shard["driver"], rec)
        return
    maxlen = 2 if tier == "quick" else 3
    subsets = [c for n in range(4) for c in itertools.combinations(FLAGS, n)]
    for i, flags in enumerate(subsets):
        if i % 4 != shard["r"]:
            continue
        if shard["late"] and not flags:
            continue
        run_block(shard["driver"], shard["start"], set(flags), shard["late"], maxlen, rec)
    rec.exhaustive[f"chains_le{maxlen}_x_ops"] = True


def replay(rp, rec):
    case = rp["case"]
    tmp = __import__("vt.evidence", fromlist=["Rec"]).Rec("replay")
    if "flags" in case:
        run_block(case["driver"], case["start"], set(case["flags"]), case.get("late", False), max(1, len(case.get("chain", []))), tmp)
        for f in tmp.failures:
            if f["case"].get("chain") == case.get("chain") and f["signature"] == rp["signature"]:
                rec.fail(f["signature"], case, f["observed"], f["expected"])
    else:
        run_control(case["driver"], tmp)
        for f in tmp.failures:
            rec.fail(f["signature"], f["case"], f["observed"], f["expected"])
    rec.case()
