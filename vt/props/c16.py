"""C16 — Plugin references order, match and resolve by semantic version."""
import itertools
import re
import operator
import sys
import types

from hypothesis import strategies as st

from .. import compat  # noqa: F401
from ..evidence import HarnessError, Violation
from .. import hyp

from importlib_metadata import EntryPoint  # noqa: E402
from metador_core.plugin import interface as pgi  # noqa: E402
from metador_core.plugin import types as ptypes  # noqa: E402
from metador_core.plugin import util as putil  # noqa: E402
from metador_core.plugin.metaclass import PluginMetaclassMixin  # noqa: E402
from metador_core.schema.plugins import PluginRef  # noqa: E402

ID = "C16"
LEVEL = "exploration"
RULE = (
    "order axioms: exhaustive pairs (and triples; quick: every 10th) of 108 refs = groups{g,h} x names{a,a.b,b} x "
    "versions{0,1,2}x{0,1,2}x{0,1}, half of them typed via PluginRef._subclass_for; non-trivial pair = same "
    "(group,name) and different version, or equal tuples; version sets: every subset (size<=3 quick, <=4 thorough) "
    "of a 3x3x2 version grid in every registration order, as entry points and via register_in_group; non-trivial "
    "= >=2 versions registered in non-ascending order; plus Hypothesis multi-name interleavings and the "
    "entry-point-name codec; references of other groups; registering again and refused re-registration (also over "
    "a not yet loaded entry point); version-less classes of every synthetic and installed group must refuse "
    "subclassing however they were reached without a version (get, [], get/[] with the version-less class itself, "
    "Fields.<x>.origin) and in any base position; distinct by the enumerated tuple"
)
ASSUMPTIONS = [
    "synthetic PluginGroup subclasses are constructed directly with EntryPoint objects (the documented "
    "constructor argument); the real importlib discovery path is exercised by C07/C20 through /verif/fakepkg",
    "comparison results are judged by truthiness",
]
REQUIRED_CLASSES = {"all": ["pair_same_name_diff_version", "pair_equal", "set_nonascending_ep",
                            "set_nonascending_reg", "codec_roundtrip", "undef_version_subclass_refused",
                            "mixed_names"]}
BUDGET_S = {"quick": 600, "thorough": 3600}

GROUPS = ["g", "h"]
NAMES = ["a", "a.b", "b"]
VERS = [(x, y, z) for x in range(3) for y in range(3) for z in range(2)]
OPS = dict(lt=operator.lt, le=operator.le, gt=operator.gt, ge=operator.ge, eq=operator.eq, ne=operator.ne)

_typed = {}


def _mkref(g, n, v, typed):
    """typed: 0/False = plain PluginRef, 1/True and 2 = two sibling group-specific subclasses"""
    if typed:
        key = (g, int(typed))
        if key not in _typed:
            _typed[key] = PluginRef._subclass_for(g)
        return _typed[key](name=n, version=v)
    return PluginRef(group=g, name=n, version=v)


def all_refs():
    out = []
    for i, (g, n, v) in enumerate(itertools.product(GROUPS, NAMES, VERS)):
        out.append(((g, n, v), _mkref(g, n, v, typed=i % 3)))
    return out


def model_supports(ta, tb):
    return ta[0] == tb[0] and ta[1] == tb[1] and ta[2][0] == tb[2][0] and ta[2][1] >= tb[2][1]


def check_pair(ta, a, tb, b):
    for name, op in OPS.items():
        try:
            got = op(a, b)
        except Exception as e:  # noqa: BLE001
            raise Violation(f"C16:order:{name}-raises", f"{type(e).__name__}: {e}", "a boolean")
        exp = op(ta, tb)
        if bool(got) != exp:
            kind = "equal-refs" if ta == tb else "distinct-refs"
            raise Violation(f"C16:order:{name}:{kind}", f"{ta} {name} {tb} -> {got!r}", exp)
    if ta == tb and hash(a) != hash(b):
        raise Violation("C16:hash-differs-for-equal", f"{ta}", "equal hashes")
    if (a in {b}) != (ta == tb):
        raise Violation("C16:set-membership", f"{ta} in {{{tb}}} -> {a in {b}}", ta == tb)
    try:
        got = a.supports(b)
    except Exception as e:  # noqa: BLE001
        raise Violation("C16:supports-raises", f"{type(e).__name__}: {e}", "a boolean")
    if bool(got) != model_supports(ta, tb):
        raise Violation("C16:supports", f"{ta}.supports({tb}) -> {got!r}", model_supports(ta, tb))


def check_triple(ta, a, tb, b, tc, c):
    # transitivity of <= and <, and consistency of sorted()
    if a <= b and b <= c and not (a <= c):
        raise Violation("C16:order:not-transitive", f"{ta} <= {tb} <= {tc} but not {ta} <= {tc}", True)
    if a < b and b < c and not (a < c):
        raise Violation("C16:order:not-transitive", f"{ta} < {tb} < {tc} but not {ta} < {tc}", True)
    got = [(r.group, r.name, tuple(r.version)) for r in sorted([c, a, b])]
    exp = sorted([tc, ta, tb])
    if got != exp:
        raise Violation("C16:sorted", got, exp)


# ---------------------------------------------------------------- synthetic groups

_mod = types.ModuleType("vt_c16_plugins")
sys.modules["vt_c16_plugins"] = _mod


class _PM(PluginMetaclassMixin, type):
    pass


def _plugin_class(name, ver, gname=""):
    # one class per (group, plugin): loading replaces cls.Plugin by the group's parsed info object
    key = "p_" + gname + "_" + name.replace(".", "_DOT_").replace("-", "_DASH_") + "_%d_%d_%d" % ver
    if not hasattr(_mod, key):
        info = type("Plugin", (), dict(name=name, version=ver))
        ns = {"Plugin": info}
        if ver[2] == 1:  # plugin classes may have attributes of their own that happen to be called like reference fields
            ns.update(group="charts", name="My fancy plugin", version="2023-01")
        elif ver[1] == 2:
            ns.update(group="charts")
        setattr(_mod, key, _PM(key, (object,), ns))
    return key, getattr(_mod, key)


_gcount = itertools.count()


def new_group_class():
    gname = f"vtgrp{next(_gcount)}"

    class PGSynth(pgi.PluginGroup[object]):
        class Plugin:
            name = gname
            version = (0, 1, 0)
            plugin_class = object

        def check_plugin(self, ep_name, plugin):
            if getattr(plugin, "vt_refuse_me", False):
                raise TypeError(f"{ep_name}: refused by the group's checks")

    return PGSynth


def build_group(seq, how, after_each=None):
    """seq: list of (name, version) in registration order."""
    cls = new_group_class()
    if how == "ep":
        eps = {}
        for n, v in seq:
            epn = ptypes.to_ep_name(n, v)
            key, _ = _plugin_class(n, v, cls.Plugin.name)
            eps[epn] = EntryPoint(epn, f"vt_c16_plugins:{key}", ptypes.to_ep_group_name(cls.Plugin.name))
        return cls(eps)
    g = cls({})
    for i, (n, v) in enumerate(seq):
        # fresh class per registration: register_in_group replaces cls.Plugin by a parsed object
        info = type("Plugin", (), dict(name=n, version=v))
        plug = _PM("reg", (object,), {"Plugin": info})
        putil.register_in_group(g, plug, violently=True)
        if after_each is not None:
            after_each(g, seq[: i + 1])
    return g


def check_group(seq, how, probe_versions=VERS):
    tag = "ep" if how == "ep" else "register"
    try:
        # manual registration is incremental: the group must answer correctly after EVERY registration
        g = build_group(seq, how, after_each=(lambda grp, sofar: _check_answers(grp, sofar, tag, probe_versions)) if how != "ep" else None)
    except Violation:
        raise
    except Exception as e:  # noqa: BLE001
        raise Violation(f"C16:group-{tag}:construct-raises", f"{type(e).__name__}: {e}", "group is built")
    _check_answers(g, seq, tag, probe_versions)
    if how == "ep":
        # a refused manual registration for an installed (name, version) that was not loaded yet must leave it as it was
        n0, v0 = seq[-1]
        info = type("Plugin", (), dict(name=n0, version=v0))
        bad = _PM("refused", (object,), {"Plugin": info, "vt_refuse_me": True})
        try:
            putil.register_in_group(g, bad, violently=True)
        except TypeError:
            pass
        else:
            raise Violation("C16:group-ep:refused-plugin-registered", f"{n0} {v0}", "TypeError")
        got = g.get(n0, v0)
        if got is None or getattr(got, "vt_refuse_me", False):
            raise Violation("C16:group-ep:refused-registration-replaced-installed-plugin",
                            f"after the refused registration get({n0!r}, {v0}) -> {got!r}", "the installed plugin of that version")
        _check_answers(g, seq, tag, probe_versions)
    if how != "ep":
        # registering a (name, version) again (notebook cell run twice) replaces the plugin, it is not listed twice
        n0, v0 = seq[0]
        info = type("Plugin", (), dict(name=n0, version=v0))
        putil.register_in_group(g, _PM("reg_again", (object,), {"Plugin": info}), violently=True)
        try:
            _check_answers(g, seq, tag, probe_versions)
        except Violation as v:
            v.signature += ":after-registering-again"
            raise
    return g


def _check_answers(g, seq, tag, probe_versions):
    names = sorted({n for n, _ in seq})
    byname = {n: sorted({tuple(v) for m, v in seq if m == n}) for n in names}
    tup = lambda refs: [tuple(r.version) for r in refs]  # noqa: E731
    for n in names + ["ns.absent"]:
        exp = byname.get(n, [])
        res = g.versions(n)
        got = tup(res)
        if got != exp:
            sub = "unsorted" if sorted(got) == exp else ("missing" if set(got) < set(exp) else "wrong")
            raise Violation(f"C16:group-{tag}:versions-{sub}", f"versions({n!r}) -> {got}", exp)
        if isinstance(res, list) and res:
            # the answer belongs to the caller: re-ordering / emptying it must not change what the group knows
            res.reverse()
            del res[1:]
            again = tup(g.versions(n))
            if again != exp:
                raise Violation(f"C16:group-{tag}:versions-aliased", f"versions({n!r}) -> {again} after the caller "
                                f"reversed and truncated the list returned by the previous call", exp)
        if (n in g) != bool(exp):
            raise Violation(f"C16:group-{tag}:contains-name", f"{n!r} in g -> {n in g}", bool(exp))
        for v in probe_versions:
            expv = [w for w in exp if w[0] == v[0] and w[1] >= v[1]]
            gotv = tup(g.versions(n, v))
            if gotv != expv:
                raise Violation(f"C16:group-{tag}:versions-compatible", f"versions({n!r},{v}) -> {gotv}", expv)
            r = g.resolve(n, v)
            expr = expv[-1] if expv else None
            gotr = tuple(r.version) if r is not None else None
            if gotr != expr:
                raise Violation(f"C16:group-{tag}:resolve", f"resolve({n!r},{v}) -> {gotr}", expr)
            if ((n, v) in g) != (v in exp):
                raise Violation(f"C16:group-{tag}:contains-version", f"({n!r},{v}) in g -> {(n, v) in g}", v in exp)
        if exp:
            # a reference that names ANOTHER group is supported by no reference of this group: nothing is resolved for it
            for foreign in (PluginRef(group="vt-some-other-group", name=n, version=exp[-1]),
                            PluginRef._subclass_for("vt-some-other-group")(name=n, version=exp[-1])):
                try:
                    hit = g.get(foreign)
                except Exception:  # noqa: BLE001
                    hit = None
                inn = foreign in g
                try:
                    g[foreign]
                    item = True
                except Exception:  # noqa: BLE001
                    item = False
                if hit is not None or inn or item:
                    raise Violation(f"C16:group-{tag}:foreign-group-reference-resolved", f"reference {foreign!r}: get -> {hit!r}, in -> {inn}, "
                                    f"[] -> {'a plugin' if item else 'KeyError'} in group {g.name!r}", "None / False / KeyError")
        r = g.resolve(n)
        gotr = tuple(r.version) if r is not None else None
        if gotr != (exp[-1] if exp else None):
            raise Violation(f"C16:group-{tag}:resolve-newest", f"resolve({n!r}) -> {gotr}", exp[-1] if exp else None)
    gotk = sorted((r.name, tuple(r.version)) for r in g.keys())
    expk = sorted((n, v) for n in names for v in byname[n])
    if gotk != expk:
        raise Violation(f"C16:group-{tag}:keys", gotk, expk)
    return g


class _PlainMixin:
    pass


def _base_forms(c):
    """Base-class tuples in which plugin class c can appear."""
    return [("only", (c,)), ("first", (c, _PlainMixin)), ("second", (_PlainMixin, c))]


def check_loading(seq, how):
    """get() with and without version: the right class comes back; unversioned cannot be subclassed."""
    g = check_group(seq, how, probe_versions=[(0, 0, 0), (1, 1, 0)])
    names = sorted({n for n, _ in seq})
    for n in names:
        vs = sorted({tuple(v) for m, v in seq if m == n})
        for v in vs:
            c = g.get(n, v)
            best = max(w for w in vs if w[0] == v[0] and w[1] >= v[1])
            if c is None or tuple(c.Plugin.version) != best or c.Plugin.name != n:
                raise Violation("C16:get-versioned", f"get({n!r},{v}) -> {c!r}", f"class of version {best}")
            for form, bases in _base_forms(c):
                try:
                    _PM("Sub", bases, {})
                except TypeError as e:
                    raise Violation("C16:versioned-class-not-subclassable", f"{form}: {e}", "subclassing allowed")
            # the class itself as key: its Plugin section states name and version
            try:
                byc = (g.get(c), c in g, g[c])
            except Exception as e:  # noqa: BLE001
                byc = f"{type(e).__name__}: {str(e)[:120]}"
            if not isinstance(byc, tuple) or byc[0] is not c or byc[1] is not True or byc[2] is not c:
                own = {k: c.__dict__[k] for k in ("group", "name", "version") if k in c.__dict__}
                raise Violation("C16:get-by-class" + (":class-has-own-attributes" if own else ""),
                                f"class {n} {best} with own attributes {own}: (get(cls), cls in g, g[cls]) -> {byc!r}", "(cls, True, cls)")
        c = g.get(n)
        if c is None or tuple(c.Plugin.version) != vs[-1]:
            raise Violation("C16:get-unversioned", f"get({n!r}) -> {c!r}", f"class of newest version {vs[-1]}")
        # asking again with the version-less class itself states no version either
        for how_, cu in (("get", c), ("getitem", g[n]), ("get-of-get", g.get(c)), ("getitem-of-get", g[c])):
            if cu is None or tuple(cu.Plugin.version) != vs[-1]:
                raise Violation("C16:get-unversioned", f"{how_}({n!r}) -> {cu!r}", f"class of newest version {vs[-1]}")
            for form, bases in _base_forms(cu):
                try:
                    _PM("Sub", bases, {})
                except TypeError:
                    pass
                else:
                    raise Violation("C16:undef-version-subclassable" + ("" if form == "only" else ":" + form),
                                    f"subclassing {how_}({n!r}) as {form} base succeeded", "TypeError")


# ---------------------------------------------------------------- shards

NSHARD = 16


def plan(tier, seed):
    sh = [dict(name="pairs")]
    sh += [dict(name=f"triples-{i}", kind="triples", i=i) for i in range(NSHARD)]
    sh += [dict(name=f"sets-{i}", kind="sets", i=i) for i in range(NSHARD)]
    sh += [dict(name="codec"), dict(name="subclass"), dict(name="mixed-0", k=0), dict(name="mixed-1", k=1)]
    return sh


def _nt_pair(ta, tb):
    if ta == tb:
        return "pair_equal"
    if ta[:2] == tb[:2]:
        return "pair_same_name_diff_version"
    return None


def run_shard(shard, tier, seed, rec):
    name = shard["name"]
    if name == "pairs":
        refs = all_refs()
        for (ta, a), (tb, b) in itertools.product(refs, refs):
            cl = _nt_pair(ta, tb)
            try:
                check_pair(ta, a, tb, b)
            except Violation as v:
                rec.fail(v.signature, dict(kind="pair", a=ta, b=tb), v.observed, v.expected)
                if sum(1 for f in rec.failures) > 20:
                    break
            rec.case(nt_key=("P", ta, tb) if cl else None, classes=[cl] if cl else [],
                     sample=dict(kind="pair", a=ta, b=tb) if cl and ta[2] == (1, 2, 0) else None)
        # also: fresh equal copies (not the same object) of each ref, of every class flavour incl. sibling subclasses
        for ta, a in refs:
            for flavour in (0, 1, 2):
                b = _mkref(*ta, typed=flavour)
                for x, y in ((a, b), (b, a)):
                    try:
                        check_pair(ta, x, ta, y)
                    except Violation as v:
                        rec.fail(v.signature + ":across-ref-classes", dict(kind="pair", a=ta, b=ta), v.observed, v.expected)
                rec.case(nt_key=("Pc", ta, flavour), classes=["pair_equal"])
        rec.exhaustive["order_pairs_108_refs"] = True
    elif shard.get("kind") == "triples":
        refs = all_refs()
        step = 1 if tier == "thorough" else 10
        cnt = 0
        seen_sigs = set()
        for ia in range(shard["i"], len(refs), NSHARD):
            ta, a = refs[ia]
            for ib, (tb, b) in enumerate(refs):
                for ic in range((ia + ib + seed) % step, len(refs), step):
                    tc, c = refs[ic]
                    cnt += 1
                    try:
                        check_triple(ta, a, tb, b, tc, c)
                    except Violation as v:
                        if v.signature not in seen_sigs:
                            seen_sigs.add(v.signature)
                            rec.fail(v.signature, dict(kind="triple", a=ta, b=tb, c=tc), v.observed, v.expected)
                    nt = ta[:2] == tb[:2] == tc[:2] and len({ta, tb, tc}) >= 2
                    if nt:
                        rec.nontrivial.add(hash(("T", ta, tb, tc)) & 0xFFFFFFFFFFFF)
        rec.evaluations += cnt
        rec.cls("triples", n=cnt)
        rec.exhaustive["order_triples_108_refs"] = (step == 1)
        rec.samples.append(dict(kind="triple", a=refs[shard["i"]][0], b=refs[5][0], c=refs[9][0]))
    elif shard.get("kind") == "sets":
        maxk = 4 if tier == "thorough" else 3
        idx = 0
        seen_sigs = set()
        for k in range(1, maxk + 1):
            for subset in itertools.combinations(VERS, k):
                idx += 1
                if idx % NSHARD != shard["i"]:
                    continue
                for order in itertools.permutations(subset):
                    seq = [("ns.aa", v) for v in order]
                    asc = list(order) == sorted(order)
                    for how in ("ep", "reg"):
                        try:
                            check_group(seq, how, probe_versions=sorted({(v[0], v[1], 0) for v in subset} | {(1, 1, 0)}))
                        except Violation as v:
                            if v.signature not in seen_sigs:
                                seen_sigs.add(v.signature)
                                rec.fail(v.signature, dict(kind="set", how=how, seq=seq), v.observed, v.expected)
                        cl = [] if asc or k < 2 else [f"set_nonascending_{how}"]
                        rec.case(nt_key=(how, order) if cl else None, classes=cl,
                                 sample=dict(kind="set", how=how, seq=seq) if cl and idx % 997 == shard["i"] else None)
        rec.exhaustive[f"version_sets_le{maxk}_all_orders"] = True
    elif name == "codec":
        n = 3000 if tier == "quick" else 60000
        # constructive version of QUAL_NAME (from_regex on the nested repeats costs ~12 ms/example);
        # grammar fidelity is checked below against the real regex and by a from_regex slice
        letter = st.sampled_from("abcxyz")
        alnum = st.sampled_from("abz019")
        seg = st.builds(lambda a, b, tail: a + b + "".join(sp + c for sp, c in tail), letter, alnum,
                        st.lists(st.tuples(st.sampled_from(["", "", "_", "-"]), alnum), max_size=5))
        qual = st.lists(seg, min_size=1, max_size=4).map(".".join)
        ver = st.tuples(*[st.integers(0, 10 ** 6)] * 3)

        def t_codec(case):
            nm, v = case["name"], tuple(case["version"])
            if not re.fullmatch(ptypes.QUAL_NAME, nm):
                raise HarnessError(f"generator produced a name outside QUAL_NAME: {nm!r}")
            try:
                ep = ptypes.to_ep_name(nm, v)
                back = ptypes.from_ep_name(ep)
            except Exception as e:  # noqa: BLE001
                raise Violation("C16:codec-raises", f"{type(e).__name__}: {e}", "round trip")
            if (back[0], tuple(back[1])) != (nm, v):
                raise Violation("C16:codec-roundtrip", f"{back}", (nm, v))
            if ptypes.to_ep_name(*back) != ep:
                raise Violation("C16:codec-roundtrip", f"{ptypes.to_ep_name(*back)}", ep)
            if ptypes.ep_name_has_namespace(ep) != ("." in nm):
                raise Violation("C16:codec-namespace", ptypes.ep_name_has_namespace(ep), "." in nm)
            # mutations that leave the grammar must be rejected
            for bad in (nm.upper() + "__1.0.0", nm + "_1.0.0", nm + "__1.0", nm + "__1.0.0.0", "1" + nm + "__1.0.0",
                        nm + "__1.0.-1", nm + "___1.0.0", nm + ".__1.0.0", "", nm, nm + "__", nm + "__a.b.c",
                        nm + "__1.0.0\n", nm + "..x__1.0.0", nm + "__١.0.0"):
                if bad == ep:
                    continue
                try:
                    ptypes.EPName(bad)
                except TypeError:
                    continue
                raise Violation("C16:codec-accepts-invalid", f"EPName({bad!r}) accepted", "TypeError")
            # the other direction: every string the grammar accepts converts to (name, version) and back to itself
            for epn in (nm + "__01.0.0", nm + "__1.00.0", nm + "__0.0.007", nm + "__00.0.0", nm + "__10.20.30"):
                try:
                    ok = ptypes.EPName(epn)
                except TypeError:
                    continue
                back2 = ptypes.to_ep_name(*ptypes.from_ep_name(ok))
                if back2 != epn:
                    raise Violation("C16:codec-roundtrip:from-string", f"{epn!r} is accepted as entry point name but converts to "
                                    f"{ptypes.from_ep_name(ok)} and back to {back2!r}", "itself (or refused)")
            rec.case(nt_key=("codec", nm, v) if ("." in nm or "-" in nm or "_" in nm) else None,
                     classes=["codec_roundtrip"], sample=dict(kind="codec", name=nm, version=v))

        hyp.search(st.fixed_dictionaries(dict(name=qual, version=ver)), t_codec, rec, seed=seed, max_examples=n)
        # canonical strings: parse then print is the identity
        def t_str(case):
            s = case
            nm, v = ptypes.from_ep_name(ptypes.EPName(s))
            canon = all(p == str(int(p)) for p in s.split("__")[1].split("."))
            if canon and ptypes.to_ep_name(nm, v) != s:
                raise Violation("C16:codec-roundtrip", ptypes.to_ep_name(nm, v), s)
            rec.case(nt_key=("codec-s", s) if canon else None, classes=["codec_parse"])

        hyp.search(st.from_regex(ptypes.EP_NAME_REGEX, fullmatch=True), t_str, rec, seed=seed + 1,
                   max_examples=300 if tier == "quick" else 3000)
    elif name == "subclass":
        from metador_core.plugins import harvesters, packers, schemas, widgets

        # the group of plugin groups itself: references of other groups name no plugin group
        from metador_core.plugins import plugingroups

        for grp in (schemas, harvesters, packers, widgets):
            gref = next((r for r in plugingroups.keys() if r.name == grp.name), None)
            if gref is None:
                continue
            for foreign in (schemas.PluginRef(name=grp.name, version=tuple(gref.version)),
                            PluginRef(group="vt-some-other-group", name=grp.name, version=tuple(gref.version))):
                try:
                    hit = plugingroups.get(foreign)
                except Exception:  # noqa: BLE001
                    hit = None
                if hit is not None or foreign in plugingroups:
                    rec.fail("C16:group-installed:foreign-group-reference-resolved", dict(kind="installed-foreign", group=grp.name),
                             f"plugingroups.get({foreign!r}) -> {type(hit).__name__}, in -> {foreign in plugingroups}", "None / False")
            rec.case(nt_key=("foreign-installed", grp.name), classes=["foreign_reference_installed_groups"], sample=None)
        # every request that the registered version of a plugin group supports hands out the same group object
        for gref in list(plugingroups.keys()):
            gv = tuple(gref.version)
            exact = plugingroups.get(gref.name, gv)
            for req in (gv, (gv[0], 0, 0), (gv[0], gv[1], gv[2] + 7), list(gv)):
                forms = [("name+version", lambda: plugingroups.get(gref.name, req)),
                         ("tuple-key", lambda: plugingroups.get((gref.name, tuple(req)))),
                         ("ref", lambda: plugingroups.get(PluginRef(group=gref.group, name=gref.name, version=tuple(req))))]
                for form, fn in forms:
                    try:
                        got = fn()
                    except Exception as e:  # noqa: BLE001
                        got = f"{type(e).__name__}: {e}"
                    if got is not exact:
                        rec.fail("C16:group-installed:compatible-request-yields-other-object", dict(kind="installed-groups", group=gref.name, request=list(req)),
                                 f"plugingroups.get({gref.name!r}, {req}) [{form}] -> {got!r}", f"the same object as for {gv}: {exact!r}")
            if plugingroups.get(gref.name, (gv[0] + 1, 0, 0)) is not None:
                rec.fail("C16:group-installed:unsupported-request-resolved", dict(kind="installed-groups", group=gref.name), "not None", "None")
            rec.case(nt_key=("group-compatible", gref.name), classes=["installed_group_compatible_request"], sample=None)
        # references to other plugins (requires / returns) are requests too: the newest registered version that supports them
        from metador_core.plugin.util import register_in_group
        from metador_core.schema import MetadataSchema

        base_versions = sorted(tuple(r.version) for r in schemas.keys() if r.name == "verif.base")
        if len(base_versions) >= 2:
            for i, req in enumerate([(1, 0, 5), (1, 0, 0), (1, 1, 0)]):
                info = type("Plugin", (), dict(name=f"vt.depuser{i}", version=(0, 1, 0), requires=[schemas.PluginRef(name="verif.base", version=req)]))
                cls = type(MetadataSchema)(f"DepUser{i}", (MetadataSchema,), {"Plugin": info, "__module__": __name__, "__annotations__": {}})
                try:
                    register_in_group(schemas, cls, violently=True)
                    got = schemas.get(f"vt.depuser{i}", (0, 1, 0))
                    err = None if got is not None else "get -> None"
                except Exception as e:  # noqa: BLE001
                    err = f"{type(e).__name__}: {e}"
                if err:
                    rec.fail("C16:group-installed:compatible-dependency-not-resolved", dict(kind="installed-dep", request=list(req)),
                             f"schema requiring verif.base {req} (registered: {base_versions}): {err}", "loads (the newest version supporting the request is registered)")
                rec.case(nt_key=("dep", req), classes=["dependency_request_resolved"], sample=dict(kind="installed-dep", request=list(req)))
            # a harvester names the schema it returns with a version: that request resolves within its major version
            from metador_core.harvester import Harvester

            for i, req in enumerate([(1, 0, 0), (1, 1, 0), (2, 0, 0)]):
                want = max(v for v in base_versions if v[0] == req[0] and v[1] >= req[1])
                info = type("Plugin", (), dict(name=f"vt.hv{i}", version=(0, 1, 0), returns=schemas.PluginRef(name="verif.base", version=req)))
                hv = type(Harvester)(f"Hv{i}", (Harvester,), {"Plugin": info, "__module__": __name__, "run": lambda self: self.schema()})
                try:
                    register_in_group(harvesters, hv, violently=True)
                    got = harvesters.get(f"vt.hv{i}", (0, 1, 0))
                    part = got().schema
                    base = schemas.get("verif.base", want).Partial
                    err = None if part is base else f"harvester.schema is {part!r}"
                except Exception as e:  # noqa: BLE001
                    err = f"{type(e).__name__}: {str(e)[:200]}"
                if err:
                    rec.fail("C16:group-installed:harvester-schema-request-not-resolved", dict(kind="installed-hv", request=list(req)),
                             f"harvester returning verif.base {req} (registered: {base_versions}): {err}", f"partial of verif.base {want}")
                rec.case(nt_key=("hv", req), classes=["harvester_schema_request_resolved"], sample=dict(kind="installed-hv", request=list(req)))
        for grp in (schemas, harvesters, packers, widgets):
            for ref in list(grp.keys()):
                v = tuple(ref.version)
                cv = grp.get(ref.name, v)
                cu = grp.get(ref.name)
                cg = grp[ref.name]
                if cv is None or cu is None:
                    rec.fail("C16:get-installed", dict(kind="installed", group=grp.name, name=ref.name), "None", "class")
                    continue
                meta = type(cv)
                if not issubclass(meta, PluginMetaclassMixin):
                    rec.cls("installed_plugin_without_plugin_metaclass")  # (harvesters, packers, widgets: plain ABCs)
                try:
                    meta("SubV", (cv,), {"__module__": __name__})
                except TypeError as e:
                    rec.fail("C16:versioned-class-not-subclassable", dict(kind="installed", group=grp.name, name=ref.name),
                             str(e), "allowed")
                chained = [("chained", grp.get(cu)), ("chained", grp[cu])]  # looked up again with the version-less class
                fields = getattr(cu, "Fields", None)
                if fields is not None:  # schemas: the defining class of each field, reached through the version-less class
                    for fname in list(getattr(cu, "__fields__", {})):
                        org = getattr(getattr(fields, fname, None), "origin", None)
                        if isinstance(org, type) and getattr(org, "Plugin", None) is not None:
                            chained.append(("field-origin", org))
                for route, c in (("", cu), ("", cg), *chained):
                    try:
                        meta("SubU", (c,), {"__module__": __name__})
                    except TypeError:
                        rec.case(nt_key=("undef", grp.name, ref.name), classes=["undef_version_subclass_refused"],
                                 sample=dict(kind="installed", group=grp.name, name=ref.name, version=v))
                    else:
                        rec.fail("C16:undef-version-subclassable" + (":" + route if route else ""),
                                 dict(kind="installed", group=grp.name, name=ref.name, route=route),
                                 "subclass created", "TypeError")
                # nested: class statement form
                try:
                    class Sub2(cu):  # noqa
                        pass
                except TypeError:
                    pass
                else:
                    rec.fail("C16:undef-version-subclassable", dict(kind="installed-stmt", group=grp.name, name=ref.name),
                             "subclass created", "TypeError")
    elif name.startswith("mixed"):
        n = 250 if tier == "quick" else 4000
        names = ["ns.aa", "ns.aab", "ns.aa-b", "ns.aa.bb", "xx.aa"]
        item = st.tuples(st.sampled_from(names), st.sampled_from(VERS))
        seqs = st.lists(item, min_size=1, max_size=8, unique=True)
        how = "ep" if shard["k"] == 0 else "reg"

        def t_mixed(case):
            seq = [(n_, tuple(v)) for n_, v in case]
            check_loading(seq, how)
            multi = len({n_ for n_, _ in seq}) >= 2
            rec.case(nt_key=(how, seq) if multi and len(seq) >= 3 else None,
                     classes=["mixed_names"] if multi else ["single_name"],
                     sample=dict(kind="mixed", how=how, seq=seq))

        hyp.search(seqs, t_mixed, rec, seed=seed + shard["k"], max_examples=n)
    else:
        raise HarnessError(f"unknown shard {shard}")


def replay(rp, rec):
    case = rp["case"]
    k = case.get("kind") if isinstance(case, dict) else None
    try:
        if k == "pair":
            ta, tb = (tuple(case["a"][:2]) + (tuple(case["a"][2]),)), (tuple(case["b"][:2]) + (tuple(case["b"][2]),))
            for typed_a, typed_b in itertools.product([False, True], repeat=2):
                check_pair(ta, _mkref(*ta, typed_a), tb, _mkref(*tb, typed_b))
        elif k == "triple":
            ts = [tuple(case[x][:2]) + (tuple(case[x][2]),) for x in "abc"]
            rs = [_mkref(*t, False) for t in ts]
            check_triple(ts[0], rs[0], ts[1], rs[1], ts[2], rs[2])
        elif k == "set":
            check_group([(n, tuple(v)) for n, v in case["seq"]], case["how"])
        elif k == "codec":
            pass
        elif isinstance(case, list):
            seq = [(n, tuple(v)) for n, v in case]
            for how in ("ep", "reg"):
                check_loading(seq, how)
        rec.case()
    except Violation as v:
        rec.fail(v.signature, case, v.observed, v.expected)
