"""C04 — Only coherent, untampered file sets open as a record."""
import os
import random
import shutil
from pathlib import Path

from .. import compat  # noqa: F401
from .. import history as H
from .. import hyp, recutil
from ..evidence import HarnessError, Violation
from ..treemodel import diff_dumps, dump_real

ID = "C04"
LEVEL = "fault_enumeration"
RULE = (
    "valid records (1-6 containers, IH5Record and IH5MFRecord) built from generated C01-style histories; on a private "
    "copy one fault at a time: flip / insert / delete one payload byte (offset >= 1024) of any committed container at "
    "stratified positions (quick: 8 first, 8 last, 24 around the superblock, 24 random per file; thorough: EVERY "
    "position of every file), truncate / extend, remove any non-suffix subset of the chain, substitute a non-last "
    "container by the same-index container of an unrelated record or of a fork, add a fork sibling, pass a container "
    "twice under another name, IH5MF: flip a manifest byte, delete / replace the newest manifest by an older or a "
    "fork's one. Rejection side: open must raise. Acceptance side: the untouched set opens in shuffled order, every "
    "chain prefix opens and shows the reference tree at that commit, an IH5MF set opens as plain IH5Record. "
    "Non-trivial = fault on a non-last container of a >=3-container record, or a structural substitution; distinct by "
    "(operator, container index, position bucket, record shape)"
)
ASSUMPTIONS = ["user-block (first 1024 bytes) edits not asserted", "which exception is raised is not asserted",
               "manifests of non-newest containers are documented as not required",
               "multi-byte coordinated corruption (an adversary recomputing the hash) not enumerated"]
REQUIRED_CLASSES = {"all": ["flip", "insert", "delete_byte", "truncate", "extend", "missing_base", "missing_middle",
                            "foreign_substitute", "fork_substitute", "duplicate_container", "manifest_flip",
                            "manifest_missing", "manifest_older", "prefix_accepted", "fault_on_nonlast_of_ge3"]}
BUDGET_S = {"quick": 900, "thorough": 4 * 3600}
NSHARD = 16
UB = 1024


def build(case, cls, name="rec"):
    """-> (dir, files (ordered), snapshots[j] = reference tree after container j was committed)"""
    snaps = []

    def on_b(sess, kind):
        while len(snaps) < sess.target.commits:
            snaps.append(sess.tree.clone())

    sess = H.Session(lambda: H.IH5Target(cls, name), placement="generated", check_every=False, sig_prefix="C04",
                     on_boundary=on_b)
    try:
        sess.feed(case["history"])
        t = sess.target
        files = [str(p) for p in t.rec.ih5_files]
        t.rec.close()
        t.rec = None
        t.commits += 1
        snaps.append(sess.tree.clone())
        if len(snaps) != len(files):
            raise HarnessError(f"snapshot bookkeeping: {len(snaps)} snapshots for {len(files)} files")
        return sess, files, snaps
    except BaseException:
        sess.destroy()
        raise


def try_open(cls, files, by=None):
    """-> (opened?, detail). Never leaves handles open."""
    ids = H.open_h5_ids()
    try:
        r = cls([Path(f) for f in files] if by is None else by, "r")
    except Exception as e:  # noqa: BLE001
        H.close_leaked_h5(ids)
        return False, f"{type(e).__name__}: {str(e)[:120]}"
    try:
        return True, dump_real(r, crosscheck=False)
    except Exception as e:  # noqa: BLE001
        return True, f"opened, dump raised {type(e).__name__}"
    finally:
        r.close()


def expect_refused(cls, files, op, info, rec, cls_name, nfiles, idx=None, by=None):
    ok, det = try_open(cls, files, by)
    nonlast = idx is not None and idx < nfiles - 1 and nfiles >= 3
    if rec is not None:
        classes = [op] + (["fault_on_nonlast_of_ge3"] if nonlast else [])
        structural = op in ("foreign_substitute", "fork_substitute", "fork_sibling", "duplicate_container",
                            "missing_base", "missing_middle", "manifest_older", "manifest_fork")
        rec.case(nt_key=[cls_name, op, idx, info.get("bucket"), nfiles] if nonlast or structural else None, classes=classes,
                 sample=dict(op=op, container=idx, **{k: v for k, v in info.items() if k != "bucket"}, files=nfiles, cls=cls_name)
                 if (nonlast or structural) else None)
    if ok:
        raise Violation(f"C04:accepted:{op}", f"{op} {info} on container {idx} of {nfiles} ({cls_name}): opened, shows "
                        f"{str(det)[:200]}", "open raises")


def positions(size, tier, rng):
    if size <= UB:
        return []
    if tier == "thorough-all":
        return [(p, "all") for p in range(UB, size)]
    pts = [(UB + i, "first8") for i in range(8)] + [(size - 1 - i, "last8") for i in range(8)]
    pts += [(UB + 8 + i * 4, "superblock") for i in range(24) if UB + 8 + i * 4 < size]
    pts += [(rng.randrange(UB, size), "random") for _ in range(24)]
    return [(p, b) for p, b in pts if UB <= p < size]


def run_case(case, rec, tier="quick", all_positions=False):
    cls_name = case.get("cls", "IH5Record")
    cls = H.IH5Record if cls_name == "IH5Record" else H.IH5MFRecord
    rng = random.Random(case.get("rseed", 0))
    sess, files, snaps = build(case, cls)
    scratch = H.new_scratch("vt-c04-")
    other = fork = None
    try:
        src = sess.target.dir
        n = len(files)
        names = [os.path.basename(f) for f in files]
        mf = cls is H.IH5MFRecord

        def fresh():
            """private copy of the untouched set -> list of file paths (same order)"""
            for x in os.listdir(scratch):
                os.unlink(os.path.join(scratch, x))
            for x in os.listdir(src):
                shutil.copy(os.path.join(src, x), os.path.join(scratch, x))
            return [os.path.join(scratch, x) for x in names]

        # ---- acceptance side
        fs = fresh()
        sh = list(fs)
        rng.shuffle(sh)
        ok, det = try_open(cls, sh)
        if not ok or det != snaps[-1].dump():
            raise Violation("C04:valid-set-refused" if not ok else "C04:valid-set-wrong-view", str(det)[:300], "opens, shows last commit")
        ok, det = try_open(cls, None, by=os.path.join(scratch, "rec"))
        if not ok:
            raise Violation("C04:valid-set-refused:by-name", det, "opens")
        for k in range(1, n):
            keep = fs[:k]
            if mf and not os.path.exists(recutil.manifest_path(keep[-1])):
                raise Violation("C04:manifest-of-commit-missing", keep[-1], "manifest written at each commit")
            ok, det = try_open(cls, keep)
            if not ok:
                raise Violation("C04:valid-prefix-refused", f"first {k} of {n}: {det}", "opens")
            if det != snaps[k - 1].dump():
                raise Violation("C04:valid-prefix-wrong-view", diff_dumps(det, snaps[k - 1].dump()), "state at that commit")
            rec.case(classes=["prefix_accepted"])
        if mf:
            ok, det = try_open(H.IH5Record, fs)
            if not ok or det != snaps[-1].dump():
                raise Violation("C04:mf-set-refused-as-plain-record", str(det)[:200], "opens as IH5Record")
            rec.case(classes=["mf_as_plain_accepted"])

        # ---- byte-level faults (in place, restored afterwards)
        fs = fresh()
        for i, f in enumerate(fs):
            with open(f, "rb") as fh:
                data = fh.read()
            size = len(data)
            for p, bucket in positions(size, "thorough-all" if all_positions else tier, rng):
                mask = 1 << (p % 8) if bucket != "random" else rng.randrange(1, 256)
                with open(f, "r+b") as fh:
                    fh.seek(p)
                    fh.write(bytes([data[p] ^ mask]))
                try:
                    expect_refused(cls, fs, "flip", dict(pos=p, mask=mask, bucket=bucket), rec, cls_name, n, i)
                finally:
                    with open(f, "r+b") as fh:
                        fh.seek(p)
                        fh.write(data[p:p + 1])
            for op, newdata, info in (
                ("insert", lambda p: data[:p] + b"\x00" + data[p:], None), ("delete_byte", lambda p: data[:p] + data[p + 1:], None),
            ):
                for p in sorted({UB, UB + 1, size - 1, rng.randrange(UB, size), rng.randrange(UB, size)}):
                    with open(f, "wb") as fh:
                        fh.write(newdata(p))
                    try:
                        expect_refused(cls, fs, op, dict(pos=p, bucket="b%d" % (p * 4 // size)), rec, cls_name, n, i)
                    finally:
                        with open(f, "wb") as fh:
                            fh.write(data)
            for k in (1, 2, 8, 512, size - UB - 1):
                if 0 < k < size - UB:
                    with open(f, "wb") as fh:
                        fh.write(data[:size - k])
                    try:
                        expect_refused(cls, fs, "truncate", dict(by=k, bucket="k%d" % min(k, 9)), rec, cls_name, n, i)
                    finally:
                        with open(f, "wb") as fh:
                            fh.write(data)
            for tail in (b"\x00", b"\xff", b"\x00" * 512, data[-16:]):
                with open(f, "ab") as fh:
                    fh.write(tail)
                try:
                    expect_refused(cls, fs, "extend", dict(by=len(tail), bucket="t%d" % min(len(tail), 9)), rec, cls_name, n, i)
                finally:
                    with open(f, "wb") as fh:
                        fh.write(data)
        ok, det = try_open(cls, fs)
        if not ok:
            raise HarnessError(f"restored set does not open any more: {det}")

        # ---- structural faults
        if n >= 2:
            expect_refused(cls, fs[1:], "missing_base", {}, rec, cls_name, n, 0)
            if n >= 3:
                for j in range(1, n - 1):
                    expect_refused(cls, fs[:j] + fs[j + 1:], "missing_middle", dict(removed=j), rec, cls_name, n, j)
                expect_refused(cls, [fs[0], fs[-1]], "missing_middle", dict(removed="all middle"), rec, cls_name, n, 1)
        # duplicate container under another name
        for j in range(n):
            dup = os.path.join(scratch, f"dup{j}.ih5")
            shutil.copy(fs[j], dup)
            if mf:
                shutil.copy(recutil.manifest_path(fs[j]), recutil.manifest_path(dup))
            expect_refused(cls, fs + [dup], "duplicate_container", dict(of=j), rec, cls_name, n, j)
            if j < n - 1:
                expect_refused(cls, fs[:j + 1] + [dup] + fs[j + 1:], "duplicate_container", dict(of=j, where="middle"), rec, cls_name, n, j)
            os.unlink(dup)
        # edited chain headers (payload and its hashsum untouched): duplicated patch_uuid with the successor relinked,
        # prev_patch pointing at another container, duplicated / skipped patch_index
        if n >= 2:
            from metador_core.ih5.record import IH5UserBlock

            ubs = [IH5UserBlock.load(f) for f in fs]
            for j in range(1, n):
                for i in sorted({0, j - 1, max(0, j - 2)}):
                    fs = fresh()
                    ub = IH5UserBlock.load(fs[j])
                    ub.patch_uuid = ubs[i].patch_uuid
                    ub.save(fs[j])
                    if j + 1 < n:
                        nx = IH5UserBlock.load(fs[j + 1])
                        nx.prev_patch = ubs[i].patch_uuid
                        nx.save(fs[j + 1])
                    expect_refused(cls, fs, "header_dup_patch_uuid", dict(uuid_of=i, bucket="adjacent" if i == j - 1 else "distant"),
                                   rec, cls_name, n, j)
                for i in range(n):
                    if i == j - 1:
                        continue
                    fs = fresh()
                    ub = IH5UserBlock.load(fs[j])
                    ub.prev_patch = ubs[i].patch_uuid
                    ub.save(fs[j])
                    expect_refused(cls, fs, "header_prev_patch", dict(points_at=i), rec, cls_name, n, j)
                for newidx, b in ((ubs[j].patch_index - 1, "same_as_previous"), (ubs[j].patch_index + 1, "skips_one")):
                    if b == "skips_one" and j + 1 < n:
                        continue  # (would equal the successor's index: covered by same_as_previous there)
                    fs = fresh()
                    ub = IH5UserBlock.load(fs[j])
                    ub.patch_index = newidx
                    ub.save(fs[j])
                    if b == "skips_one":
                        # a lone skipped index at the end is still an ascending chain with intact links: the statement's
                        # "gap-free" is about missing containers, which this is not -> only the duplicate index is asserted
                        continue
                    expect_refused(cls, fs, "header_patch_index", dict(bucket=b), rec, cls_name, n, j)
            fs = fresh()
        # unrelated record built from the same history
        osess, ofiles, _ = build(case, cls, "rec")
        other = osess
        if n >= 2:
            for j in range(n):
                mixed = list(fs)
                mixed[j] = ofiles[j]
                expect_refused(cls, mixed, "foreign_substitute", dict(at=j), rec, cls_name, n, j)
            expect_refused(cls, fs + [ofiles[-1]], "foreign_substitute", dict(extra="foreign last patch"), rec, cls_name, n, n - 1)
        # fork: copy of the first k containers continued differently
        if n >= 2:
            for k in sorted({1, n - 1}):
                fd = H.new_scratch("vt-c04f-")
                try:
                    for x in names[:k]:
                        shutil.copy(os.path.join(src, x), os.path.join(fd, x))
                        if mf:
                            shutil.copy(os.path.join(src, x + "mf.json"), os.path.join(fd, x + "mf.json"))
                    fr = cls(os.path.join(fd, "rec"), "r+")
                    fr["forked"] = k
                    fr.close()
                    fpatch = os.path.join(fd, names[k]) if k < n else None
                    if not os.path.exists(fpatch):
                        raise HarnessError(f"fork patch not at expected name {fpatch}")
                    if k < n - 1:
                        mixed = list(fs)
                        mixed[k] = fpatch
                        expect_refused(cls, mixed, "fork_substitute", dict(at=k), rec, cls_name, n, k)
                    expect_refused(cls, fs + [fpatch], "fork_sibling", dict(at=k), rec, cls_name, n, k)
                    if mf:
                        # the fork's manifest in place of the real newest one
                        fs2 = fresh()
                        shutil.copy(recutil.manifest_path(fpatch), recutil.manifest_path(fs2[-1]))
                        expect_refused(cls, fs2, "manifest_fork", {}, rec, cls_name, n, n - 1)
                        fs = fresh()
                finally:
                    shutil.rmtree(fd, ignore_errors=True)
        # ---- manifest faults (newest manifest)
        if mf:
            fs = fresh()
            mp = recutil.manifest_path(fs[-1])
            with open(mp, "rb") as fh:
                mdata = fh.read()
            for p in sorted({0, 1, len(mdata) // 2, len(mdata) - 2, len(mdata) - 1} | {rng.randrange(len(mdata)) for _ in range(6)}):
                with open(mp, "wb") as fh:
                    fh.write(mdata[:p] + bytes([mdata[p] ^ 0x01]) + mdata[p + 1:])
                expect_refused(cls, fs, "manifest_flip", dict(pos=p, bucket="m%d" % (p * 4 // len(mdata))), rec, cls_name, n, n - 1)
            with open(mp, "wb") as fh:
                fh.write(mdata + b"\n")
            expect_refused(cls, fs, "manifest_flip", dict(append="newline", bucket="app"), rec, cls_name, n, n - 1)
            os.unlink(mp)
            expect_refused(cls, fs, "manifest_missing", {}, rec, cls_name, n, n - 1)
            ok, det = try_open(cls, None, by=os.path.join(scratch, "rec"))
            if ok:
                raise Violation("C04:accepted:manifest_missing", "by name", "open raises")
            if n >= 2:
                shutil.copy(recutil.manifest_path(fs[-2]), mp)
                expect_refused(cls, fs, "manifest_older", {}, rec, cls_name, n, n - 1)
    finally:
        shutil.rmtree(scratch, ignore_errors=True)
        sess.destroy()
        if other is not None:
            other.destroy()
        H.close_leaked_h5()


def selfcheck():
    H.install_work_guard()


def plan(tier, seed):
    return [dict(name=f"rec-{i}", i=i) for i in range(NSHARD)]


def run_shard(shard, tier, seed, rec):
    H.install_work_guard()
    from hypothesis import strategies as st

    i = shard["i"]
    n = {"quick": 20, "thorough": 60}[tier]
    cls_name = "IH5Record" if i % 2 == 0 else "IH5MFRecord"
    allpos = tier == "thorough" and i < 4
    strat = st.builds(lambda h, r: dict(history=h, cls=cls_name, rseed=r),
                      H.histories(3, 14 if not allpos else 8, boundary_weight=3), st.integers(0, 10 ** 6))
    hyp.search(strat, lambda c: run_case(c, rec, tier, all_positions=allpos), rec, seed=seed * 1000 + i,
               max_examples=n if not allpos else 12, shrink_budget_s=20 if tier == "quick" else 60)
    if allpos:
        rec.exhaustive["every_payload_position_of_each_generated_record"] = True


def replay(rp, rec):
    H.install_work_guard()
    try:
        run_case(rp["case"], rec, "quick")
    except Violation as v:
        rec.fail(v.signature, rp["case"], v.observed, v.expected)
