"""C14 — Merging partial metadata is a lossless, associative, non-mutating monoid."""
import copy
import json
import os
import sys
import shutil
from pathlib import Path

from hypothesis import strategies as st
from pydantic import Extra, BaseModel, ValidationError

from .. import compat  # noqa: F401
from .. import hyp
from .. import schemagen as G
from ..evidence import HarnessError, Violation
from ..history import new_scratch

from metador_core.harvester import metadata_loader  # noqa: E402
from metador_core.schema.partial import PartialModel  # noqa: E402

ID = "C14"
LEVEL = "exploration"
RULE = (
    "schema classes: Hypothesis-generated (optional primitives incl. 0/False/empty collections, lists, sets, nested and "
    "self-recursive models, inheritance) and all installed schemas; triples (a,b,c) of partials obtained by parse_obj, "
    "parse_raw(JSON), parse_raw(YAML), a MetadataLoader harvester reading a file, to_partial(complete object) and (for "
    "core.file) the FileMetaHarvester. Two generators: 'split' distributes the leaves of one valid recipe over a,b,c "
    "(conflict-free by construction, so associativity and losslessness are exercised) and 'independent' draws three "
    "recipes (conflicts). Oracles: identity laws with the empty partial, associativity, operands deep-equal to "
    "snapshots, a reference merge written from the documented rule (lists concatenate, sets unite, models merge "
    "recursively, None is missing), every provided leaf present in the result, conflicts raise ValueError without "
    "overwrite and the later value wins with it, to_partial/from_partial round trip; any other exception is a "
    "violation. Variant overlap: the same data three times by different ways of obtaining it (mixed provenance at every "
    "nested position); probes: nested objects made with version-less class handles, recursion through a subclass, "
    "exhaustive class/subclass operand pairs at one nested position with disjoint fields (no raise, union of values, associative). "
    "Non-trivial = triple with >=1 falsy provided leaf, or a nested model on >=2 sides, or >=2 origins; "
    "distinct by (class shape, origins, recipes)"
)
ASSUMPTIONS = ["associativity only where the classes at one nested position are identical or an inheritance chain "
               "(unrelated sibling classes in one Union position are not generated)",
               "two equal scalar values at one position: both 'raises ValueError' and 'keeps the value' are accepted",
               "not asserted: __fields_set__ of results; ignore_invalid=True"]
REQUIRED_CLASSES = {"all": ["falsy_leaf", "nested_both_sides", "origin_json", "origin_yaml", "origin_loader", "origin_complete",
                            "origin_harvester", "conflict_raises", "overwrite_later_wins", "assoc_checked", "roundtrip_complete",
                            "installed", "generated", "cross_class_operand", "nested_chain_subclass_left"]}
BUDGET_S = {"quick": 900, "thorough": 3 * 3600}


# ---------------------------------------------------------------- values of partial objects

def vals(obj):
    """Provided (non-None, public, non-constant) field values of a (partial or complete) model, as plain data."""
    consts = getattr(obj, "__constants__", {}) or {}
    out = {}
    for k, v in obj.__dict__.items():
        if k.startswith("_") or v is None or k in consts:
            continue
        out[k] = conv(v)
    return ("M", out, getattr(type(obj), "__partial_src__", type(obj)))


def conv(v):
    if isinstance(v, BaseModel):
        return vals(v)
    if isinstance(v, list):
        return ("L", [conv(x) for x in v])
    if isinstance(v, (set, frozenset)):
        return ("S", sorted((conv(x) for x in v), key=repr))
    if isinstance(v, tuple):
        return ("T", [conv(x) for x in v])
    return ("V", v)


class Conflict(Exception):
    pass


def ref_merge(x, y, overwrite, info):
    """Reference merge of converted values, from the rule text of the partial module."""
    if x is None:
        return y
    if y is None:
        return x
    kx, ky = x[0], y[0]
    if kx == "L" and ky == "L":
        return ("L", x[1] + y[1])
    if kx == "S" and ky == "S":
        seen, out = set(), []
        for e in x[1] + y[1]:
            if repr(e) not in seen:
                seen.add(repr(e))
                out.append(e)
        return ("S", sorted(out, key=repr))
    if kx == "M" and ky == "M":
        cx, cy = x[2], y[2]
        if not (issubclass(cx, cy) or issubclass(cy, cx)):
            # unrelated sibling classes at one position: the documented rule "otherwise the new value overwrites" is
            # order-dependent itself; outside the claimed domain -> the whole case is only checked for crashes
            info["siblings"] = True
            raise Conflict()
        info["nested"] = info.get("nested", 0) + 1
        return ("M", {k: ref_merge(x[1].get(k), y[1].get(k), overwrite, info) for k in {**x[1], **y[1]}
                      if ref_merge(x[1].get(k), y[1].get(k), overwrite, info) is not None}, cx)
    # opaque values
    if kx != ky or kx == "M":
        # a model meets a scalar / collection at one position (Union field): "the new value overwrites" is
        # order-dependent here, so associativity is not claimed for such a triple
        info["mixed"] = True
    if _veq(x, y):
        info["equal_scalar"] = True
        return y
    if not overwrite:
        raise Conflict()
    return y


def _veq(x, y):
    try:
        return bool(x == y)
    except Exception:  # noqa: BLE001
        return repr(x) == repr(y)


def leaves(c, path=()):
    """All provided leaves (path, value) of a converted value; containers themselves count when empty."""
    k = c[0]
    if k == "M":
        out = []
        for f, v in c[1].items():
            out += leaves(v, path + (f,))
        return out
    if k in ("L", "S"):
        return [(path, ("item", repr(e))) for e in c[1]] + ([(path, ("empty", k))] if not c[1] else [])
    return [(path, ("v", repr(c[1])))]


def has_falsy(c):
    k = c[0]
    if k == "M":
        return any(has_falsy(v) for v in c[1].values())
    if k in ("L", "S"):
        return not c[1] or any(has_falsy(e) for e in c[1])
    return k == "V" and (c[1] is False or (isinstance(c[1], (int, float, str)) and not c[1]))


# ---------------------------------------------------------------- building partials from recipes

def to_yaml(recipe):
    # written with the YAML 1.2 library family the code under test parses with (PyYAML is YAML 1.1 and leaves e.g.
    # the string "1e3" unquoted, which YAML 1.2 reads as a float)
    import io

    from ruamel.yaml import YAML

    y = YAML(typ="safe")
    y.default_flow_style = False
    y.allow_unicode = True
    buf = io.StringIO()
    y.dump(recipe, buf)
    return buf.getvalue()


def make_partial(cls, recipe, origin, scratch):
    P = cls.Partial
    if origin == "obj":
        return P.parse_obj(G.realize(recipe))
    if origin == "json":
        return P.parse_raw(json.dumps(recipe))
    if origin == "yaml":
        return P.parse_raw(to_yaml(recipe))
    if origin == "loader":
        p = os.path.join(scratch, "meta.yaml")
        with open(p, "w") as f:
            f.write(to_yaml(recipe))
        return metadata_loader(cls)(filepath=Path(p)).harvest()
    if origin == "complete":
        return P.to_partial(cls.parse_obj(G.realize(recipe)))
    raise HarnessError(origin)


def split3(recipe, cls, choices):
    """Distribute the leaves of one recipe over three partial recipes (conflict-free)."""
    it = iter(choices * 50 + [0] * 500)
    out = [{}, {}, {}]
    for key, v in recipe.items():
        f = next((fl for fl in cls.__fields__.values() if fl.alias == key or fl.name == key), None)
        nested_cls = f.type_ if f is not None and G._is_model(f.type_) and f.outer_type_ is f.type_ else None
        ch = next(it)
        if nested_cls is not None and isinstance(v, dict) and getattr(nested_cls, "Parser", None) is None:
            parts = split3(v, nested_cls, [next(it) for _ in range(6)])
            for i in range(3):
                if parts[i] or (ch + i) % 4 == 0:
                    out[i][key] = parts[i]
        elif isinstance(v, list) and f is not None and f.shape != 1:
            a, b = sorted([ch % (len(v) + 1), next(it) % (len(v) + 1)])
            pieces = [v[:a], v[a:b], v[b:]]
            for i in range(3):
                if pieces[i] or (ch + i) % 3 == 0:
                    out[i][key] = pieces[i]
        else:
            out[ch % 3][key] = v
    return out


def check_triple(cls, recipes, origins, overwrite, mode, rec=None, sample=None, extra_partials=()):
    scratch = new_scratch("vt-c14-")
    classes = set()
    try:
        P = cls.Partial
        parts = []
        for r, o in zip(recipes, origins):
            try:
                parts.append(make_partial(cls, r, o, scratch))
            except (ValidationError, ValueError, TypeError) as e:
                if o in ("json", "yaml", "loader"):
                    # the same recipe must be accepted or rejected by every way of parsing it
                    try:
                        make_partial(cls, r, "obj", scratch)
                    except (ValidationError, ValueError, TypeError):
                        pass
                    else:
                        raise Violation(f"C14:origin-rejects-what-parse_obj-accepts:{o}", f"{type(e).__name__}: {str(e)[:200]} for {json.dumps(r)[:200]}",
                                        "same partial from dict, JSON, YAML and metadata file")
                if rec is not None:
                    rec.cls("rejected_at_construction")
                return
        parts = list(extra_partials) + parts
        parts = parts[-3:]
        a, b, c = parts
        snaps = [copy.deepcopy(x) for x in parts]
        csnaps = [vals(x) for x in parts]
        e = P()
        tag = f"{mode} {origins} overwrite={overwrite}"

        def merge(*xs):
            try:
                return P.merge(*xs, allow_overwrite=overwrite)
            except ValueError as ex:
                if isinstance(ex, ValidationError):
                    raise Violation("C14:merge-raises:ValidationError", f"{tag}: {str(ex)[:300]}", "merge of valid partials")
                raise Conflict()
            except Conflict:
                raise
            except Exception as ex:  # noqa: BLE001
                raise Violation(f"C14:merge-raises:{type(ex).__name__}", f"{tag}: {type(ex).__name__}: {str(ex)[:300]}",
                                "only ValueError on conflicts")

        # identity laws
        for i, x in enumerate(parts):
            cx = csnaps[i]
            try:
                le, ri = merge(e, x), merge(x, e)
            except Conflict:
                raise Violation("C14:identity-raises-conflict", tag, "empty partial is neutral")
            if vals(le) != cx:
                sub = "falsy-leaf" if has_falsy(cx) else "other"
                raise Violation(f"C14:left-identity:{sub}", f"merge(e,x) = {_show(vals(le))} for x = {_show(cx)}", "x")
            if vals(ri) != cx:
                sub = "falsy-leaf" if has_falsy(cx) else "other"
                raise Violation(f"C14:right-identity:{sub}", f"merge(x,e) = {_show(vals(ri))} for x = {_show(cx)}", "x")
        # reference result
        info = {}
        try:
            exp_ab = ref_merge(csnaps[0], csnaps[1], overwrite, info)
            exp = ref_merge(exp_ab, csnaps[2], overwrite, info)
            exp_conflict = False
        except Conflict:
            exp, exp_conflict = None, True
        try:
            exp_bc = ref_merge(csnaps[1], csnaps[2], overwrite, {})
            exp_r = ref_merge(csnaps[0], exp_bc, overwrite, {})
            exp_r_conflict = False
        except Conflict:
            exp_r_conflict = True
        got = got_r = None
        try:
            got = merge(merge(a, b), c)
            got_conflict = False
        except Conflict:
            got_conflict = True
        try:
            got_r = merge(a, merge(b, c))
            got_r_conflict = False
        except Conflict:
            got_r_conflict = True
        try:
            got_flat = merge(a, b, c)
            flat_conflict = False
        except Conflict:
            flat_conflict = True
        eqs = info.get("equal_scalar", False)
        if info.get("siblings"):
            if rec is not None:
                rec.cls("skipped_unrelated_sibling_models")
            return
        if exp_conflict and not got_conflict:
            raise Violation("C14:conflict-silently-resolved", f"{tag}: (a+b)+c = {_show(vals(got))} for a={_show(csnaps[0])} "
                            f"b={_show(csnaps[1])} c={_show(csnaps[2])}", "ValueError (allow_overwrite=False)")
        if got_conflict and not exp_conflict and not eqs:
            raise Violation("C14:spurious-conflict", f"{tag}: a={_show(csnaps[0])} b={_show(csnaps[1])} c={_show(csnaps[2])}", "merge succeeds")
        if not got_conflict and not exp_conflict:
            if vals(got) != exp:
                gl = leaves(vals(got))
                gp = {p[:i] for p, _ in gl for i in range(1, len(p) + 1)}
                lost = [lf for lf in leaves(csnaps[0]) + leaves(csnaps[1]) + leaves(csnaps[2])
                        if lf not in gl and not (lf[1][0] == "empty" and lf[0] in gp)]
                sub = "value-lost" if lost and not overwrite else ("list-order" if _same_items(vals(got), exp) else "wrong")
                sub += ":falsy" if sub == "value-lost" and any(has_falsy(x) for x in csnaps) else ""
                raise Violation(f"C14:merge-result:{sub}", f"{tag}: got {_show(vals(got))} expected {_show(exp)}; lost {lost[:4]}", "reference merge")
            if got_flat is not None and not flat_conflict and vals(got_flat) != exp:
                raise Violation("C14:merge-varargs-differs", f"{tag}: {_show(vals(got_flat))}", _show(exp))
            if not overwrite:
                have = leaves(vals(got))
                have_paths = {p[:i] for p, _ in have for i in range(1, len(p) + 1)}
                for src in csnaps:
                    for lf in leaves(src):
                        ok = lf in have or (lf[1][0] == "empty" and lf[0] in have_paths)
                        if not ok:
                            raise Violation("C14:merge-result:value-lost" + (":falsy" if has_falsy(src) else ""),
                                            f"{tag}: leaf {lf} of an operand is missing in {_show(vals(got))}", "lossless")
            else:
                classes.add("overwrite_later_wins")
        info_r = {}
        try:
            ref_merge(csnaps[0], ref_merge(csnaps[1], csnaps[2], overwrite, info_r), overwrite, info_r)
        except Conflict:
            pass
        mixed = info.get("mixed") or info_r.get("mixed") or info_r.get("siblings")
        if mixed:
            classes.add("mixed_kinds_at_one_position")
        if not mixed and not got_conflict and not got_r_conflict and not exp_conflict and not exp_r_conflict:
            classes.add("assoc_checked")
            if vals(got) != vals(got_r):
                raise Violation("C14:not-associative", f"{tag}: (a+b)+c = {_show(vals(got))} but a+(b+c) = {_show(vals(got_r))} "
                                f"for a={_show(csnaps[0])} b={_show(csnaps[1])} c={_show(csnaps[2])}", "equal")
        elif not mixed and not eqs and (got_conflict != got_r_conflict) and not overwrite and exp_conflict == exp_r_conflict:
            raise Violation("C14:not-associative:conflict", f"{tag}: (a+b)+c conflict={got_conflict}, a+(b+c) conflict={got_r_conflict}", "same")
        if exp_conflict and got_conflict:
            classes.add("conflict_raises")
        # the same with ignore_invalid=True (what harvest() can be asked to do): valid operands give the same result, an
        # operand given as plain data is left alone as well
        if not got_conflict and got is not None:
            plain = json.loads(b.json(exclude_none=True)) if hasattr(b, "json") else None
            if isinstance(plain, dict):  # (constant fields are optional on input)
                plain = {k: v for k, v in plain.items() if not k.startswith("@")}
            plain_before = copy.deepcopy(plain)
            try:
                gi = P.merge(a, b, c, allow_overwrite=overwrite, ignore_invalid=True)
                gd = P.merge(a, plain, c, allow_overwrite=overwrite, ignore_invalid=True) if plain is not None else None
            except ValueError as ex:
                if isinstance(ex, ValidationError):
                    raise Violation("C14:merge-raises:ValidationError:ignore-invalid", f"{tag}: {str(ex)[:300]}", "as without the flag")
                gi = gd = None
            except Exception as ex:  # noqa: BLE001
                raise Violation(f"C14:merge-raises:{type(ex).__name__}:ignore-invalid", f"{tag}: {type(ex).__name__}: {str(ex)[:300]}",
                                "valid operands merge with ignore_invalid=True as they do without")
            if gi is not None and vals(gi) != vals(got):
                raise Violation("C14:ignore-invalid-changes-result", f"{tag}: {_show(vals(gi))}", _show(vals(got)))
            if plain != plain_before:
                raise Violation("C14:operand-mutated:plain-data:ignore-invalid", f"{tag}: {plain_before} -> {plain}", "unchanged")
            classes.add("ignore_invalid_checked")
        # operands untouched
        for i, x in enumerate(parts):
            if vals(x) != csnaps[i] or not _veq(x, snaps[i]):
                raise Violation("C14:operand-mutated", f"{tag}: operand {i} changed: {_show(csnaps[i])} -> {_show(vals(x))}", "unchanged")
        if rec is not None:
            if any(has_falsy(x) for x in csnaps):
                classes.add("falsy_leaf")
            if info.get("nested"):
                classes.add("nested_both_sides")
            for o in origins:
                classes.add(f"origin_{o}")
            classes.add(mode)
            nt = "falsy_leaf" in classes or "nested_both_sides" in classes or len(set(origins)) >= 2
            rec.case(nt_key=[sample.get("tag") if sample else "", origins, recipes, overwrite] if nt else None,
                     classes=sorted(classes) + ([sample["kind"]] if sample else []), sample=sample if nt else None)
    finally:
        shutil.rmtree(scratch, ignore_errors=True)


def _same_items(a, b):
    return sorted(map(repr, leaves(a))) == sorted(map(repr, leaves(b)))


def _show(c, n=400):
    def s(c):
        k = c[0]
        if k == "M":
            return {f: s(v) for f, v in c[1].items()}
        if k in ("L", "T"):
            return [s(e) for e in c[1]]
        if k == "S":
            return {"$set": [s(e) for e in c[1]]}
        return c[1]

    try:
        return repr(s(c))[:n]
    except Exception:  # noqa: BLE001
        return repr(c)[:n]


def plain(c):
    """Converted value without the class tags (the same data held by a parent-class and a child-class partial)."""
    k = c[0]
    if k == "M":
        return ("M", {f: plain(v) for f, v in c[1].items()})
    if k in ("L", "S", "T"):
        return (k, [plain(e) for e in c[1]])
    return c


def check_cross_class(cls, recipes, overwrite, rec=None):
    """Partials of a parent schema (also results of a merge) used as operands of the child schema's partial:
    nothing they provide may get lost when they are cast to the child's partial class."""
    parent = next((c for c in cls.__mro__[1:] if isinstance(c, type) and issubclass(c, BaseModel) and
                   getattr(c, "__fields__", None) and hasattr(c, "Partial") and c.__name__ not in ("MetadataSchema", "SchemaBase", "LDSchema")), None)
    if parent is None:
        return
    try:
        PP, PC = parent.Partial, cls.Partial
    except Exception:  # noqa: BLE001
        return
    pf = {f.alias for f in parent.__fields__.values()} | set(parent.__fields__)
    try:
        pa = PP.parse_obj(G.realize({k: v for k, v in recipes[0].items() if k in pf}))
        pb = PP.parse_obj(G.realize({k: v for k, v in recipes[1].items() if k in pf}))
        pc = PC.parse_obj(G.realize(recipes[2]))
    except (ValidationError, ValueError, TypeError):
        return
    try:
        m = PP.merge(pa, pb, allow_overwrite=True)
    except Exception as e:  # noqa: BLE001
        raise Violation(f"C14:merge-raises:{type(e).__name__}", f"parent-class merge: {str(e)[:200]}", "merge")
    vm = vals(m)
    for what, obj in (("merge result", m), ("parsed partial", pa)):
        vo = vals(obj)
        try:
            casted = PC.cast(obj)
            via_merge = PC.merge(PC(), obj, allow_overwrite=True)
            right = PC.merge(pc, obj, allow_overwrite=True)
        except ValueError:
            continue
        except Exception as e:  # noqa: BLE001
            raise Violation(f"C14:cross-class-merge-raises:{type(e).__name__}", f"{what} of {parent.__name__}.Partial as operand of "
                            f"{cls.__name__}.Partial: {str(e)[:200]}", "accepted (child partial is compatible)")
        for how, got in (("cast", casted), ("merge(empty, x)", via_merge)):
            # (the two classes may parse nested dicts into different models and carry different constants, so only
            # presence of every provided field and equality of plain scalar values are required)
            vg = vals(got)[1]
            lost = sorted(k for k in vo[1] if k not in vg)
            changed = sorted(k for k in vo[1] if k in vg and vo[1][k][0] == "V" and not isinstance(vo[1][k][1], dict) and vg[k][0] == "V"
                             and not _veq(vo[1][k], vg[k]))
            if lost or changed:
                lost = lost + ["changed:" + c for c in changed]
                raise Violation("C14:cross-class-cast-loses-values", f"{how} of a {what} of {parent.__name__}.Partial to {cls.__name__}.Partial "
                                f"lost {lost}: {_show(vo)} -> {_show(vals(got))}", "all provided values kept")
        try:  # ... and the same with ignore_invalid=True
            right_i = PC.merge(pc, obj, allow_overwrite=True, ignore_invalid=True)
        except Exception as e:  # noqa: BLE001
            raise Violation(f"C14:cross-class-merge-raises:{type(e).__name__}:ignore-invalid", f"{what} of {parent.__name__}.Partial as "
                            f"operand of {cls.__name__}.Partial with ignore_invalid=True: {str(e)[:200]}", "as without the flag")
        if vals(right_i) != vals(right):
            raise Violation("C14:ignore-invalid-changes-result:cross-class", _show(vals(right_i)), _show(vals(right)))
        lost = sorted(k for k in vo[1] if k not in vals(right)[1])
        if lost:
            raise Violation("C14:cross-class-merge-loses-values", f"merge(child partial, {what} of the parent partial) lost the fields {lost}",
                            "every provided field present in the result")
    if rec is not None:
        rec.case(classes=["cross_class_operand"])


def check_roundtrip(cls, recipe, rec=None):
    try:
        o = cls.parse_obj(G.realize(recipe))
    except (ValidationError, ValueError, TypeError):
        return
    try:
        p = cls.Partial.to_partial(o)
        back = p.from_partial()
    except Exception as e:  # noqa: BLE001
        raise Violation(f"C14:partial-roundtrip-raises:{type(e).__name__}", f"{type(e).__name__}: {str(e)[:300]}", "o -> partial -> o")
    if not _veq(back, o):
        raise Violation("C14:partial-roundtrip-differs", f"{_show(vals(o))} -> {_show(vals(back))}", "same object")
    p2 = cls.Partial.merge(cls.Partial(), p)
    try:
        back2 = p2.from_partial()
    except Exception as e:  # noqa: BLE001
        raise Violation("C14:partial-roundtrip-raises:after-merge", f"{type(e).__name__}: {str(e)[:300]}", "o")
    if not _veq(back2, o):
        raise Violation("C14:partial-roundtrip-differs:after-merge-with-empty", f"{_show(vals(o))} -> {_show(vals(back2))}", "same object")
    # undeclared extra fields (kept by schemas with Extra.allow) belong to the object, too
    if getattr(cls.__config__, "extra", None) is Extra.allow and isinstance(recipe, dict):
        extras = {"xExtra": [1, "two"], "_comment": "keep me", "x_falsy": 0, "cls": ["v"], "_fields_set": "fs"}
        try:
            oe = cls.parse_obj(G.realize({**recipe, **extras}))
        except (ValidationError, ValueError, TypeError):
            oe = None
        if oe is not None:
            try:
                be = cls.Partial.to_partial(oe).from_partial()
            except Exception as e:  # noqa: BLE001
                raise Violation(f"C14:partial-roundtrip-raises:{type(e).__name__}:extra-fields", f"object with the extra fields {sorted(extras)}: "
                                f"{type(e).__name__}: {str(e)[:200]}", "o -> partial -> o")
        if oe is not None:
            lost = sorted(k for k, v in extras.items() if oe.__dict__.get(k) == v and be.__dict__.get(k, "<missing>") != v)
            if lost:
                raise Violation("C14:partial-roundtrip-differs:extra-field-lost", f"extra fields {lost} of the object are missing after "
                                f"to_partial(o).from_partial()", "same object")
            if rec is not None:
                rec.cls("roundtrip_with_extra_fields")
        # two partials providing the same extra field with values of different shape: a conflict like any other
        P = cls.Partial
        for va, vb in (([1], "b"), ("b", [1]), ({2}, 0), ([0], {"k": 1})):
            try:
                pa, pb = P.parse_obj({"xExtra": va}), P.parse_obj({"xExtra": vb})
            except (ValidationError, ValueError, TypeError):
                continue
            try:
                got = P.merge(pa, pb, allow_overwrite=True).__dict__.get("xExtra")
            except Exception as e:  # noqa: BLE001
                raise Violation(f"C14:merge-raises:{type(e).__name__}:extra-field-shapes", f"xExtra {va!r} then {vb!r}, allow_overwrite=True: "
                                f"{type(e).__name__}: {e}", "the later value wins")
            if got != pb.__dict__.get("xExtra"):
                raise Violation("C14:merge-result:wrong:extra-field-shapes", f"xExtra {va!r} then {vb!r}: {got!r}", "the later value")
            try:
                P.merge(pa, pb)
            except ValueError:
                pass
            except Exception as e:  # noqa: BLE001
                raise Violation(f"C14:merge-raises:{type(e).__name__}:extra-field-shapes", f"xExtra {va!r} then {vb!r}, no overwrite: "
                                f"{type(e).__name__}: {e}", "ValueError (conflict)")
            else:
                raise Violation("C14:conflict-silently-resolved:extra-field-shapes", f"xExtra {va!r} then {vb!r}", "ValueError")
    # the same object handed over in its serialised (plain data) form: empty (+) data == the object
    try:
        back3 = cls.Partial().merge_with(json.loads(o.json())).from_partial()
    except Exception as e:  # noqa: BLE001
        raise Violation("C14:partial-roundtrip-raises:from-plain-data", f"{type(e).__name__}: {str(e)[:300]}", "o")
    if not _veq(back3, o):
        raise Violation("C14:partial-roundtrip-differs:from-plain-data", f"{_show(vals(o))} -> {_show(vals(back3))}", "same object")
    if rec is not None:
        rec.case(classes=["roundtrip_complete"])


# ---------------------------------------------------------------- cases

ORIGINS = ["obj", "json", "yaml", "loader"]


def _cls_of(case):
    if case["kind"] == "installed":
        from metador_core.plugins import schemas

        return schemas.get(case["schema"], tuple(case["version"])), case["schema"]
    classes = G.build_classes(case["classes"])
    return classes[case["target"]], "gen:" + json.dumps(case["classes"][case["target"]]["fields"])[:100]


def run_case(case, rec=None):
    cls, tag = _cls_of(case)
    if case["mode"] == "roundtrip-probe":
        try:
            check_roundtrip(cls, case["recipe"], rec)
        except Violation as v:
            if "datetime.datetime" in str(v.observed) and "datetime.date(" in str(v.observed):
                v.signature = "C14:partial-roundtrip-differs:datetime-truncated-to-date"
            raise
        return
    if case["mode"] == "partial-class":
        try:
            cls.Partial
        except Exception as e:  # noqa: BLE001
            raise Violation(f"C14:partial-class-unavailable:{case['schema']}", f"{type(e).__name__}: {str(e)[:200]}", "a partial class")
        return
    sample = dict(case, tag=tag)
    if case["mode"] == "split":
        parts = split3(case["recipe"], cls, case["choices"])
        check_triple(cls, parts, case["origins"], case["overwrite"], "split", rec, sample)
        check_roundtrip(cls, case["recipe"], rec)
    elif case["mode"] == "independent":
        origins = list(case["origins"])
        check_triple(cls, case["recipes"], origins, case["overwrite"], "independent", rec, sample)
        check_cross_class(cls, case["recipes"], case["overwrite"], rec)
    elif case["mode"] == "harvester":
        from metador_core.harvester.common import FileMetaHarvester

        d = new_scratch("vt-c14h-")
        try:
            p = os.path.join(d, case.get("fname", "f.bin"))
            with open(p, "wb") as f:
                f.write(bytes.fromhex(case["content"]))
            hv = FileMetaHarvester(filepath=Path(p)).harvest()
            # harvested values + a user-supplied partial with the other fields (no conflicts)
            r = {k: v for k, v in case["recipe"].items() if k not in ("filename", "contentSize", "sha256", "encodingFormat")}
            check_triple(cls, [r, {}], [case["origins"][0], "obj"], case["overwrite"], "harvester", rec, sample, extra_partials=[hv])
            if rec is not None:
                rec.cls("origin_harvester")
        finally:
            shutil.rmtree(d, ignore_errors=True)


def strategies_for(cls, base):
    """Strategy of cases for one class; base = dict identifying the class."""
    recipe = G.model_recipe(cls, 0, dates="date", objects=False)
    origins = st.lists(st.sampled_from(ORIGINS), min_size=3, max_size=3)
    split = st.builds(lambda r, ch, o, ow: dict(base, mode="split", recipe=r, choices=ch, origins=o, overwrite=ow),
                      recipe, st.lists(st.integers(0, 11), min_size=4, max_size=12), origins, st.booleans())
    partial_recipe = st.builds(lambda r, drop: {k: v for i, (k, v) in enumerate(sorted(r.items())) if (drop >> i) & 1 == 0},
                               recipe, st.integers(0, 2 ** 12))
    indep = st.builds(lambda rs, o, ow: dict(base, mode="independent", recipes=rs, origins=o, overwrite=ow),
                      st.lists(partial_recipe, min_size=3, max_size=3),
                      st.lists(st.sampled_from(ORIGINS + ["complete"]), min_size=3, max_size=3), st.booleans())
    # the same data three times, by different ways of obtaining it (one operand is a complete object whose nested
    # values are complete models, the others are parsed, with some top-level fields dropped): every nested position
    # present twice is of mixed provenance
    def _overlap(r, d1, d2, o1, o2, perm, ow):
        def drop(d):
            return {k: v for i, (k, v) in enumerate(sorted(r.items())) if (d >> i) & 1 == 0}

        rs, os_ = [r, drop(d1), drop(d2)], ["complete", o1, o2]
        return dict(base, mode="independent", recipes=[rs[i] for i in perm], origins=[os_[i] for i in perm], overwrite=ow)

    overlap = st.builds(_overlap, recipe, st.integers(0, 2 ** 12), st.integers(0, 2 ** 12), st.sampled_from(ORIGINS),
                        st.sampled_from(ORIGINS), st.permutations([0, 1, 2]), st.booleans())
    return st.one_of(split, split, indep, overlap)


def generated_cases():
    def with_cls(descs):
        classes = G.build_classes(descs)
        return st.integers(0, len(classes) - 1).flatmap(
            lambda t: strategies_for(classes[t], dict(kind="generated", classes=descs, target=t)))

    from .c12 import fix_descs

    return G.class_descs(3, 4).map(fix_descs).flatmap(with_cls)


G.EXTRAS[0] = False  # undeclared extra fields have no type, so no merge rule applies to them
G.ONE_MODEL_PER_UNION[0] = True  # parsed partials of Union[ModelA, ModelB] always become ModelA's partial (DESIGN 9.3)


def check_versionless_nested(rec):
    """A nested object made with the class handed out by schemas.get(name) / schemas[name] (no version stated) is an
    object of the same schema: it merges recursively with a parsed partial like one made with the versioned class."""
    from metador_core.plugins import schemas

    for name, v, _ in G.installed_schemas():
        cls = schemas.get(name, tuple(v))
        for fname, fld in cls.__fields__.items():
            inner = fld.type_
            pgi = getattr(inner, "Plugin", None) if isinstance(inner, type) else None
            if pgi is None or fld.shape != 1 or not getattr(pgi, "name", None):
                continue
            for how, handle in (("versioned", schemas.get(pgi.name, tuple(pgi.version))), ("get", schemas.get(pgi.name)), ("getitem", schemas[pgi.name])):
                # two nested partial objects with disjoint optional fields, one of them converted from an object of `handle`
                opt = [n for n, f in handle.__fields__.items() if not f.required and n not in getattr(handle, "__constants__", {})
                       and f.type_ in (str,) or getattr(f.type_, "__name__", "") in ("NonEmptyStr",)]
                if len(opt) < 2:
                    break
                try:
                    nested_obj = handle.construct(**{opt[0]: "first"})
                    a = cls.Partial.construct(**{fname: nested_obj})
                    b = cls.Partial.parse_obj({fld.alias: {handle.__fields__[opt[1]].alias: "second"}})
                except Exception:  # noqa: BLE001
                    break
                case = dict(kind="versionless-nested", schema=name, field=fname, nested=pgi.name, handle=how)
                for order, (x, y) in (("object+parsed", (a, b)), ("parsed+object", (b, a))):
                    for ow in (False, True):
                        try:
                            m = getattr(x.merge_with(y, allow_overwrite=ow), fname)
                            got = (getattr(m, opt[0], None), getattr(m, opt[1], None))
                            err = None if got == ("first", "second") else f"nested values {got}"
                        except Exception as e:  # noqa: BLE001
                            err = f"{type(e).__name__}: {str(e).splitlines()[0][:150]}"
                        if err:
                            rec.fail("C14:nested-object-of-versionless-class-not-merged" if how != "versioned" else "C14:nested-object-not-merged",
                                     dict(case, order=order, overwrite=ow), err, "('first', 'second')")
                rec.case(nt_key=["versionless-nested", name, fname, how], classes=["versionless_nested_object"], sample=case)


_REC_FAMILY = """
from typing import Optional
from metador_core.schema.core import MetadataSchema, check_types

class Thing(MetadataSchema):
    name: Optional[str]
    subjectOf: Optional["Work"]

class Work(Thing):
    version: Optional[int]

Thing.update_forward_refs(Work=Work)
Work.update_forward_refs(Work=Work)
check_types(Work)
"""


def check_recursive_family(rec):
    """A recursive model family whose recursion goes through a subclass (schema.org: Thing.subjectOf is a Work, a
    Work is a Thing): nested objects merge recursively whichever partial class was asked for first."""
    import types as _t

    for first in ("Thing", "Work"):
        mod = _t.ModuleType(f"vt_c14_rec_{first}")
        sys.modules[mod.__name__] = mod
        exec(compile(_REC_FAMILY, mod.__name__, "exec"), mod.__dict__)
        case = dict(kind="recursive-family", first_partial=first)
        try:
            getattr(mod, first).Partial
            TP, WP = mod.Thing.Partial, mod.Work.Partial
            p1 = TP.to_partial(mod.Thing(name="thing", subjectOf=mod.Work(name="paper")))
            p2 = TP.parse_obj({"subjectOf": {"version": 0}})
            p3 = TP.construct(subjectOf=WP(name="paper"))
        except Exception as e:  # noqa: BLE001
            rec.fail("C14:recursive-family:setup-raises", case, f"{type(e).__name__}: {str(e)[:200]}", "partials can be made")
            continue
        for label, (a, b) in (("complete+parsed", (p1, p2)), ("parsed+complete", (p2, p1)), ("constructed+parsed", (p3, p2))):
            for ow in (False, True):
                try:
                    r = a.merge_with(b, allow_overwrite=ow)
                    got = (r.subjectOf.name, r.subjectOf.version)
                    err = None if got == ("paper", 0) else f"(name, version) = {got}"
                except Exception as e:  # noqa: BLE001
                    err = f"{type(e).__name__}: {str(e).splitlines()[0][:150]}"
                if err:
                    rec.fail("C14:recursive-family:nested-object-not-merged", dict(case, operands=label, overwrite=ow), err, "('paper', 0)")
        rec.case(nt_key=["recursive-family", first], classes=["recursive_family_through_subclass"], sample=case)


def check_nested_inheritance_chain(rec):
    """Exhaustive: one nested position whose operands are objects of a class and of its subclass (either order, either
    side the subclass), providing DISJOINT fields: the merge is non-conflicting, so it must not raise (with and without
    allow_overwrite) and the nested result carries every provided value; three operands are associative."""
    import itertools
    from typing import List, Optional

    from pydantic import BaseModel
    from metador_core.schema.core import MetadataSchema
    from metador_core.schema.partial import PartialFactory

    def family(root):
        class Base(root):
            a: Optional[int]
            b: Optional[int]

        class Child(Base):
            c: Optional[int]

        class Outer(root):
            inner: Optional[Base]
            tags: List[str] = []
        return Base, Child, Outer

    for rootname, root in (("BaseModel", BaseModel), ("MetadataSchema", MetadataSchema)):
        Base, Child, Outer = family(root)
        P = PartialFactory.get_partial(Outer) if root is BaseModel else Outer.Partial
        kl = {"Base": Base, "Child": Child}
        for lc, rc, wa, wb, wc, ow in itertools.product(kl, kl, "-LR", "-LR", "-LR", (False, True)):
            if (wc == "L" and lc == "Base") or (wc == "R" and rc == "Base"):
                continue
            want = {k: v for k, v, w in (("a", 0, wa), ("b", 2, wb), ("c", 3, wc)) if w != "-"}
            lv = {k: v for k, v, w in (("a", 0, wa), ("b", 2, wb), ("c", 3, wc)) if w == "L"}
            rv = {k: v for k, v, w in (("a", 0, wa), ("b", 2, wb), ("c", 3, wc)) if w == "R"}
            case = dict(kind="nested-chain", root=rootname, left=lc, right=rc, left_values=lv, right_values=rv, overwrite=ow)
            try:
                left = P.to_partial(Outer(inner=kl[lc](**lv), tags=["x"]))
                right = P.to_partial(Outer(inner=kl[rc](**rv), tags=["y"]))
                third = P.to_partial(Outer(inner=Child(), tags=[]))
            except Exception as e:  # noqa: BLE001
                raise HarnessError(f"nested-chain fixture: {type(e).__name__}: {e}")
            sig = f"{lc}+{rc}"

            def inner_vals(m):
                return {k: v for k, v in m.inner.__dict__.items() if v is not None and k in ("a", "b", "c")}
            try:
                got = inner_vals(left.merge_with(right, allow_overwrite=ow))
                l3 = inner_vals(left.merge_with(right, allow_overwrite=ow).merge_with(third, allow_overwrite=ow))
                r3 = inner_vals(left.merge_with(right.merge_with(third, allow_overwrite=ow), allow_overwrite=ow))
            except Exception as e:  # noqa: BLE001
                rec.fail(f"C14:nested-chain-merge-raises:{sig}", case, f"{type(e).__name__}: {str(e).splitlines()[0][:200]}",
                         "non-conflicting merge succeeds")
            else:
                if got != want:
                    rec.fail(f"C14:nested-chain-merge-loses-values:{sig}", case, got, want)
                elif not (l3 == r3 == want):
                    rec.fail(f"C14:nested-chain-not-associative:{sig}", case, [l3, r3], want)
            rec.case(nt_key=["nested-chain", rootname, lc, rc, wa, wb, wc, ow] if lc != rc and lv and rv else None,
                     classes=["nested_inheritance_chain"] + (["nested_chain_subclass_left"] if (lc, rc) == ("Child", "Base") else []),
                     sample=case if lc != rc else None)


def plan(tier, seed):
    inst = G.installed_schemas()
    sh = [dict(name=f"installed-{n}", kind="installed", schema=n, version=list(v)) for n, v, _ in inst]
    sh += [dict(name=f"generated-{i}", kind="generated", i=i) for i in range(10)]
    sh += [dict(name="harvester", kind="harvester"), dict(name="probe-datetime", kind="probe")]
    return sh


def run_shard(shard, tier, seed, rec):
    if shard["kind"] == "probe":
        # excluded from the generators by construction (dates="date"); kept as an explicit probe of the known finding
        case = dict(kind="installed", schema="core.bib", version=[0, 1, 0], mode="roundtrip-probe",
                    recipe={"name": "x", "abstract": "x", "author": [], "dateCreated": "2020-01-02T03:04:05"})
        try:
            run_case(case, rec)
        except Violation as v:
            rec.fail(v.signature, case, v.observed, v.expected)
        rec.case(classes=["probe_datetime"])
        check_versionless_nested(rec)
        check_recursive_family(rec)
        check_nested_inheritance_chain(rec)
        return
    if shard["kind"] == "installed":
        from metador_core.plugins import schemas

        cls = schemas.get(shard["schema"], tuple(shard["version"]))
        try:
            cls.Partial
        except Exception as e:  # noqa: BLE001
            rec.fail(f"C14:partial-class-unavailable:{shard['schema']}", dict(kind="installed", schema=shard["schema"],
                     version=shard["version"], mode="partial-class"), f"{type(e).__name__}: {str(e)[:200]}", "a partial class")
            rec.case(classes=["partial_class_unavailable"])
            return
        n = {"quick": 60, "thorough": 2500}[tier]
        strat = strategies_for(cls, dict(kind="installed", schema=shard["schema"], version=shard["version"]))
        hyp.search(strat, lambda c: run_case(c, rec), rec, seed=seed * 100 + hash(shard["schema"]) % 89, max_examples=n,
                   suppress_filter=True)
    elif shard["kind"] == "generated":
        n = {"quick": 300, "thorough": 15000}[tier]
        hyp.search(generated_cases(), lambda c: run_case(c, rec), rec, seed=seed * 100 + shard["i"], max_examples=n,
                   suppress_filter=True)
    else:
        from metador_core.plugins import schemas

        cls = schemas.get("core.file", (0, 1, 0))
        n = {"quick": 60, "thorough": 1500}[tier]
        strat = st.builds(lambda r, c, o, ow: dict(kind="installed", schema="core.file", version=[0, 1, 0], mode="harvester",
                                                    recipe=r, content=c, origins=[o], overwrite=ow),
                          G.model_recipe(cls, 0, dates="date", objects=False), st.binary(max_size=64).map(bytes.hex),
                          st.sampled_from(ORIGINS), st.booleans())
        hyp.search(strat, lambda c: run_case(c, rec), rec, seed=seed * 100 + 77, max_examples=n, suppress_filter=True)


def replay(rp, rec):
    try:
        run_case(rp["case"], rec)
    except Violation as v:
        rec.fail(v.signature, rp["case"], v.observed, v.expected)
