"""C12 — Schema instances survive serialisation unchanged."""
import json

from hypothesis import strategies as st
from pydantic import ValidationError

from .. import compat  # noqa: F401
from .. import hyp
from .. import schemagen as G
from ..evidence import HarnessError, Violation

ID = "C12"
LEVEL = "exploration"
RULE = (
    "all installed schema plugins + Hypothesis-generated schema classes from the documented field-type grammar (strict "
    "primitives, phantom/constrained strings, SemVerTuple, URLs, Duration, PintUnit, PintQuantity, Literal, Enum, "
    "Optional, Union, List, Set, nested and self-recursive models, inheritance, JSON-LD constants, @id alias, extra "
    "policy, defaults); instances are built from hint-directed recipes (missing optionals by omission; Duration/unit/"
    "quantity also supplied as Python objects). Oracle per valid instance o: parse_raw(bytes(o)) == o, parse_raw(json) "
    "== o, parse_raw(yaml) == o, parse_obj(json_dict) == o, second trip equals the first, bytes identical for set-free "
    "instances, constants present with their value, wrong constants on input are ignored; the bytes and YAML forms are "
    "also written to a file and read with parse_file. Values include long prose (line folding), unicode line breaks, "
    "SIValue / NumValue given as string, number, dict and object, explicit None for required fields, improper numbers. "
    "Extras also carry names of model methods, nan / inf and a field given by alias and by name at once (refused at "
    "construction or round-tripping); classes with a custom Parser are documents of their own. "
    "Shard units: every name of the unit registry as PintUnit and in PintQuantity(magnitude, unit) (exhaustive). Non-trivial = instance with "
    ">=1 of {Duration, unit, quantity, nested object, list, alias, non-ASCII, long float}; distinct by (schema, "
    "populated keys, value kinds)"
)
ASSUMPTIONS = ["strings: no control characters other than \\n and \\t; no NEL/NBSP (YAML line-break characters)",
               "not asserted: explicit None for a field with a non-None default; key order; Duration inputs with "
               "years/months (the instance after construction is the reference)"]
REQUIRED_CLASSES = {"all": ["installed", "generated", "$duration_s", "$quantity", "$unit", "object", "alias",
                            "wrong_constants_ignored", "non-ascii", "access_unversioned", "access_getitem"]}
BUDGET_S = {"quick": 900, "thorough": 3 * 3600}


def _eq(a, b):
    try:
        return a == b
    except Exception:  # noqa: BLE001
        return False


def check_instance(cls, recipe, tag, rec=None, sample=None, expected_consts=None):
    try:
        o = cls.parse_obj(G.realize(recipe))
    except (ValidationError, ValueError, TypeError) as e:
        if rec is not None:
            rec.cls("rejected_at_construction", f"rejected:{tag}")
        return None
    except Exception as e:  # noqa: BLE001 - neither accepted nor rejected as invalid: the schema is unusable
        raise Violation(f"C12:schema-unusable:{type(e).__name__}", f"{tag}: {type(e).__name__}: {str(e)[:300]}",
                        "input is validated (accepted or ValidationError)")
    forms = {}
    for name, fn in (("bytes", lambda: bytes(o)), ("json", o.json), ("yaml", o.yaml), ("json_dict", o.json_dict)):
        try:
            forms[name] = fn()
        except Exception as e:  # noqa: BLE001
            kinds = sorted(k for k in G.kinds_in(recipe) if k.startswith("$"))
            raise Violation(f"C12:serialise-raises:{name}:{type(e).__name__}", f"{tag}: {type(e).__name__}: {e} (value kinds {kinds})",
                            "valid instance can be serialised")
    back = {}
    for name in ("bytes", "json", "yaml"):
        try:
            back[name] = cls.parse_raw(forms[name])
        except Exception as e:  # noqa: BLE001
            raise Violation(f"C12:parse-back-raises:{name}", f"{tag}: {type(e).__name__}: {str(e)[:300]} from {forms[name][:300]!r}",
                            "parses back")
        if not _eq(back[name], o):
            raise Violation(f"C12:roundtrip-differs:{name}", f"{tag}: {_diff(o, back[name])}", "equal to the original")
    # the forms written to a file and read with parse_file (what harvesters, packers and manifests do)
    import tempfile
    for name, suffix in (("bytes", ".json"), ("yaml", ".yaml")):
        data = forms[name] if isinstance(forms[name], bytes) else forms[name].encode("utf-8")
        with tempfile.NamedTemporaryFile(suffix=suffix, dir=compat.scratch_root(), delete=True) as fh:
            fh.write(data)
            fh.flush()
            try:
                bf = cls.parse_file(fh.name)
            except Exception as e:  # noqa: BLE001
                raise Violation(f"C12:parse-back-raises:{name}:file", f"{tag}: {type(e).__name__}: {str(e)[:300]}", "parses back")
        if not _eq(bf, o):
            raise Violation(f"C12:roundtrip-differs:{name}:file", f"{tag}: {_diff(o, bf)}", "equal to the original")
    try:
        b2 = cls.parse_obj(forms["json_dict"])
    except Exception as e:  # noqa: BLE001
        raise Violation("C12:parse-back-raises:json_dict", f"{tag}: {type(e).__name__}: {str(e)[:300]}", "parses back")
    if not _eq(b2, o):
        raise Violation("C12:roundtrip-differs:json_dict", f"{tag}: {_diff(o, b2)}", "equal")
    # second round trip
    second = cls.parse_raw(bytes(back["bytes"]))
    if not _eq(second, back["bytes"]):
        raise Violation("C12:second-roundtrip-differs", f"{tag}: {_diff(back['bytes'], second)}", "stable")
    has_set = _has_set(o)
    if not has_set and bytes(back["bytes"]) != forms["bytes"]:
        raise Violation("C12:bytes-not-stable", f"{tag}: {forms['bytes'][:200]!r} vs {bytes(back['bytes'])[:200]!r}", "identical bytes")
    # constants
    # expected constants come from the class description (generated) / the versioned class (installed), not
    # from the class object under test
    consts = expected_consts if expected_consts is not None else (getattr(cls, "__constants__", {}) or {})
    jd = forms["json_dict"]
    for k, v in consts.items():
        if k not in jd or jd[k] != v:
            raise Violation("C12:constant-missing-in-output", f"{tag}: {k} -> {jd.get(k, '<absent>')!r}", v)
    if consts:
        wrong = dict(jd)
        for k in consts:
            wrong[k] = "WRONG-" + str(k)
        for how, parse in (("obj", lambda: cls.parse_obj(wrong)), ("raw", lambda: cls.parse_raw(json.dumps(wrong)))):
            try:
                w = parse()
            except Exception as e:  # noqa: BLE001
                raise Violation("C12:wrong-constant-on-input-rejected", f"{tag} ({how}): {type(e).__name__}: {str(e)[:200]}", "ignored on input")
            wj = w.json_dict()
            for k, v in consts.items():
                if wj.get(k) != v:
                    raise Violation("C12:constant-not-ignored-on-input", f"{tag} ({how}): {k} -> {wj.get(k)!r}", v)
            if not _eq(w, o):
                raise Violation("C12:constant-not-ignored-on-input", f"{tag} ({how}): instance differs", "equal to original")
        if rec is not None:
            rec.cls("wrong_constants_ignored")
    if rec is not None:
        kinds = sorted(G.kinds_in(recipe) - {"list"} | ({"list"} if "list" in G.kinds_in(recipe) else set()))
        nt = bool(set(kinds) & {"$duration_s", "$unit", "$quantity", "object", "list", "alias", "non-ascii", "long-float"}) or \
            any(isinstance(v, str) and v[:1] == "P" for v in recipe.values() if isinstance(recipe, dict))
        rec.case(nt_key=[tag, sorted(recipe) if isinstance(recipe, dict) else "", kinds] if nt else None,
                 classes=kinds + [sample["kind"] if sample else "x"] + (["has_set"] if has_set else []),
                 sample=sample if nt else None)
    return o


def _has_set(o):
    def rec(v):
        if isinstance(v, (set, frozenset)):
            return True
        if isinstance(v, dict):
            return any(rec(x) for x in v.values())
        if isinstance(v, (list, tuple)):
            return any(rec(x) for x in v)
        if hasattr(v, "__dict__") and hasattr(v, "__fields__"):
            return any(rec(x) for x in v.__dict__.values())
        return False

    return rec(o)


def _diff(a, b):
    try:
        da, db = a.dict(), b.dict()
    except Exception as e:  # noqa: BLE001
        return f"(cannot dict: {e})"
    out = []
    for k in sorted(set(da) | set(db)):
        if not _eq(da.get(k), db.get(k)) or type(da.get(k)) is not type(db.get(k)) and not _eq(da.get(k), db.get(k)):
            out.append(f"{k}: {da.get(k)!r} -> {db.get(k)!r}")
    return "; ".join(out)[:600] or f"{a!r} vs {b!r}"[:600]


# ---------------------------------------------------------------- strategies

def fix_descs(descs):
    for i, d in enumerate(descs):
        if d.get("parent") is not None and descs[d["parent"] % i].get("extra") == "forbid":
            d["parent"] = None
    return descs


def generated_cases(dates=False):
    def with_recipe(descs):
        classes = G.build_classes(descs)
        return st.integers(0, len(classes) - 1).flatmap(
            lambda t: G.model_recipe(classes[t], 0, dates=dates).map(
                lambda r: dict(kind="generated", classes=descs, target=t, recipe=r)))

    return G.class_descs(3, 4).map(fix_descs).flatmap(with_recipe)


def run_case(case, rec=None):
    if case["kind"] == "installed":
        from metador_core.plugins import schemas

        how = case.get("access", "versioned")
        if how == "versioned":
            cls = schemas.get(case["schema"], tuple(case["version"]))
        elif how == "unversioned":
            cls = schemas.get(case["schema"])  # marked copy of the newest installed version
        else:
            cls = schemas[case["schema"]]
        tag = case["schema"] + ("" if how == "versioned" else f"[{how}]")
        if rec is not None:
            rec.cls(f"access_{how}")
        exp_consts = dict(schemas.get(case["schema"], tuple(case["version"])).__constants__)
    else:
        classes = G.build_classes(case["classes"])
        cls = classes[case["target"]]
        tag = "gen:" + json.dumps(case["classes"][case["target"]]["fields"])[:120]
        exp_consts, i = {}, case["target"]
        chain = []
        while i is not None:
            chain.append(case["classes"][i])
            p = case["classes"][i].get("parent")
            i = None if p is None or i == 0 else p % i
        for d in reversed(chain):
            exp_consts.update(d.get("consts") or {})
    check_instance(cls, case["recipe"], tag, rec, sample=case, expected_consts=exp_consts)


def plan(tier, seed):
    inst = G.installed_schemas()
    sh = [dict(name=f"installed-{n}", kind="installed", schema=n, version=list(v)) for n, v, _ in inst]
    sh += [dict(name=f"generated-{i}", kind="generated", i=i) for i in range(8)]
    sh += [dict(name="units", kind="units")]
    return sh


def check_units(rec):
    """Every unit of the unit registry, as PintUnit and inside a PintQuantity built from (magnitude, unit): whatever a
    schema accepts as valid instance survives JSON / YAML / bytes."""
    from metador_core.schema import MetadataSchema
    from metador_core.schema import types as T

    class UnitsProbe(MetadataSchema):
        q: T.PintQuantity
        u: T.PintUnit

    names = sorted(n for n in dir(T.PintUnit("meter")._REGISTRY) if n.isidentifier() and not n.startswith("_"))
    seen, failed = 0, set()
    for name in names:
        for mag in (25.5, 0):
            try:
                o = UnitsProbe(q=T.PintQuantity(mag, name), u=T.PintUnit(name))
            except Exception:  # noqa: BLE001 - not a unit / not accepted
                continue
            seen += 1
            for form, ser in (("json", o.json), ("yaml", o.yaml), ("bytes", lambda: bytes(o))):
                try:
                    back = UnitsProbe.parse_raw(ser())
                    ok = back == o
                    why = f"{back.q} / {back.u}"
                except Exception as e:  # noqa: BLE001
                    ok, why = False, f"{type(e).__name__}: {str(e)[:150]}"
                if not ok and (form, "raises" if "Error" in why else "differs") not in failed:
                    failed.add((form, "raises" if "Error" in why else "differs"))
                    rec.fail(f"C12:quantity-roundtrip-{'raises' if 'Error' in why else 'differs'}:{form}", dict(kind="units", unit=name, magnitude=mag),
                             f"PintQuantity({mag}, {name!r}) is a valid field value, serialised as {str(o.q)!r}: {why}", "parses back equal")
            rec.case(nt_key=["unit", name, mag], classes=["unit_registry_member"], sample=None)
    rec.exhaustive["unit_registry"] = True
    rec.notes.append(f"{seen} accepted (unit, magnitude) pairs from {len(names)} registry names")


def check_parser_classes(rec):
    """The schema classes that come with a custom Parser (they can be given in short forms when used as a field)
    are schemas of their own: their instances survive every form too."""
    from metador_core.schema.common import NumValue, Pixels, SIValue

    cases = [(NumValue, dict(value=5, unitText="m", minValue=1, maxValue=10, name="length")), (NumValue, dict(value=0.5)),
             (NumValue, dict(value=3, unitText="px", description="three")), (Pixels, dict(value=5)), (Pixels, dict(value=7, name="w")),
             (SIValue, dict(value=2.5, unitText="meter")), (SIValue, dict(value=1, unitText="kg", name="mass", alternateName=["m"]))]
    for cls, kw in cases:
        try:
            o = cls(**kw)
        except Exception:  # noqa: BLE001
            rec.cls("rejected_at_construction")
            continue
        for form, ser in (("json", o.json), ("yaml", o.yaml), ("bytes", lambda: bytes(o))):
            try:
                back = cls.parse_raw(ser())
                ok, why = back == o, f"{back!r}"
            except Exception as e:  # noqa: BLE001
                ok, why = False, f"{type(e).__name__}: {str(e)[:150]}"
            if not ok:
                rec.fail(f"C12:parser-class-roundtrip-differs:{form}", dict(kind="parser-class", cls=cls.__name__, data=kw),
                         f"{cls.__name__}(**{kw}) read back from its {form} form: {why[:200]}", f"{o!r}")
        rec.case(nt_key=["parser-class", cls.__name__, sorted(kw)], classes=["parser_class_instance"], sample=dict(kind="parser-class", cls=cls.__name__, data=kw))


def run_shard(shard, tier, seed, rec):
    if shard["kind"] == "units":
        check_units(rec)
        check_parser_classes(rec)
        return
    if shard["kind"] == "installed":
        from metador_core.plugins import schemas

        cls = schemas.get(shard["schema"], tuple(shard["version"]))
        n = {"quick": 150, "thorough": 2500}[tier]
        strat = st.builds(
            lambda r, a: dict(kind="installed", schema=shard["schema"], version=shard["version"], recipe=r, access=a),
            G.model_recipe(cls, 0, dates=True), st.sampled_from(["versioned", "versioned", "unversioned", "getitem"]))
        hyp.search(strat, lambda c: run_case(c, rec), rec, seed=seed * 100 + hash(shard["schema"]) % 97, max_examples=n,
                   suppress_filter=True)
    else:
        n = {"quick": 600, "thorough": 12000}[tier]
        hyp.search(generated_cases(dates=False), lambda c: run_case(c, rec), rec, seed=seed * 100 + shard["i"],
                   max_examples=n, suppress_filter=True)


def replay(rp, rec):
    try:
        if rp["case"].get("kind") == "units":
            check_units(rec)
            return
        run_case(rp["case"], rec)
    except Violation as v:
        rec.fail(v.signature, rp["case"], v.observed, v.expected)
