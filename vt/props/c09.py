"""C09 — Containers behave identically on plain HDF5 and on IH5 records."""
import json

from .. import compat  # noqa: F401
from .. import cmodel as C
from .. import history as H
from .. import hyp
from ..evidence import Violation
from ..treemodel import diff_dumps

ID = "C09"
LEVEL = "exploration"
RULE = (
    "pure differential: every Hypothesis-generated container history (data ops, require_*, copy in string / node-object "
    "/ group-destination forms with and without attributes and metadata, move incl. move(x,x), attach / refused attach / "
    "detach, IH5 patch boundaries and reopen points at generated positions) is executed in lock step on "
    "MetadorContainer(h5py.File), MetadorContainer(IH5Record) and MetadorContainer(IH5MFRecord); after every step all "
    "three must agree on success/failure and on the complete user view (data, attributes, per-node metadata JSON, "
    "schemas in use, and the result sets of a query battery from several start nodes). No reference model decides. "
    "Non-trivial = >=1 patch boundary, >=1 successful metadata op and >=1 successful copy/move; distinct by step kinds"
)
ASSUMPTIONS = ["documented IH5 subset only: printable-ASCII keys without '@', no links, no DEL-marker value",
               "not asserted: exception types; UUIDs; mode; raw layout; require_dataset with a dtype/shape different from "
               "an existing dataset (IH5 documents this check as TODO)"]
REQUIRED_CLASSES = {"all": ["commit", "reopen", "attach", "detach", "copy_node_forms", "selfmove", "copy_with_meta",
                            "move_with_meta", "failed_step"]}
BUDGET_S = {"quick": 900, "thorough": 3 * 3600}
NSHARD = 16
QUERIES = [("verif.base", None), ("verif.base", (1, 0, 0)), ("verif.base", (1, 1, 0)), ("verif.base", (2, 0, 0)), ("verif.mid", None),
           ("verif.leaf", None), ("verif.alpha", None), ("core.file", None), ("core.person", (0, 1, 0)), ("verifother.thing", None), ("verif.nope", None)]


def view(sess, t, with_queries=True):
    mc = t.mc
    ud = C.user_dump(mc)
    paths = sorted(ud)
    md = C.meta_dump(mc, paths)
    sc = sorted((r.name, tuple(r.version)) for r in mc.metador.schemas.keys())
    q = {}
    starts = ["/"] + [p for p in paths if ud[p][0] == "g" and p != "/"][:2] + [p for p in paths if ud[p][0] == "d"][:1]
    for sname, sver in (QUERIES if with_queries else []):
        for s in starts:
            node = mc if s == "/" else mc[s]
            try:
                q[f"{sname}@{sver}@{s}"] = sorted(n.name for n in node.metador.query(sname, sver))
            except Exception as e:  # noqa: BLE001
                q[f"{sname}@{sver}@{s}"] = f"raises {type(e).__name__}"
    # lookups that miss: absent names, and paths that lead through a dataset
    dsets = [p for p in paths if ud[p][0] == "d"][:2]
    for base_p in ["/zz-absent", "/zz/absent"] + [d + "/x" for d in dsets] + [d + "/x/y" for d in dsets[:1]]:
        for how, fn in (("get", lambda: mc.get(base_p)), ("get_default", lambda: mc.get(base_p, 42)), ("in", lambda: base_p in mc),
                        ("rel_get", lambda: mc.get(base_p.lstrip("/"), "dflt"))):
            try:
                r_ = fn()
                q[f"miss:{how}:{base_p}"] = r_ if isinstance(r_, (int, str, bool, type(None))) else f"<{type(r_).__name__}>"
            except Exception as e:  # noqa: BLE001
                q[f"miss:{how}:{base_p}"] = f"raises {type(e).__name__}"
    return dict(data=ud, meta=md, schemas=sc, queries=q)


def after_step(sess, op):
    views = []
    for t in sess.targets:
        try:
            views.append(view(sess, t, with_queries=op[0] in ("reopen", "commit", "purge") or sess.pos % 3 == 0))
        except Exception as e:  # noqa: BLE001
            raise Violation(f"C09:view-raises:{t.driver}", f"after step {sess.pos} {op[0]}: {type(e).__name__}: {str(e)[:300]}", "readable")
    base = views[0]
    for t, v in zip(sess.targets[1:], views[1:]):
        for part in ("data", "meta", "schemas", "queries"):
            if v[part] != base[part]:
                if part == "data":
                    det = diff_dumps(v[part], base[part])
                else:
                    ks = [k for k in set(v[part]) | set(base[part])] if isinstance(v[part], dict) else []
                    det = [f"{k}: {t.driver}={v[part].get(k)!r} h5={base[part].get(k)!r}" for k in sorted(ks) if v[part].get(k) != base[part].get(k)][:4] \
                        if ks else f"{t.driver}={v[part]} h5={base[part]}"
                raise Violation(f"C09:view-differs:{part}", f"after step {sess.pos} {op[0]} ({t.driver} vs h5): {str(det)[:700]}", "identical user view")


def run_case(case, rec=None):
    sess = C.CSession(["h5", "ih5", "ih5mf"], sig="C09", after_step=after_step, differential_only=True)
    try:
        try:
            sess.feed(case["history"])
            sess.step(["reopen"])
        except C.EnvBug:
            if rec is not None:
                rec.excluded["hdf5-2.0-H5Ocopy-absolute-destination-bug"] += 1
            return
        if rec is not None:
            cl = sess.classes
            nt = "commit" in cl and bool(cl & {"attach", "detach"}) and bool(cl & {"copy_with_meta", "copy_plain", "move_with_meta", "copy_without_meta"})
            kinds = [k for k, ok in sess.steps]
            rec.case(nt_key=[kinds, [ok for _, ok in sess.steps]] if nt else None, classes=sorted(cl),
                     sample=dict(case, steps=kinds) if nt else None)
    finally:
        sess.destroy()


def selfcheck():
    H.install_work_guard()


def plan(tier, seed):
    return [dict(name=f"hist-{i}", i=i) for i in range(NSHARD)]


def run_shard(shard, tier, seed, rec):
    H.install_work_guard()
    n = {"quick": 10, "thorough": 700}[tier]
    strat = C.chistories(8, 24 if tier == "quick" else 50, self_move=True).map(lambda h: dict(history=h))
    hyp.search(strat, lambda c: run_case(c, rec), rec, seed=seed * 1000 + shard["i"], max_examples=n,
               shrink_budget_s=30 if tier == "quick" else 120)


def replay(rp, rec):
    H.install_work_guard()
    try:
        run_case(rp["case"], rec)
    except Violation as v:
        rec.fail(v.signature, rp["case"], v.observed, v.expected)
