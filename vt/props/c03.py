"""C03 — Closing and reopening a record reproduces exactly the same view; open modes follow h5py.File."""
import itertools
import os
import shutil
from pathlib import Path

from hypothesis import strategies as st

from .. import compat  # noqa: F401
from .. import history as H
from .. import hyp, recutil
from ..evidence import HarnessError, Violation
from ..treemodel import diff_dumps, dump_real

ID = "C03"
LEVEL = "exploration"
RULE = (
    "(a) generated histories (C01 grammar incl. discard, reopen), final close, then reopen 'r' by name and by the "
    "explicit file list in EVERY permutation (<=5 files; else 30 sampled): view == view before close == reference "
    "tree; (b) exhaustive matrix mode{r,r+,a,w,w-,x} x situation{absent, uncommitted base, committed base, base+2 "
    "patches, base+patch+uncommitted patch} x class{IH5Record,IH5MFRecord} x argument{name,list}, each in a directory "
    "shared with prefix-related records fo/foo2/foo-bar/foo-/foobar (each base+patch): outcome table from the "
    "h5py.File mode contract, file-set and byte-digest deltas, refused writes in 'r', view after open and after "
    "write+close+reopen, neighbours byte-identical and opening to their own content, find_files/list_records exact; "
    "in 'r' every record object reachable from the record (.file, node.file, parent chains) refuses to write; a refused "
    "open (mixed file list) precedes each r/r+/a open; (c) record names outside the alphabet are refused, 'w' over "
    "orphan patch containers gives a usable record. "
    "Non-trivial = matrix cell with >=1 patch, or a reopen under a non-identity permutation; distinct by cell / "
    "(history shape, permutation)"
)
ASSUMPTIONS = ["not asserted: stale *.ih5mf.json left behind by 'w'; exception class of refused writes in 'r'; "
               "'w' when only patches but no base exist; bytes of the uncommitted newest container"]
REQUIRED_CLASSES = {"all": ["matrix_cell", "perm_nonidentity", "reopen_by_name", "files_ge3"]}
BUDGET_S = {"quick": 900, "thorough": 3 * 3600}

NEIGHBOURS = ["fo", "foo2", "foo-bar", "foo-", "foobar"]
MODES = ["r", "r+", "a", "w", "w-", "x"]
SITUATIONS = ["absent", "uncommitted_base", "committed_base", "patched", "uncommitted_patch"]


def _mk_record(cls, d, name, situation):
    """Build a record and return the expected view {path: value} of what a reader must see."""
    p = os.path.join(d, name)
    if situation == "absent":
        return None
    r = cls(p, "w")
    r["who"] = name
    r["v0"] = 0
    r["g/x"] = 1
    view = {"/who": name, "/v0": 0, "/g/x": 1}
    if situation == "uncommitted_base":
        r.close(commit=False)
        return view
    r.commit_patch()
    if situation == "committed_base":
        r.close()
        return view
    r.create_patch()
    del r["v0"]
    r["v1"] = 1
    del view["/v0"]
    view["/v1"] = 1
    r.commit_patch()
    if situation == "patched":
        r.create_patch()
        r["g/y"] = 2
        view["/g/y"] = 2
        r.commit_patch()
        r.close()
        return view
    if situation == "patched11":  # two-digit patch indices
        for i in range(2, 12):
            r.create_patch()
            r[f"w{i}"] = i
            view[f"/w{i}"] = i
            r.commit_patch()
        r.close()
        return view
    if situation == "uncommitted_patch":
        r.create_patch()
        r["u"] = 9
        view["/u"] = 9
        r.close(commit=False)
        return view
    if situation == "neighbour":
        r.close()
        return view
    raise HarnessError(situation)


def _view(rec):
    out = {}

    def cb(name, node):
        if not hasattr(node, "keys"):
            v = node[()]
            out["/" + name] = v.decode() if isinstance(v, bytes) else int(v)

    rec.visititems(cb)
    return out


def _fixture(cls, situation, sub=""):
    root = H.new_scratch("vt-c03-")
    d = os.path.join(root, sub) if sub else root
    os.makedirs(d, exist_ok=True)
    try:
        for n in NEIGHBOURS:
            _mk_record(cls, d, n, "neighbour")
        view = _mk_record(cls, d, "foo", situation)
    except Exception as e:  # noqa: BLE001 - plain documented use (create with 'w', patch, commit) next to other records
        H.close_leaked_h5()
        shutil.rmtree(root, ignore_errors=True)
        raise Violation("C03:create-next-to-other-records-fails", f"{situation}: {type(e).__name__}: {e}", "records are created")
    return root, view


def _target_files(listing):
    return sorted(n for n in listing if n == "foo.ih5" or n.startswith("foo.p") or n.startswith("foo.ih5mf"))


def check_cell(cls, situation, mode, form, fixture, view, sub=""):
    droot = H.new_scratch("vt-c03c-")
    shutil.rmtree(droot)
    shutil.copytree(fixture, droot)
    d = os.path.join(droot, sub) if sub else droot
    cell = f"{cls.__name__}/{situation}/{mode}/{form}" + (f"/dir={sub}" if sub else "")
    try:
        before = recutil.dir_digest(d)
        tfiles = [n for n in _target_files(before) if n.endswith(".ih5")]
        committed = [n for n in _target_files(before)
                     if not (situation == "uncommitted_base" or situation == "uncommitted_patch" and n.startswith("foo.p2."))]
        arg = os.path.join(d, "foo") if form == "name" else [Path(os.path.join(d, n)) for n in reversed(tfiles)]
        expect_ok = {"r": situation != "absent", "r+": situation != "absent", "a": True, "w": form == "name",
                     "w-": form == "name" and situation == "absent", "x": form == "name" and situation == "absent"}[mode]
        ids = H.open_h5_ids()
        rec, exc = None, None
        if tfiles and mode in ("r+", "a", "r"):
            # a refused open right before (file list mixed with another record's container; the caller catches the
            # error) must not get in the way of the open that follows - nothing is cleaned up in between
            try:
                bad = cls([Path(os.path.join(d, n)) for n in tfiles] + [Path(os.path.join(d, NEIGHBOURS[0] + ".ih5"))], "r")
            except Exception:  # noqa: BLE001
                pass
            else:
                bad.close()
                raise Violation("C03:mixed-file-list-accepted", cell, "refused")
        try:
            rec = cls(arg, mode)
        except Exception as e:  # noqa: BLE001
            exc = e
            H.close_leaked_h5(ids)
        if not expect_ok:
            if rec is not None:
                rec.close(commit=False)
                raise Violation(f"C03:open-accepted:{mode}:{situation}:{form}", f"{cell}: open succeeded", "refused")
            if mode in ("r", "r+") and not isinstance(exc, FileNotFoundError):
                raise Violation(f"C03:wrong-exception:{mode}:absent", f"{type(exc).__name__}: {exc}", "FileNotFoundError")
            after = recutil.dir_digest(d)
            if after != before:
                raise Violation(f"C03:refused-open-changed-files:{mode}", _delta(before, after), "directory unchanged")
            return
        if rec is None:
            raise Violation(f"C03:open-refused:{mode}:{situation}:{form}", f"{cell}: {type(exc).__name__}: {exc}", "opens")
        try:
            after = recutil.dir_digest(d)
            new = sorted(set(after) - set(before))
            gone = sorted(set(before) - set(after))
            changed_committed = [n for n in committed if n in after and after[n] != before[n]]
            neigh_changed = [n for n in before if n not in _target_files(before) and after.get(n) != before[n]]
            if neigh_changed:
                raise Violation("C03:other-record-touched", f"{cell}: {neigh_changed}", "files of other records untouched")
            exp_mode = "r" if mode == "r" else "r+"
            if rec.mode != exp_mode:
                raise Violation("C03:mode-attribute", f"{cell}: {rec.mode}", exp_mode)
            if mode == "r":
                if after != before:
                    raise Violation("C03:r-open-changed-files", f"{cell}: {_delta(before, after)}", "nothing changes")
                exp_view = view
            elif mode in ("r+", "a"):
                if gone or changed_committed:
                    raise Violation(f"C03:{mode}-open-changed-existing", f"{cell}: gone={gone} changed={changed_committed}", "existing files kept")
                if situation == "absent":
                    exp_new = ["foo.ih5"]
                elif situation in ("uncommitted_base", "uncommitted_patch"):
                    exp_new = []  # continue the uncommitted container
                else:
                    k = len(tfiles)
                    exp_new = [f"foo.p{k}.ih5"]
                if new != exp_new:
                    raise Violation(f"C03:{mode}-open-new-files:{situation}", f"{cell}: new files {new}", exp_new)
                exp_view = view or {}
            else:  # w, w-, x on name
                left = [n for n in _target_files(after) if n.endswith(".ih5")]
                if left != ["foo.ih5"]:
                    raise Violation(f"C03:{mode}-leaves-files", f"{cell}: {left}", ["foo.ih5"])
                exp_view = {}
            got = _view(rec)
            if got != exp_view:
                raise Violation(f"C03:view-after-open:{mode}:{situation}", f"{cell}: {got}", exp_view)
            if mode == "r":
                # the record itself and every record object reachable from it (node.file, parent chains)
                objs = [("", rec)]
                for nm, get in (("file.", lambda: rec.file), ("root.file.", lambda: rec["/"].file),
                                ("node.file.", lambda: rec[sorted(rec.keys())[0]].file),
                                ("node.parent.file.", lambda: rec[sorted(rec.keys())[0]].parent.file)):
                    try:
                        objs.append((nm, get()))
                    except Exception:  # noqa: BLE001
                        pass
                for nm, ro in objs:
                    if getattr(ro, "mode", "r") != "r":
                        raise Violation(f"C03:r-allows:{nm}mode", f"{cell}: {nm}mode is {ro.mode!r} for a record opened with 'r'", "r")
                    for what, fn in (("setitem", lambda: ro.__setitem__("nn", 1)), ("create_patch", lambda: ro.create_patch()),
                                     ("delitem", lambda: ro.__delitem__("who")), ("attrs", lambda: ro.attrs.__setitem__("k", 1)),
                                     ("create_group", lambda: ro.create_group("gg")), ("commit_patch", lambda: ro.commit_patch()),
                                     ("discard_patch", lambda: ro.discard_patch())):
                        try:
                            fn()
                        except Exception:  # noqa: BLE001
                            continue
                        raise Violation(f"C03:r-allows:{nm}{what}", f"{cell}: {nm}{what} succeeded in mode r", "refused")
                rec.close()
                rec = None
                final = recutil.dir_digest(d)
                if final != before:
                    raise Violation("C03:r-session-changed-files", f"{cell}: {_delta(before, final)}", "nothing changes")
            else:
                try:
                    rec["new"] = 5
                except Exception as e:  # noqa: BLE001
                    raise Violation(f"C03:{mode}-not-writable:{situation}", f"{cell}: {type(e).__name__}: {e}", "writable")
                rec.close()
                rec = None
                final = recutil.dir_digest(d)
                ch = [n for n in committed if mode in ("r+", "a") and final.get(n) != before[n]]
                if ch:
                    raise Violation(f"C03:{mode}-session-changed-committed", f"{cell}: {ch}", "committed files kept")
                try:
                    r2 = cls(os.path.join(d, "foo"), "r")
                except Exception as e:  # noqa: BLE001
                    H.close_leaked_h5(ids)
                    raise Violation(f"C03:reopen-after-write-fails:{mode}:{situation}", f"{cell}: {type(e).__name__}: {e}", "opens")
                try:
                    got = _view(r2)
                finally:
                    r2.close()
                exp2 = dict(exp_view, **{"/new": 5})
                if got != exp2:
                    raise Violation(f"C03:view-after-write-reopen:{mode}:{situation}", f"{cell}: {got}", exp2)
        finally:
            if rec is not None:
                try:
                    rec.close(commit=False)
                except Exception:  # noqa: BLE001
                    H.close_leaked_h5(ids)
        # neighbours and name-based discovery
        final = recutil.dir_digest(d)
        for n in NEIGHBOURS:
            ff = sorted(str(p.name) for p in cls.find_files(Path(d) / n))
            exp_ff = sorted(x for x in final if x.endswith(".ih5") and (x == n + ".ih5" or x.startswith(n + ".p")))
            if ff != exp_ff:
                raise Violation("C03:find-files-wrong", f"find_files({n}) -> {ff}", exp_ff)
            try:
                r3 = cls(os.path.join(d, n), "r")
            except Exception as e:  # noqa: BLE001
                H.close_leaked_h5(ids)
                raise Violation("C03:neighbour-does-not-open", f"{cell}: {n}: {type(e).__name__}: {e}", "opens to its own content")
            try:
                v = _view(r3)
            finally:
                r3.close()
            if v.get("/who") != n or v != {"/who": n, "/g/x": 1, "/v1": 1}:
                raise Violation("C03:neighbour-shows-other-content", f"{n}: {v}", "its own content")
        ff = sorted(str(p.name) for p in cls.find_files(Path(d) / "foo"))
        exp_ff = sorted(x for x in final if x.endswith(".ih5") and (x == "foo.ih5" or x.startswith("foo.p")))
        if ff != exp_ff:
            raise Violation("C03:find-files-wrong", f"find_files(foo) -> {ff}", exp_ff)
        names = sorted(p.name for p in cls.list_records(Path(d)))
        exp_names = sorted(set(NEIGHBOURS) | ({"foo"} if exp_ff else set()))
        if names != exp_names:
            raise Violation("C03:list-records-wrong", names, exp_names)
        # nothing may land outside the record's directory (e.g. in a parent directory with a dotted name)
        stray = [os.path.relpath(os.path.join(dp, f), droot) for dp, _, fs in os.walk(droot) for f in fs
                 if os.path.abspath(dp) != os.path.abspath(d)]
        if stray:
            raise Violation("C03:file-created-outside-record-directory", stray, "all containers next to the base container")
    finally:
        shutil.rmtree(droot, ignore_errors=True)


def _delta(a, b):
    return dict(new=sorted(set(b) - set(a)), gone=sorted(set(a) - set(b)), changed=sorted(n for n in a if n in b and a[n] != b[n]))


# ---------------------------------------------------------------- (a) histories + permutations

def run_history_case(case, rec=None, tier="quick"):
    cls = H.IH5Record if case.get("cls", "IH5Record") == "IH5Record" else H.IH5MFRecord
    sess = H.Session(lambda: H.IH5Target(cls, "rec"), placement="generated", check_every=False, sig_prefix="C03")
    try:
        sess.feed(case["history"])
        sess.verify("before close")
        t = sess.target
        before = dump_real(t.rec)
        files = [str(p) for p in t.rec.ih5_files]
        t.rec.close()
        t.rec = None
        exp = sess.tree.dump()
        dig = recutil.dir_digest(t.dir)
        classes = []

        def reopen(arg, how):
            ids = H.open_h5_ids()
            try:
                r = cls(arg, "r")
            except Exception as e:  # noqa: BLE001
                H.close_leaked_h5(ids)
                raise Violation(f"C03:reopen-fails:{how.split()[0]}", f"{how}: {type(e).__name__}: {e}", "opens")
            try:
                got = dump_real(r)
                order = [str(p) for p in r.ih5_files]
            finally:
                r.close()
            if got != before or got != exp:
                dd = diff_dumps(got, exp)
                raise Violation(f"C03:view-differs-after-reopen:{how.split()[0]}", f"{how}: {dd}", "same view")
            if order != files:
                raise Violation("C03:file-order-after-reopen", f"{how}: {order}", files)
            if recutil.dir_digest(t.dir) != dig:
                raise Violation("C03:r-open-changed-files", how, "nothing changes")

        reopen(t.path, "by-name")
        classes.append("reopen_by_name")
        n = len(files)
        if n <= 5:
            perms = list(itertools.permutations(range(n)))
        else:
            import random
            rng = random.Random(len(case["history"]) * 1000 + n)
            perms = [tuple(rng.sample(range(n), n)) for _ in range(30)]
        if tier == "quick" and len(perms) > 24:
            perms = perms[:: len(perms) // 24]
        for pm in perms:
            reopen([Path(files[i]) for i in pm], f"by-list perm={pm}")
            if list(pm) != sorted(pm):
                classes.append("perm_nonidentity")
        if n >= 3:
            classes.append("files_ge3")
        out = sess.finish.__self__.out
        if rec is not None:
            nt = n >= 2
            rec.case(nt_key=[case.get("cls"), n, H.shape_key(sess.out, "g")] if nt else None,
                     classes=sorted(set(classes) | sess.out.classes),
                     sample=dict(case, files=n, permutations=len(perms)) if n >= 3 else None, n=1 + len(perms))
    finally:
        sess.destroy()
        H.close_leaked_h5()


def selfcheck():
    H.install_work_guard()


def check_orphans(cls, rec):
    """'w' replaces the WHOLE record - also when only patch containers of it are left (base lost)."""
    d = H.new_scratch("vt-c03o-")
    try:
        p = os.path.join(d, "foo")
        r = cls(p, "w")
        r["old"] = 1
        r.commit_patch()
        r.create_patch()
        r["old2"] = 2
        r.close()
        for f in list(os.listdir(d)):
            if f == "foo.ih5" or f.startswith("foo.ih5mf"):
                os.unlink(os.path.join(d, f))
        case = dict(kind="orphans", cls=cls.__name__)
        for mode in ("x", "w-"):
            # leftover patch containers ARE (what is left of) an existing record: the creating modes refuse, like r / r+ / a
            try:
                r = cls(p, mode)
            except Exception:  # noqa: BLE001
                H.close_leaked_h5()
                continue
            r["z"] = 1
            r.close()
            try:
                r = cls(p, "r")
                r.close()
            except Exception as e:  # noqa: BLE001
                H.close_leaked_h5()
                rec.fail(f"C03:{mode}-over-orphan-patches-unusable", dict(case, mode=mode), f"mode {mode!r} created a base next to leftover patch "
                         f"containers; reopening by name: {type(e).__name__}: {str(e)[:150]}", "refused (FileExistsError), or a usable record")
            os.unlink(os.path.join(d, "foo.ih5"))
            for f in [x for x in os.listdir(d) if x.startswith("foo.ih5mf")]:
                os.unlink(os.path.join(d, f))
        try:
            r = cls(p, "w")
            r["new"] = 5
            r.commit_patch()
            r.create_patch()
            r["new2"] = 6
            r.close()
            r = cls(p, "r")
            try:
                v = _view(r)
            finally:
                r.close()
        except Exception as e:  # noqa: BLE001
            H.close_leaked_h5()
            rec.fail("C03:w-over-orphan-patches-unusable", case, f"{type(e).__name__}: {str(e)[:200]} (files now: {sorted(os.listdir(d))})",
                     "'w' replaces the whole record: create, patch, reopen work")
            return
        if v != {"/new": 5, "/new2": 6}:
            rec.fail("C03:w-over-orphan-patches-wrong-view", case, v, {"/new": 5, "/new2": 6})
        rec.case(nt_key=case, classes=["w_over_orphan_patches"], sample=case)
    finally:
        shutil.rmtree(d, ignore_errors=True)


def check_stray_files(cls, rec):
    """Files next to a record whose names start like the record's but are no containers of it (NAME_raw.ih5 from
    another tool, NAME.bak.ih5 copied by the user; '_' and '.' cannot occur in record names) do not belong to it:
    opening by name works, 'w' leaves them alone."""
    import h5py

    d = H.new_scratch("vt-c03s-")
    try:
        r = cls(os.path.join(d, "foo"), "w")
        r["who"] = "foo"
        r.commit_patch()
        r.create_patch()
        r["v1"] = 1
        r.close()
        with h5py.File(os.path.join(d, "foo_raw.ih5"), "w") as f:
            f["x"] = 1
        shutil.copy(os.path.join(d, "foo.ih5"), os.path.join(d, "foo.bak.ih5"))
        stray = {n: recutil.dir_digest(d)[n] for n in ("foo_raw.ih5", "foo.bak.ih5")}
        case = dict(kind="stray", cls=cls.__name__)
        for mode in ("r", "r+", "w"):
            try:
                r = cls(os.path.join(d, "foo"), mode)
                v = _view(r)
                r.close()
            except Exception as e:  # noqa: BLE001
                H.close_leaked_h5()
                rec.fail(f"C03:open-refused:{mode}:stray-files", dict(case, mode=mode), f"{type(e).__name__}: {str(e)[:200]}",
                         "opens (the other files are not containers of this record)")
                break
            if mode != "w" and v != {"/who": "foo", "/v1": 1}:
                rec.fail(f"C03:view-after-open:{mode}:stray-files", dict(case, mode=mode), v, {"/who": "foo", "/v1": 1})
            now = recutil.dir_digest(d)
            ch = sorted(n for n in stray if now.get(n) != stray[n])
            if ch:
                rec.fail(f"C03:other-file-touched:{mode}", dict(case, mode=mode), f"{ch} changed / deleted by opening 'foo' with {mode!r}",
                         "files that are no containers of the record untouched")
                break
        rec.case(nt_key=["stray", cls.__name__], classes=["stray_files_next_to_record"], sample=case)
    finally:
        shutil.rmtree(d, ignore_errors=True)


def check_w_over_kept_manifests(rec):
    """IH5MFRecord keeps a manifest next to each container and protects manifests whose container was removed (they
    are what stubs are made from). Mode 'w' replaces the whole record: it either succeeds (and the record can be
    continued afterwards) or refuses before it deletes anything."""
    for removed in (["foo.ih5"], ["foo.p1.ih5"], ["foo.ih5", "foo.p1.ih5"]):
        d = H.new_scratch("vt-c03k-")
        case = dict(kind="kept-manifests", removed=removed)
        try:
            r = H.IH5MFRecord(os.path.join(d, "foo"), "w")
            r["who"] = "old"
            r.commit_patch()
            r.create_patch()
            r["v1"] = 1
            r.close()
            for n in removed:
                os.unlink(os.path.join(d, n))
            before = recutil.dir_digest(d)
            try:
                r = H.IH5MFRecord(os.path.join(d, "foo"), "w")
                r["who"] = "new"
                r.close()
                err = None
            except Exception as e:  # noqa: BLE001
                H.close_leaked_h5()
                err = f"{type(e).__name__}: {str(e)[:160]}"
            now = recutil.dir_digest(d)
            if err is not None:
                gone = sorted(n for n in before if n not in now)
                if gone:
                    rec.fail("C03:w-refused-after-deleting", case, f"'w' raised {err} after deleting {gone}", "replaces the record, or refuses without touching files")
                continue
            try:
                r = H.IH5MFRecord(os.path.join(d, "foo"), "r+")
                v = _view(r)
                r["more"] = 1
                r.close()
                r = H.IH5MFRecord(os.path.join(d, "foo"), "r")
                v2 = _view(r)
                r.close()
            except Exception as e:  # noqa: BLE001
                H.close_leaked_h5()
                rec.fail("C03:record-unusable-after-w", case, f"after 'w' over {sorted(before)}: {type(e).__name__}: {str(e)[:160]} (files now: {sorted(recutil.dir_digest(d))})",
                         "the new record can be reopened and patched")
                continue
            if v != {"/who": "new"} or v2 != {"/who": "new", "/more": 1}:
                rec.fail("C03:view-after-w", case, [v, v2], "the new record only")
            rec.case(nt_key=["kept-manifests", removed], classes=["w_over_kept_manifests"], sample=case)
        finally:
            shutil.rmtree(d, ignore_errors=True)


def check_names(cls, rec):
    """Record names outside the documented alphabet are refused (they would collide with other records' files)."""
    d = H.new_scratch("vt-c03n-")
    try:
        r = cls(os.path.join(d, "foo"), "w")
        r["who"] = "foo"
        r.close()
        before = recutil.dir_digest(d)
        for bad in ("foo\n", "fo o", "foo.p1", "foo.ih5", "foo*", "\nfoo"):
            case = dict(kind="names", cls=cls.__name__, name=bad)
            for mode in ("w", "a", "x"):
                try:
                    x = cls(os.path.join(d, bad), mode)
                except Exception:  # noqa: BLE001
                    H.close_leaked_h5()
                    continue
                x.close()
                rec.fail("C03:invalid-record-name-accepted", dict(case, mode=mode), f"record name {bad!r} accepted in mode {mode}; files now "
                         f"{sorted(os.listdir(d))}", "refused (name outside the documented alphabet)")
                break
            rec.case(nt_key=case, classes=["invalid_record_name"], sample=None)
        try:
            r = cls(os.path.join(d, "foo"), "r")
            v = _view(r)
            r.close()
        except Exception as e:  # noqa: BLE001
            H.close_leaked_h5()
            rec.fail("C03:record-unopenable-after-refused-names", dict(kind="names", cls=cls.__name__), f"{type(e).__name__}: {e}", "opens")
            return
        if v != {"/who": "foo"}:
            rec.fail("C03:record-changed-after-refused-names", dict(kind="names", cls=cls.__name__), v, {"/who": "foo"})
    finally:
        shutil.rmtree(d, ignore_errors=True)


def plan(tier, seed):
    sh = [dict(name="names-orphans", kind="names")]
    for ci, cls in enumerate(["IH5Record", "IH5MFRecord"]):
        for s in SITUATIONS:
            sh.append(dict(name=f"matrix-{cls}-{s}", kind="matrix", cls=cls, situation=s))
    # extra dimensions: two-digit patch indices; directories whose names contain the patch infix / extension
    sh.append(dict(name="matrix-IH5Record-patched11", kind="matrix", cls="IH5Record", situation="patched11"))
    sh.append(dict(name="matrix-IH5MFRecord-patched11", kind="matrix", cls="IH5MFRecord", situation="patched11"))
    for sub in ("data.projects/v1", "store.ih5/x.p1"):
        for s in ("committed_base", "patched", "absent"):
            sh.append(dict(name=f"matrix-dir-{sub}-{s}", kind="matrix", cls="IH5Record", situation=s, sub=sub))
    sh += [dict(name=f"hist-{i}", kind="hist", i=i) for i in range(8)]
    return sh


def run_shard(shard, tier, seed, rec):
    H.install_work_guard()
    if shard["kind"] == "names":
        for cls in (H.IH5Record, H.IH5MFRecord):
            check_names(cls, rec)
            check_orphans(cls, rec)
            check_stray_files(cls, rec)
        check_w_over_kept_manifests(rec)
        return
    if shard["kind"] == "matrix":
        cls = H.IH5Record if shard["cls"] == "IH5Record" else H.IH5MFRecord
        s = shard["situation"]
        sub = shard.get("sub", "")
        try:
            fx, view = _fixture(cls, s, sub)
        except Violation as v:
            rec.fail(v.signature, dict(kind="cell", cls=shard["cls"], situation=s, mode="w", form="name"), v.observed, v.expected)
            return
        try:
            for mode in MODES:
                for form in ("name", "list"):
                    if form == "list" and s == "absent":
                        continue
                    case = dict(kind="cell", cls=shard["cls"], situation=s, mode=mode, form=form, sub=sub)
                    try:
                        check_cell(cls, s, mode, form, fx, view, sub)
                    except Violation as v:
                        rec.fail(v.signature, case, v.observed, v.expected)
                    nt = s in ("patched", "uncommitted_patch", "patched11")
                    rec.case(nt_key=case if nt else None, classes=["matrix_cell"], sample=case if nt and mode == "a" else None)
            rec.exhaustive["open_mode_matrix"] = True
        finally:
            shutil.rmtree(fx, ignore_errors=True)
    else:
        i = shard["i"]
        n = {"quick": 60, "thorough": 900}[tier]
        cls_name = "IH5Record" if i % 2 == 0 else "IH5MFRecord"
        strat = H.histories(3, 25 if tier == "quick" else 50, boundary_weight=2).map(lambda h: dict(history=h, cls=cls_name))
        hyp.search(strat, lambda c: run_history_case(c, rec, tier), rec, seed=seed * 1000 + i, max_examples=n)


def replay(rp, rec):
    H.install_work_guard()
    case = rp["case"]
    try:
        if case.get("kind") == "cell":
            cls = H.IH5Record if case["cls"] == "IH5Record" else H.IH5MFRecord
            fx, view = _fixture(cls, case["situation"], case.get("sub", ""))
            try:
                check_cell(cls, case["situation"], case["mode"], case["form"], fx, view, case.get("sub", ""))
            finally:
                shutil.rmtree(fx, ignore_errors=True)
            rec.case()
        elif case.get("kind") in ("names", "orphans", "stray"):
            cls = H.IH5Record if case["cls"] == "IH5Record" else H.IH5MFRecord
            dict(names=check_names, orphans=check_orphans, stray=check_stray_files)[case["kind"]](cls, rec)
        else:
            run_history_case(case, rec, "thorough")
    except Violation as v:
        rec.fail(v.signature, case, v.observed, v.expected)
