"""C05 — merge materialises the overlay view and continues the patch chain."""
import os
from pathlib import Path

from hypothesis import strategies as st

from .. import compat  # noqa: F401
from .. import history as H
from .. import hyp, recutil
from ..evidence import Violation
from ..treemodel import diff_dumps, dump_real

ID = "C05"
LEVEL = "exploration"
RULE = (
    "source record from a generated C01-style history (0-6 patches, deletes/replacements, both record classes), "
    "merge_files on the open source, then 0-3 generated follow-up patches on the source; oracles: merged view == "
    "source view == reference tree; merged user block identifies the same record at the same patch state; source "
    "files byte-identical and ih5_meta/view unchanged through the still-open object; [merged + follow-up patches] "
    "opens and equals [source + follow-up patches]; merge refused with uncommitted changes / stubs and creates "
    "nothing. Non-trivial = source with >=2 patches containing a delete or recreate and >=1 follow-up patch; "
    "distinct by bound ops + container count + number of follow-ups"
)
ASSUMPTIONS = ["reference tree validated against plain h5py (C01 selfcheck)",
               "not asserted: byte identity of merged vs. source files; skeleton patch indices of the merged manifest"]
REQUIRED_CLASSES = {"all": ["followup_ge1", "source_ge3_containers", "mf_record", "plain_record",
                            "merge_refused_uncommitted", "merge_refused_uncommitted_readonly", "stub_merge_refused", "second_generation_merge", "cross_class_merge"]}
BUDGET_S = {"quick": 900, "thorough": 3 * 3600}
NSHARD = 16


def selfcheck():
    H.install_work_guard()
    H.selfcheck_model(40)


def plan(tier, seed):
    return [dict(name=f"merge-{i}", i=i) for i in range(NSHARD)]


def _open_set(cls, files, sig, what):
    try:
        return cls([Path(f) for f in files], "r")
    except Exception as e:  # noqa: BLE001
        H.close_leaked_h5()
        raise Violation(sig, f"{what}: {type(e).__name__}: {e}", "opens")


def run_case(case, rec=None):
    cls_name = case.get("cls", "IH5Record")
    cls = H.IH5Record if cls_name == "IH5Record" else H.IH5MFRecord
    sess = H.Session(lambda: H.IH5Target(cls, "src"), placement="generated", check_every=False, sig_prefix="C05")
    classes = set()
    try:
        sess.feed(case["history"])
        t = sess.target
        r = t.rec
        d = t.dir
        # 1. merging with uncommitted changes is refused and creates nothing
        before_dir = recutil.dir_digest(d)
        try:
            r.merge_files(Path(d) / "early")
        except Exception:  # noqa: BLE001
            classes.add("merge_refused_uncommitted")
        else:
            raise Violation("C05:merge-with-uncommitted-accepted", "merge_files succeeded with an uncommitted patch", "refused")
        r2 = recutil.dir_digest(d)
        # (the uncommitted newest container may be flushed by h5py; only the file set is compared here)
        if set(r2) != set(before_dir):
            raise Violation("C05:refused-merge-left-files", sorted(set(r2) ^ set(before_dir)), "no new files")
        # ... also when the patch was left uncommitted on disk (close without commit, or a writer that died) and the
        # record is looked at read-only
        r.close(commit=False)
        ro = None
        try:
            ro = cls(t.path, "r")
            ro.merge_files(Path(d) / "early2")
        except Exception:  # noqa: BLE001
            classes.add("merge_refused_uncommitted_readonly")
        else:
            raise Violation("C05:merge-with-uncommitted-accepted:read-only", "merge_files of a record opened with 'r' whose newest "
                            "container is an uncommitted patch succeeded", "refused")
        finally:
            if ro is not None:
                ro.close()
            else:
                H.close_leaked_h5()
        r3 = recutil.dir_digest(d)
        if set(r3) != set(before_dir):
            raise Violation("C05:refused-merge-left-files", sorted(set(r3) ^ set(before_dir)), "no new files")
        t.rec = r = cls(t.path, "r+")
        r.commit_patch()
        sess.verify("before merge")
        merge_cls = case.get("merge_cls")
        if merge_cls and merge_cls != cls_name:
            # documented: an IH5MFRecord is a valid IH5Record, and an IH5Record can be opened as IH5MFRecord
            files_all = [str(p) for p in r.ih5_files]
            r.close()
            cls = H.IH5Record if merge_cls == "IH5Record" else H.IH5MFRecord
            try:
                r = cls([Path(f) for f in files_all], "r")
            except Exception as e:  # noqa: BLE001
                H.close_leaked_h5()
                raise Violation("C05:record-does-not-open-as-other-class", f"{cls_name} files as {merge_cls}: {type(e).__name__}: {e}", "opens")
            t.rec = r
            t.cls = cls
            classes.add("cross_class_merge")
        if cls is H.IH5MFRecord and case.get("mf_elsewhere") and os.path.exists(recutil.manifest_path(r.ih5_files[-1])):
            # the newest manifest is kept under another name and handed over explicitly (manifest_file=...)
            files_all = [str(p) for p in r.ih5_files]
            r.close()
            elsewhere = os.path.join(d, "manifest-kept-elsewhere.json")
            os.rename(recutil.manifest_path(files_all[-1]), elsewhere)
            try:
                r = cls([Path(f) for f in files_all], "r", manifest_file=Path(elsewhere))
            except Exception as e:  # noqa: BLE001
                H.close_leaked_h5()
                raise Violation("C05:record-does-not-open-with-manifest-file", f"{type(e).__name__}: {e}", "opens")
            t.rec = r
            classes.add("manifest_given_explicitly")
        meta_before = recutil.meta_dicts(r)
        files_before = [str(p) for p in r.ih5_files]
        dig_before = recutil.dir_digest(d)
        view_before = dump_real(r)
        if cls is H.IH5MFRecord and case.get("announce", True):
            # extensions announced for the next commit by changing the live manifest object (what the packer does):
            # they are not committed, so they are not part of what is merged
            try:
                r.manifest.manifest_exts["announced-for-the-next-commit"] = 1
                classes.add("live_manifest_changed_before_merge")
            except Exception:  # noqa: BLE001 - no manifest (plain record opened as IH5MFRecord)
                pass
        # 2. merge
        try:
            merged_file = r.merge_files(Path(d) / "merged")
        except Exception as e:  # noqa: BLE001
            raise Violation("C05:merge-raises", f"{type(e).__name__}: {e}", "merge succeeds")
        dig_after = recutil.dir_digest(d)
        changed = [n for n in dig_before if dig_after.get(n) != dig_before[n]]
        if changed:
            raise Violation("C05:source-files-changed", changed, "source files byte-identical")
        new = sorted(set(dig_after) - set(dig_before))
        src_has_mf = "ih5mf_v01" in (meta_before[-1].get("ub_exts") or {})
        exp_new = ["merged.ih5"] + (["merged.ih5mf.json"] if cls is H.IH5MFRecord and src_has_mf else [])
        if new != sorted(exp_new):
            if new == ["merged.ih5", "merged.ih5mf.json"] and cls is H.IH5MFRecord:
                # the source has no manifest; one next to the merged container would have to be the manifest of it
                recutil.check_manifest_matches(merged_file, "C05:manifest-of-merged-plain-record")
            else:
                raise Violation("C05:merge-created-unexpected-files", new, exp_new)
        # merging onto an existing record (itself / the merged one) is refused and changes nothing
        for existing in ("src", "merged"):
            try:
                r.merge_files(Path(d) / existing)
            except Exception:  # noqa: BLE001
                pass
            else:
                raise Violation("C05:merge-onto-existing-record-accepted", existing, "refused (target exists)")
            now = recutil.dir_digest(d)
            if now != dig_after:
                ch = sorted(n for n in set(now) | set(dig_after) if now.get(n) != dig_after.get(n))
                raise Violation("C05:refused-merge-changed-files", f"merge onto '{existing}': {ch}", "nothing changes")
        meta_after = recutil.meta_dicts(r)
        if meta_after != meta_before:
            diff = [k for a, b in zip(meta_before, meta_after) for k in a if a[k] != b.get(k)]
            raise Violation("C05:source-ublock-mutated", f"ih5_meta of open source changed in fields {sorted(set(diff))}", "unchanged")
        if dump_real(r) != view_before:
            raise Violation("C05:source-view-changed", diff_dumps(dump_real(r), view_before), "unchanged")
        sess.verify("source after merge")
        # 3. merged record
        m = _open_set(cls, [merged_file], "C05:merged-does-not-open", "merged container")
        try:
            got = dump_real(m)
            exp = sess.tree.dump()
            if got != exp:
                dd = diff_dumps(got, exp)
                raise Violation("C05:merged-view-differs:" + "+".join(sorted({x.split()[0] for x in dd})), dd, "merged == overlay view")
            mm = recutil.meta_dicts(m)
            if len(mm) != 1:
                raise Violation("C05:merged-not-single", len(mm), 1)
            exp_ub = dict(record_uuid=meta_before[0]["record_uuid"], patch_uuid=meta_before[-1]["patch_uuid"],
                          patch_index=meta_before[-1]["patch_index"], prev_patch=meta_before[0]["prev_patch"])
            for k2, v2 in exp_ub.items():
                if mm[0][k2] != v2:
                    raise Violation(f"C05:merged-ublock:{k2}", f"{k2}={mm[0][k2]}", v2)
            if not mm[0].get("hdf5_hashsum"):
                raise Violation("C05:merged-ublock:no-hash", mm[0], "hash present")
        finally:
            m.close()
        if cls is H.IH5MFRecord and "ih5mf_v01" in (meta_before[-1].get("ub_exts") or {}):
            recutil.check_manifest_matches(merged_file, "C05")
            classes.add("mf_record")
        elif cls is H.IH5MFRecord:
            classes.add("mf_merge_of_plain_record")  # the source has no manifest, neither has the merged container
        else:
            classes.add("plain_record")
        # also by name
        m = None
        try:
            m = cls(os.path.join(d, "merged"), "r")
            if dump_real(m) != sess.tree.dump():
                raise Violation("C05:merged-view-differs:by-name", "", "")
        except Violation:
            raise
        except Exception as e:  # noqa: BLE001
            H.close_leaked_h5()
            raise Violation("C05:merged-does-not-open", f"by name: {type(e).__name__}: {e}", "opens")
        finally:
            if m is not None:
                m.close()
        if "manifest_given_explicitly" in classes:
            # (the remaining steps reopen the source by name, where its newest manifest is no longer found)
            if rec is not None:
                rec.case(nt_key=None, classes=sorted(classes), sample=None)
            return
        # 4. follow-up patches on the source apply to the merged container
        patches = []
        n_src = len(files_before)
        for j, fu in enumerate(case.get("followups", [])):
            r.create_patch()
            sess.check_every = False
            sess.placement = "none"  # boundary ops inside a follow-up are ignored
            sess.feed(fu)
            r.commit_patch()
            patches = [str(p) for p in r.ih5_files[n_src:]]
            sess.verify(f"source after follow-up {j}")
            m = _open_set(cls, [str(merged_file)] + patches, "C05:merged-plus-patch-does-not-open", f"[merged]+{len(patches)} patches")
            try:
                got = dump_real(m)
                if got != sess.tree.dump():
                    dd = diff_dumps(got, sess.tree.dump())
                    raise Violation("C05:merged-plus-patch-view-differs", dd, "same as source + patch")
            finally:
                m.close()
            classes.add("followup_ge1")
        # 4b. second generation: merge [merged + follow-up patches] again (a source whose first container
        # is not at patch index 0); the result must identify itself like the source's current state and
        # accept the source's next patch
        if patches:
            meta_now = recutil.meta_dicts(r)
            m = _open_set(cls, [str(merged_file)] + patches, "C05:merged-plus-patch-does-not-open", "for 2nd merge")
            try:
                try:
                    merged2 = m.merge_files(Path(d) / "merged2")
                except Exception as e:  # noqa: BLE001
                    raise Violation("C05:merge-raises:second-generation", f"{type(e).__name__}: {e}", "merge succeeds")
            finally:
                m.close()
            m2 = _open_set(cls, [merged2], "C05:merged-does-not-open", "second-generation merged container")
            try:
                mm = recutil.meta_dicts(m2)
                exp_ub = dict(record_uuid=meta_now[0]["record_uuid"], patch_uuid=meta_now[-1]["patch_uuid"],
                              patch_index=meta_now[-1]["patch_index"], prev_patch=None)
                for k2, v2 in exp_ub.items():
                    if mm[0][k2] != v2:
                        raise Violation(f"C05:merged-ublock:{k2}:second-generation", f"{k2}={mm[0][k2]}", v2)
                if dump_real(m2) != sess.tree.dump():
                    raise Violation("C05:merged-view-differs:second-generation", diff_dumps(dump_real(m2), sess.tree.dump()), "")
            finally:
                m2.close()
            r.create_patch()
            sess.feed([["touch", 0, 0, {"t": "int", "v": 1}], ["set", 0, "zz2", {"t": "int", "v": 2}]])
            r.commit_patch()
            newp = str(r.ih5_files[-1])
            m3 = _open_set(cls, [str(merged2), newp], "C05:merged-plus-patch-does-not-open", "[merged2, next patch of source]")
            try:
                if dump_real(m3) != sess.tree.dump():
                    raise Violation("C05:merged-plus-patch-view-differs", diff_dumps(dump_real(m3), sess.tree.dump()), "")
            finally:
                m3.close()
            classes.add("second_generation_merge")
        out = sess.finish()
        if len(files_before) >= 3:
            classes.add("source_ge3_containers")
        # 4b. a set of patches without their base (allow_baseless) is no record state that could be materialised: the
        # deletions it carries would be lost, so merging it is refused (or gives a container equivalent to the patches)
        if len(files_before) >= 3:
            bl = None
            try:
                bl = cls([Path(f) for f in files_before[1:]], "r", allow_baseless=True)
            except Exception:  # noqa: BLE001
                H.close_leaked_h5()
            if bl is not None:
                try:
                    bl.merge_files(Path(d) / "baseless")
                except Exception:  # noqa: BLE001
                    classes.add("baseless_merge_refused")
                else:
                    bl.close()
                    bl = None
                    try:
                        chk = cls([Path(files_before[0]), Path(d) / "baseless.ih5"], "r")
                    except Exception:  # noqa: BLE001
                        H.close_leaked_h5()
                        classes.add("baseless_merge_result_not_accepted")
                    else:
                        try:
                            got = dump_real(chk, crosscheck=False)
                        finally:
                            chk.close()
                        if got != view_before:
                            raise Violation("C05:baseless-merge-loses-deletions", f"base + merge of the patches-only set opens and shows "
                                            f"{diff_dumps(got, view_before)}", "refused, or equivalent to the patches")
                finally:
                    if bl is not None:
                        bl.close()
                    for f_ in [x for x in os.listdir(d) if x.startswith("baseless.")]:
                        os.unlink(os.path.join(d, f_))
        # 5. a record containing a stub refuses to merge (IH5MF only)
        if cls is H.IH5MFRecord and case.get("stub", True) and os.path.exists(recutil.manifest_path(r.ih5_files[-1])):
            sd = os.path.join(d, "stubdir")
            os.makedirs(sd)
            stub = H.IH5MFRecord.create_stub(os.path.join(sd, "stub"), Path(recutil.manifest_path(r.ih5_files[-1])))
            try:
                try:
                    stub.merge_files(Path(sd) / "m2")
                except Exception:  # noqa: BLE001
                    classes.add("stub_merge_refused")
                else:
                    raise Violation("C05:stub-merged", "merge_files on a stub succeeded", "refused")
                if sorted(os.listdir(sd)) != ["stub.ih5", "stub.ih5mf.json"]:
                    raise Violation("C05:refused-merge-left-files", sorted(os.listdir(sd)), "no new files")
            finally:
                stub.close()
        if rec is not None:
            nfu = len(case.get("followups", []))
            nt = len(files_before) >= 3 and nfu >= 1 and bool(
                out.classes & {"delete_node_from_earlier_container", "recreate_in_patch"})
            rec.case(nt_key=H.shape_key(out, f"{cls_name}/{nfu}") if nt else None, classes=sorted(classes | out.classes),
                     sample=dict(case, containers=len(files_before)) if nt else None)
    finally:
        sess.destroy()
        H.close_leaked_h5()


def run_shard(shard, tier, seed, rec):
    H.install_work_guard()
    i = shard["i"]
    n = {"quick": 80, "thorough": 1200}[tier]
    cls_name = "IH5Record" if i % 2 == 0 else "IH5MFRecord"
    fu = st.lists(H.histories(1, 8, boundary_weight=0), min_size=0, max_size=3)
    strat = st.builds(lambda h, f, mc, me: dict(history=h, followups=f if mc is None and not me else [], cls=cls_name, merge_cls=mc, mf_elsewhere=me),
                      H.histories(2, 25 if tier == "quick" else 50, boundary_weight=2), fu,
                      st.sampled_from([None, None, None, "IH5Record", "IH5MFRecord"]), st.sampled_from([False, False, False, True]))
    hyp.search(strat, lambda c: run_case(c, rec), rec, seed=seed * 1000 + i, max_examples=n,
               shrink_budget_s=25 if tier == "quick" else 120)


def replay(rp, rec):
    H.install_work_guard()
    try:
        run_case(rp["case"], rec)
    except Violation as v:
        rec.fail(v.signature, rp["case"], v.observed, v.expected)
