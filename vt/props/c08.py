"""C08 — Reserved metador_* namespace is invisible and untouchable for users."""
import itertools
import json
import re

import h5py
import numpy as np

from .. import compat  # noqa: F401
from .. import cmodel as C
from .. import history as H
from .. import hyp
from ..evidence import HarnessError, Violation
from ..treemodel import canon, diff_dumps, is_group, split

from metador_core.util import types as UT  # noqa: E402

ID = "C08"
LEVEL = "exploration"
RULE = (
    "(a) exhaustive matrix: every path-taking member of the group/file protocol (introspected from util/types.py: "
    "__getitem__, get, __contains__, __setitem__, __delitem__, create_group, require_group, create_dataset, "
    "require_dataset, move src/dst, copy src/dst/name= with string, node-object and group destinations) x reserved "
    "path shapes (first segment, later segment, absolute, TOC paths, metadata directories and objects that really "
    "exist, bare prefix, deep nesting) x receiver {container, subgroup} x state {fresh, with metadata} x driver "
    "{h5py, IH5}: the call must raise, the raw tree must be byte-identical afterwards, no internal node may be "
    "returned; (b) generated container histories with listing probes at every group after every step: keys/len/iter/"
    "values/items/reversed/get/in/visit/visititems must equal the reference model exactly, a member count stated by "
    "repr/str/format must be the user-visible one, and the user tree must equal the plain reference tree; nodes handed "
    "out for stored metadata objects are not operable; (c) every public attribute of the raw group/file class outside the protocol raises AttributeError. "
    "Non-trivial = matrix cell whose reserved segment is not the first segment or arrives through a keyword/node "
    "object, or a history step with metadata present at a probed group; distinct by cell / (steps, probes)"
)
ASSUMPTIONS = ["which exception is raised is not asserted", "__wrapped__ access is documented as bypass and not asserted"]
REQUIRED_CLASSES = {"all": ["matrix_cell", "cell_keyword_or_object", "probe_group_with_metadata", "attr_outside_protocol",
                            "text_form_states_member_count"]}
BUDGET_S = {"quick": 900, "thorough": 3 * 3600}


def raw_snapshot(raw):
    out = {"/": ("g", None, {a: canon(v) for a, v in raw.attrs.items()})}

    def cb(name, node):
        out["/" + name] = ("g" if is_group(node) else "d", None if is_group(node) else canon(node[()]),
                           {a: canon(v) for a, v in node.attrs.items()})

    raw.visititems(cb)
    return out


def build(driver, state):
    t = C.CTarget(driver)
    mc = t.mc
    mc.create_group("g/h")
    mc["d"] = np.void(b"dat")
    mc["g/e"] = 5
    mc["g"].attrs["k"] = 1
    if state == "meta":
        mc["d"].meta["verif.base"] = {"label": "x"}
        mc["g"].meta[("verif.base", (1, 1, 0))] = {"title": "t"}
        mc["g/e"].meta["verifother.thing"] = {"name": "n"}
        mc.meta["verif.mid"] = {"title": "t", "count": 1}
    if driver != "h5":
        t.commit()
        if state == "meta":
            mc["g/h"].meta["verif.leaf"] = {"title": "t", "count": 2}
    return t


def reserved_shapes(state, receiver):
    """(shape name, path as seen from the receiver)"""
    rel = ["metador_x", "h/metador_x" if receiver == "g" else "g/metador_x", "metador_", "metador_meta_", "metador_meta_zz/obj",
           "h/x/metador_y/z" if receiver == "g" else "g/h/metador_y/z", "metador_container", "metador_meta_e" if receiver == "g" else "metador_meta_d"]
    absolute = ["/metador_container", "/metador_container/links", "/metador_container/version", "/g/metador_meta_", "/metador_meta_d",
                "/g/metador_x", "/metador_x/y", "/g/h/metador_meta_/x"]
    out = [("rel:" + p, p) for p in rel] + [("abs:" + p, p) for p in absolute]
    # the same paths as bytes (h5py takes bytes paths; refusing them outright is a rejection, too)
    out += [("bytes:" + p, p.encode()) for p in (rel[0], rel[1], rel[3], rel[6], absolute[0], absolute[1], absolute[3])]
    return out


def calls(mc, recv, path, shape):
    """All ways of handing `path` to the receiver. Each entry: (name, thunk, nontrivial?)"""
    g = recv
    spath = path.decode() if isinstance(path, bytes) else path
    deep = "/" in spath.strip("/") or spath.startswith("/")
    other = mc["g/h"]
    out = [
        ("__getitem__", lambda: g[path], deep), ("get", lambda: g.get(path), deep), ("get_default", lambda: g.get(path, None), deep),
        ("__contains__", lambda: path in g, deep),
        ("__setitem__", lambda: g.__setitem__(path, 1), deep), ("__delitem__", lambda: g.__delitem__(path), deep),
        ("create_group", lambda: g.create_group(path), deep), ("require_group", lambda: g.require_group(path), deep),
        ("create_dataset", lambda: g.create_dataset(path, data=1), deep),
        ("require_dataset", lambda: g.require_dataset(path, shape=(), dtype="i8"), deep),
        ("move_src", lambda: g.move(path, "fresh_target"), deep), ("move_dst", lambda: g.move("/d", path), deep),
        ("copy_src", lambda: g.copy(path, "fresh_target"), deep), ("copy_dst", lambda: g.copy("/d", path), deep),
        ("copy_dst_without_meta", lambda: g.copy("/d", path, without_meta=True), True),
        ("copy_src_nodeobj_dst", lambda: g.copy(mc["d"], path), True),
    ]
    if isinstance(path, bytes):
        return out
    last = path.strip("/").split("/")[-1]
    if any(s.startswith("metador_") for s in [last]):
        out.append(("copy_name_kw", lambda: g.copy("/d", other, name=last), True))
        out.append(("copy_name_kw_nodeobj", lambda: g.copy(mc["d"], other, name=last), True))
    if not path.startswith("/"):
        out.append(("copy_name_kw_nested", lambda: g.copy("/d", other, name=path), True))
    return out


def protocol_members():
    names = set()
    for proto in (UT.H5NodeLike, UT.H5GroupLike, UT.H5FileLike, UT.H5DatasetLike):
        for n, v in vars(proto).items():
            fn = v.fget if isinstance(v, property) else v
            if callable(fn) and getattr(fn, "__module__", None) == UT.__name__ and n != "__init__":
                names.add(n)  # declared in util/types.py itself (not typing machinery)
    return names


def run_matrix(driver, state, rec):
    covered = set()
    for receiver in ("root", "g"):
        for shape, path in reserved_shapes(state, receiver):
            t = build(driver, state)
            try:
                mc = t.mc
                recv = mc if receiver == "root" else mc["g"]
                before = raw_snapshot(mc.__wrapped__)
                for cname, thunk, nt in calls(mc, recv, path, shape):
                    case = dict(kind="cell", driver=driver, state=state, receiver=receiver, path=path if isinstance(path, str) else repr(path), call=cname)
                    covered.add(cname)
                    try:
                        ret = thunk()
                    except Exception:  # noqa: BLE001
                        ret, raised = None, True
                    else:
                        raised = False
                    after = raw_snapshot(mc.__wrapped__)
                    if after != before:
                        ch = sorted(set(after) ^ set(before)) or [p for p in after if after[p] != before.get(p)]
                        rec.fail(f"C08:reserved-path-has-effect:{cname}", case, f"raw tree changed: {ch[:4]} (raised={raised})", "no effect")
                        t.destroy()
                        t = build(driver, state)
                        mc = t.mc
                        recv = mc if receiver == "root" else mc["g"]
                        before = raw_snapshot(mc.__wrapped__)
                    elif not raised:
                        leak = hasattr(ret, "name") and any(s.startswith("metador_") for s in split(ret.name))
                        rec.fail(f"C08:reserved-path-accepted:{cname}", case, f"returned {ret!r}" + (" (an internal node)" if leak else ""), "rejected")
                    rec.case(nt_key=case if nt else None, classes=["matrix_cell"] + (["cell_keyword_or_object"] if "kw" in cname or "nodeobj" in cname else []),
                             sample=case if nt and cname.startswith("copy_name") else None)
            finally:
                t.destroy()
    # the protocol is the specification of what takes a path: make sure nothing was forgotten
    path_methods = {"__getitem__", "__setitem__", "__delitem__", "__contains__", "get", "create_dataset", "require_dataset",
                    "create_group", "require_group", "move", "copy"}
    known_non_path = {"name", "attrs", "parent", "file", "ndim", "__iter__", "__len__", "keys", "values", "items", "visit",
                      "visititems", "mode", "close", "__enter__", "__exit__", "__doc__", "__module__", "__dict__", "__weakref__",
                      "__parameters__", "__subclasshook__", "__init__", "__non_callable_proto_members__", "__protocol_attrs__",
                      "_is_protocol", "_is_runtime_protocol", "__slots__", "__abstractmethods__", "__class_getitem__"}
    unknown = protocol_members() - path_methods - known_non_path
    if unknown:
        raise HarnessError(f"protocol has members the matrix does not classify: {sorted(unknown)}")
    rec.exhaustive[f"reserved_path_matrix_{driver}_{state}"] = True


def run_attrs(driver, rec):
    t = build(driver, "meta")
    try:
        mc = t.mc
        proto = protocol_members() | {"meta", "metador", "restrict", "acl", "flush"}
        for recv_name, recv in (("container", mc), ("group", mc["g"])):
            raw = recv.__wrapped__
            for attr in sorted(a for a in dir(type(raw)) if not a.startswith("_")):
                if attr in proto:
                    continue
                case = dict(kind="attr", driver=driver, receiver=recv_name, attr=attr)
                try:
                    val = getattr(recv, attr)
                except AttributeError:
                    rec.case(nt_key=case, classes=["attr_outside_protocol"], sample=case if attr in ("id", "ref") else None)
                    continue
                except Exception as e:  # noqa: BLE001
                    rec.case(nt_key=case, classes=["attr_outside_protocol", "attr_other_exception"])
                    continue
                rec.fail("C08:raw-attribute-passed-through", case, f"{attr} -> {type(val).__name__}", "AttributeError")
        rec.exhaustive[f"non_protocol_attributes_{driver}"] = True
    finally:
        t.destroy()


# ---- (b) histories with listing probes

def probe(sess, op):
    m = sess.model
    exp = m.tree.dump()
    groups = [p for p, v in exp.items() if v[0] == "g"]
    for t in sess.targets:
        mc = t.mc
        where = f"after step {sess.pos} {op[0]} on {t.driver}"
        ud = C.user_dump(mc)
        if ud != exp:
            dd = diff_dumps(ud, exp)
            raise Violation("C08:user-tree-differs:" + ("bookkeeping-visible" if any("metador_" in x for x in dd) else "data"), f"{where}: {dd}", "plain tree")
        for gp in groups:
            g = mc if gp == "/" else mc[gp]
            node = m.tree.lookup(gp)
            children = sorted(node.children)
            sub = sorted(p[len(gp.rstrip("/")) + 1:] for p in exp if p != gp and p.startswith(gp.rstrip("/") + "/"))
            got = dict(keys=sorted(g.keys()), iter=sorted(iter(g)), len=len(g), values=sorted(split(v.name)[-1] for v in g.values()),
                       items=sorted(k for k, _ in g.items()))
            try:
                got["reversed"] = sorted(reversed(g))
            except (TypeError, AttributeError):
                sess.classes.add("reversed_not_supported")  # refusing reverse iteration exposes nothing
            for api, val in got.items():
                e = len(children) if api == "len" else children
                if val != e:
                    internal = api != "len" and any(str(x).startswith("metador_") for x in val)
                    raise Violation(f"C08:listing-wrong:{api}" + (":internal-visible" if internal else ""), f"{where}: {api} at {gp} -> {val}", e)
            # the text forms may state a member count; if they do it is the user-visible one
            forms = [("repr", repr(g)), ("str", str(g)), ("format", f"{g}")]
            if gp == "/":  # the root also as a group node
                forms += [("repr", repr(mc["/"])), ("str", str(mc["/"])), ("format", f"{mc['/']:>5}".strip())]
            for form, txt in forms:
                mm = re.search(r"\((\d+) members?\)", txt)
                if mm:
                    sess.classes.add("text_form_states_member_count")
                    if int(mm.group(1)) != len(children):
                        raise Violation(f"C08:listing-wrong:{form}-member-count", f"{where}: {form} of {gp} -> {txt}", f"{len(children)} members")
            vis, visi = [], []
            g.visit(vis.append)
            g.visititems(lambda n, o: visi.append((n, o.name)))
            if sorted(vis) != sub or sorted(n for n, _ in visi) != sub:
                bad = [x for x in vis + [n for n, _ in visi] if "metador_" in x]
                raise Violation("C08:visit-wrong" + (":internal-visible" if bad else ""), f"{where}: visit at {gp} -> {sorted(vis)} / {sorted(n for n, _ in visi)}", sub)
            for c in children:
                if c not in g or g.get(c) is None:
                    raise Violation("C08:member-not-found", f"{where}: {c!r} at {gp}", "in / get agree with listing")
            for ap in exp:  # absolute addressing of every existing user node (and of the root) from every group
                try:
                    found = ap in g
                except Exception as e:  # noqa: BLE001
                    raise Violation("C08:membership-test-raises", f"{where}: {ap!r} in {gp}: {type(e).__name__}: {e}", True)
                if not found:
                    raise Violation("C08:member-not-found:absolute" + (":root" if ap == "/" else ""), f"{where}: {ap!r} in {gp} -> False",
                                    "True (as on a plain tree)")
            for absent in ("zz", "a/zz", "zz/a") + tuple(c + "/zz" for c in children):
                if (gp.rstrip("/") + "/" + absent) in exp:
                    continue
                try:
                    found = absent in g
                except Exception as e:  # noqa: BLE001
                    raise Violation("C08:membership-test-raises", f"{where}: {absent!r} in {gp}: {type(e).__name__}: {e}", "False (as on a plain tree)")
                if found:
                    raise Violation("C08:absent-member-found", f"{where}: {absent!r} in {gp}", False)
            has_meta = gp in m.meta or any(p.rpartition("/")[0] in (gp, gp.rstrip("/")) for p in m.meta)
            if has_meta:
                sess.classes.add("probe_group_with_metadata")
                # the bookkeeping that really exists right here must not be addressable
                for internal in ("metador_meta_",) + tuple("metador_meta_" + c for c in children):
                    for what, fn in (("in", lambda: internal in g), ("getitem", lambda: g[internal]), ("get", lambda: g.get(internal))):
                        try:
                            r = fn()
                        except Exception:  # noqa: BLE001
                            continue
                        raise Violation(f"C08:existing-bookkeeping-addressable:{what}", f"{where}: {internal} at {gp} -> {r!r}", "rejected")
                # nodes handed out for stored metadata objects (meta.values() of plain and of restricted views) are no
                # user nodes: the container interface must not operate on them
                if gp in m.meta and m.meta[gp]:
                    for vname, view in (("plain", g), ("local_only", mc[gp].restrict(local_only=True))):
                        try:
                            n = list(view.meta.values())[0].node
                        except Exception:  # noqa: BLE001
                            continue
                        if not hasattr(type(n), "meta"):
                            continue  # a raw driver node (no container node)
                        before = raw_snapshot(mc.__wrapped__)
                        for what, fn in (("meta-attach", lambda: n.meta.__setitem__("verifother.thing", {"name": "x"})),
                                         ("copy-as-source", lambda: mc.copy(n, "leaked_bookkeeping"))):
                            try:
                                fn()
                                raised = False
                            except Exception:  # noqa: BLE001
                                raised = True
                            after = raw_snapshot(mc.__wrapped__)
                            if not raised or after != before:
                                raise Violation(f"C08:bookkeeping-node-operable:{what}", f"{where}: node {n.name} from {vname} view of {gp}: "
                                                f"raised={raised}, raw tree {'changed' if after != before else 'unchanged'}", "rejected without effect")


def run_case(case, rec=None):
    sess = C.CSession(case["drivers"], sig="C08", after_step=probe)
    try:
        try:
            sess.feed(case["history"])
        except C.EnvBug:
            if rec is not None:
                rec.excluded["hdf5-2.0-H5Ocopy-absolute-destination-bug"] += 1
            return
        if rec is not None:
            nt = "probe_group_with_metadata" in sess.classes
            kinds = [k for k, _ in sess.steps]
            rec.case(nt_key=[case["drivers"], kinds] if nt else None, classes=sorted(sess.classes), sample=dict(case, steps=kinds) if nt else None)
    finally:
        sess.destroy()


def selfcheck():
    H.install_work_guard()


def plan(tier, seed):
    sh = [dict(name=f"matrix-{d}-{s}", kind="matrix", driver=d, state=s) for d in ("h5", "ih5") for s in ("fresh", "meta")]
    sh += [dict(name=f"attrs-{d}", kind="attrs", driver=d) for d in ("h5", "ih5")]
    sh += [dict(name=f"hist-{i}", kind="hist", i=i) for i in range(10)]
    return sh


def run_shard(shard, tier, seed, rec):
    H.install_work_guard()
    if shard["kind"] == "matrix":
        run_matrix(shard["driver"], shard["state"], rec)
    elif shard["kind"] == "attrs":
        run_attrs(shard["driver"], rec)
    else:
        n = {"quick": 30, "thorough": 1200}[tier]
        drivers = [["h5"], ["ih5"]][shard["i"] % 2]
        strat = C.chistories(8, 25 if tier == "quick" else 50).map(lambda h: dict(history=h, drivers=drivers))
        hyp.search(strat, lambda c: run_case(c, rec), rec, seed=seed * 1000 + shard["i"], max_examples=n,
                   shrink_budget_s=30 if tier == "quick" else 120)


def replay(rp, rec):
    H.install_work_guard()
    case = rp["case"]
    try:
        if case.get("kind") == "cell":
            tmp = __import__("vt.evidence", fromlist=["Rec"]).Rec("replay")
            run_matrix(case["driver"], case["state"], tmp)
            for f in tmp.failures:
                if f["case"].get("call") == case["call"] and f["case"].get("path") == case["path"] and f["case"].get("receiver") == case["receiver"]:
                    rec.fail(f["signature"], case, f["observed"], f["expected"])
            rec.case()
        elif case.get("kind") == "attr":
            run_attrs(case["driver"], rec)
        else:
            run_case(case, rec)
    except Violation as v:
        rec.fail(v.signature, case, v.observed, v.expected)
