"""C18 — Directory diffs are exact and safely ordered."""
import copy
import itertools
import json
import os
import shutil
from pathlib import Path

from hypothesis import strategies as st

from .. import compat  # noqa: F401
from .. import dirmodel as D
from .. import hyp
from ..evidence import HarnessError, Violation

from metador_core.util.diff import DiffNode, DirDiff  # noqa: E402
from metador_core.util.hashsums import dir_hashsums  # noqa: E402

ID = "C18"
LEVEL = "exploration"
RULE = (
    "exhaustive: all ordered pairs of DirHashsums trees with <=3 entries (quick) / <=4 entries (thorough) over names "
    "{a,b}, depth<=2, file contents {x,y}, one symlink value; Hypothesis: larger trees (<=4 children, depth<=4) with "
    "file<->dir, file<->symlink, empty<->non-empty directory edits; a slice realised on disk through dir_hashsums + "
    "annotate. Oracles: is_empty <=> equal; reported set == paths whose entries differ, with status and prev/curr; "
    "apply-oracle (processing nodes() in order turns prev into curr with removals before their parent goes and "
    "additions after their parent exists); get(p) agrees with the listing. Non-trivial = pair with a file<->directory "
    "replacement or a removed directory with children; distinct by canonical pair"
)
ASSUMPTIONS = ["DirHashsums values are non-empty strings or dicts (what dir_hashsums produces)",
               "not asserted: order among siblings of the same bucket beyond what the apply oracle needs"]
REQUIRED_CLASSES = {"all": ["file_dir_replacement", "removed_dir_with_children", "equal_pair", "on_disk", "large_tree"]}
BUDGET_S = {"quick": 600, "thorough": 3600}
NSHARD = 16

LEAVES = ["sha256:x", "sha256:y", "symlink:a", "symlink:A", "sha256:X"]  # incl. entries differing in letter case only


def gen_trees(budget, depth, names=("a", "b")):
    """All dicts over names with total entry count <= budget."""
    def entries(b, d):
        # all possible single entries using at most b nodes
        out = [(1, v) for v in LEAVES] if b >= 1 else []
        if d > 0 and b >= 1:
            for sub_n, sub in dicts(b - 1, d - 1):
                out.append((1 + sub_n, sub))
        return out

    def dicts(b, d):
        out = [(0, {})]
        ea = entries(b, d)
        for na, va in ea:
            out.append((na, {names[0]: va}))
            out.append((na, {names[1]: va}))
        for na, va in ea:
            for nb, vb in entries(b - na, d):
                out.append((na + nb, {names[0]: va, names[1]: vb}))
        return out

    seen, res = set(), []
    for _, t in dicts(budget, depth):
        k = json.dumps(t, sort_keys=True)
        if k not in seen:
            seen.add(k)
            res.append(t)
    return res


def flat(tree, prefix=""):
    out = {}
    for k, v in tree.items():
        out[prefix + k] = v
        if isinstance(v, dict):
            out.update(flat(v, prefix + k + "/"))
    return out


def _get(state, path):
    node = state
    for s in path.split("/"):
        if not isinstance(node, dict) or s not in node:
            return None
        node = node[s]
    return node


def check_pair(prev, curr, rec=None):
    prev = json.loads(json.dumps(prev))  # no aliasing between positions
    curr = json.loads(json.dumps(curr))
    try:
        diff = DirDiff.compare(prev, curr)
    except Exception as e:  # noqa: BLE001
        raise Violation("C18:compare-raises", f"{type(e).__name__}: {e}", "a diff")
    equal = prev == curr
    if diff.is_empty != equal:
        raise Violation("C18:is-empty-wrong", f"is_empty={diff.is_empty} for equal={equal}", equal)
    fp, fc = flat(prev), flat(curr)
    expected = {}
    for p in set(fp) | set(fc):
        a, b = fp.get(p), fc.get(p)
        if a != b:
            expected[p] = ("+" if a is None else "-" if b is None else "~", a, b)
    if equal:
        if diff.get("a") is not None or diff.get("a/b") is not None:
            raise Violation("C18:get-nonempty-for-equal", "get returned a node for equal snapshots", None)
        return dict(classes=["equal_pair"], nt=False)
    nodes = diff._diff_root.nodes()
    got = {}
    for n in nodes:
        p = str(n.path).replace("\\", "/")
        p = "" if p == "." else p
        if p in got:
            raise Violation("C18:path-listed-twice", p, "each path once")
        got[p] = n
    root = got.pop("", None)
    if root is None:
        raise Violation("C18:root-missing", sorted(got), "root node listed when anything differs")
    if root.prev != prev or root.curr != curr or diff.status(root).value != "~":
        raise Violation("C18:root-node-wrong", f"status {diff.status(root)}", "modified root with prev/curr")
    missing = sorted(set(expected) - set(got))
    extra = sorted(set(got) - set(expected))
    if missing:
        raise Violation("C18:changed-path-not-reported", missing, "all differing paths reported")
    if extra:
        raise Violation("C18:unchanged-path-reported", extra, "no unchanged path reported")
    for p, (stt, a, b) in expected.items():
        n = got[p]
        if diff.status(n).value != stt or n.status().value != stt:
            raise Violation("C18:status-wrong", f"{p}: {diff.status(n).value}", stt)
        if n.prev != a or n.curr != b:
            raise Violation("C18:prev-curr-wrong", f"{p}: prev={n.prev} curr={n.curr}", f"prev={a} curr={b}")
        g = diff.get(Path(p))
        if g is not n:
            raise Violation("C18:get-disagrees-with-listing", f"get({p}) -> {g!r}", "the listed node")
        if diff.get(p) is not n:
            raise Violation("C18:get-disagrees-with-listing", f"get(str {p})", "the listed node")
    for p in (set(fp) | set(fc)) - set(expected):
        if diff.get(Path(p)) is not None:
            raise Violation("C18:get-returns-node-for-unchanged", p, None)
        if diff.status(diff.get(Path(p))).value != "0":
            raise Violation("C18:status-wrong", f"{p} unchanged", "0")
    for p in ("nope", "a/nope/x", "zz/y"):
        if p not in expected and diff.get(Path(p)) is not None:
            raise Violation("C18:get-returns-node-for-unchanged", p, None)
    # apply oracle
    state = copy.deepcopy(prev)
    for n in nodes:
        p = str(n.path).replace("\\", "/")
        if p == ".":
            continue
        parent_path, _, name = p.rpartition("/")
        parent = state if not parent_path else _get(state, parent_path)
        stt = n.status().value
        if stt == "-":
            if not isinstance(parent, dict) or name not in parent:
                raise Violation("C18:order:remove-of-missing", p, "entry exists when removed")
            if isinstance(parent[name], dict) and parent[name]:
                raise Violation("C18:order:remove-nonempty-dir", f"{p} still has {sorted(parent[name])}", "children removed first")
            del parent[name]
        elif stt == "+":
            if not isinstance(parent, dict):
                raise Violation("C18:order:add-before-parent", p, "parent directory exists first")
            if name in parent:
                raise Violation("C18:order:add-over-existing", p, "path free")
            parent[name] = {} if isinstance(n.curr, dict) else n.curr
        else:
            if not isinstance(parent, dict) or name not in parent:
                raise Violation("C18:order:modify-of-missing", p, "entry exists")
            old = parent[name]
            if isinstance(n.curr, dict):
                if not isinstance(old, dict):
                    parent[name] = {}  # file -> dir: children are added afterwards
            else:
                if isinstance(old, dict) and old:
                    raise Violation("C18:order:replace-nonempty-dir", f"{p} still has {sorted(old)}", "children removed first")
                parent[name] = n.curr
    if state != curr:
        raise Violation("C18:order:result-differs", f"applying nodes() to prev gives {state}", curr)
    classes = []
    if any(stt == "~" and isinstance(a, dict) != isinstance(b, dict) for stt, a, b in expected.values()):
        classes.append("file_dir_replacement")
    if any(stt == "-" and isinstance(a, dict) and a for stt, a, b in expected.values()):
        classes.append("removed_dir_with_children")
    if any(isinstance(a, dict) and not a or isinstance(b, dict) and not b for _, a, b in expected.values()):
        classes.append("empty_dir_involved")
    return dict(classes=classes, nt=bool({"file_dir_replacement", "removed_dir_with_children"} & set(classes)))


def check_on_disk(prev_t, curr_t, key):
    """Realise both abstract trees, hash them with dir_hashsums and check annotate() on the current dir."""
    from ..history import new_scratch

    root = new_scratch("vt-c18-")
    try:
        dp, dc = os.path.join(root, "prev"), os.path.join(root, "curr")
        os.mkdir(dp), os.mkdir(dc)
        D.realize(prev_t, dp, key)
        D.realize(curr_t, dc, key + 1)
        hp, hc = dir_hashsums(Path(dp)), dir_hashsums(Path(dc))
        if hp != D.expected_hashsums(prev_t) or hc != D.expected_hashsums(curr_t):
            return None  # C19's business; not judged here
        info = check_pair(hp, hc)
        diff = DirDiff.compare(hp, hc)
        ann = diff.annotate(Path(dc))
        existing = {str(Path(dc) / p) for p in flat(hc)}
        if diff.is_empty:
            if ann != {}:
                raise Violation("C18:annotate-nonempty-for-equal", list(ann), {})
            return info
        listed = [n.path for n in diff._diff_root.nodes()]
        exp_keys = {str(Path(dc) / str(p)) for p in listed} | existing
        got_keys = [str(k) for k in ann]
        if set(got_keys) != exp_keys or len(got_keys) != len(set(got_keys)):
            raise Violation("C18:annotate-keys", sorted(set(got_keys) ^ exp_keys), "reported U existing paths")
        order = [k for k in got_keys if ann[Path(k)] is not None]
        if order != [str(Path(dc) / str(p)) for p in listed]:
            raise Violation("C18:annotate-order", order[:6], "nodes() order")
        for k, v in ann.items():
            rel = os.path.relpath(str(k), dc)
            if v is None and diff.get(Path(rel)) is not None and rel != ".":
                raise Violation("C18:annotate-none-for-changed", rel, "node")
        return info
    finally:
        shutil.rmtree(root, ignore_errors=True)


def to_hashsums(t):
    return D.expected_hashsums(t)


def edit(tree, e):
    """Derive a second abstract tree by a generated edit."""
    t = copy.deepcopy(tree)
    flat_paths = sorted(D.flatten(t))
    kind, idx, payload = e
    if not flat_paths or kind == "add":
        t["new" + str(idx % 3)] = payload
        return t
    p = flat_paths[idx % len(flat_paths)]
    node = t
    segs = p.split("/")
    for s in segs[:-1]:
        node = node[s][1]
    if kind == "del":
        del node[segs[-1]]
    elif kind == "replace":
        node[segs[-1]] = payload
    elif kind == "empty":
        node[segs[-1]] = ["d", {}]
    return t


def plan(tier, seed):
    sh = [dict(name=f"exh-{i}", kind="exh", i=i) for i in range(NSHARD)]
    sh += [dict(name=f"rand-{i}", kind="rand", i=i) for i in range(4)]
    sh += [dict(name=f"disk-{i}", kind="disk", i=i) for i in range(4)]
    return sh


def run_shard(shard, tier, seed, rec):
    k = shard["kind"]
    if k == "exh":
        budget = 3 if tier == "quick" else 4
        ts = gen_trees(budget, 2)
        seen = set()
        n = 0
        for ia in range(shard["i"], len(ts), NSHARD):
            for b in ts:
                a = ts[ia]
                n += 1
                try:
                    info = check_pair(a, b)
                except Violation as v:
                    if v.signature not in seen:
                        seen.add(v.signature)
                        rec.fail(v.signature, dict(kind="pair", prev=a, curr=b), v.observed, v.expected)
                    continue
                if info["nt"]:
                    rec.nontrivial.add(hash(json.dumps([a, b], sort_keys=True)) & 0xFFFFFFFFFFFF)
                    if len(rec.samples) < 2:
                        rec.samples.append(dict(kind="pair", prev=a, curr=b))
                for c in info["classes"]:
                    rec.classes[c] += 1
        rec.evaluations += n
        rec.cls("exhaustive_pairs", n=n)
        rec.notes.append(f"{len(ts)} trees with <= {budget} entries")
        rec.exhaustive[f"all_pairs_trees_le{budget}_entries"] = True
    elif k in ("rand", "disk"):
        n = {"quick": 400, "thorough": 12000}[tier] if k == "rand" else {"quick": 60, "thorough": 1500}[tier]
        payload = st.one_of(D.contents().map(lambda h: ["f", h]), st.just(["d", {}]),
                            D.trees(1, 2, with_links=False).map(lambda t: ["d", t]),
                            st.sampled_from(["no-such-entry", "No-Such-Entry"]).map(lambda t: ["l", t]))
        e = st.tuples(st.sampled_from(["add", "del", "replace", "replace", "empty"]), st.integers(0, 50), payload)
        strat = st.tuples(D.trees(3 if k == "rand" else 2, 4, with_links=(k == "disk")), st.lists(e, max_size=4),
                          st.integers(0, 20))

        def t_pair(case):
            tree, edits, key = case
            cur = tree
            for ed in edits:
                cur = edit(cur, ed)
            if k == "rand":
                info = check_pair(to_hashsums(tree), to_hashsums(cur))
                cl = ["large_tree"] if len(D.flatten(tree)) >= 6 else ["small_tree"]
            else:
                info = check_on_disk(tree, cur, key)
                if info is None:
                    rec.cls("disk_hashsums_not_as_model")
                    return
                cl = ["on_disk"]
            rec.case(nt_key=[to_hashsums(tree), to_hashsums(cur)] if info["nt"] else None,
                     classes=info["classes"] + cl, sample=dict(kind=k, prev=tree, edits=edits) if info["nt"] else None)

        hyp.search(strat, t_pair, rec, seed=seed * 100 + shard["i"] + (50 if k == "disk" else 0), max_examples=n)
    else:
        raise HarnessError(shard)


def replay(rp, rec):
    case = rp["case"]
    try:
        if isinstance(case, dict) and case.get("kind") == "pair":
            check_pair(case["prev"], case["curr"])
        else:
            tree, edits, key = case
            cur = tree
            for ed in edits:
                cur = edit(cur, ed)
            check_pair(to_hashsums(tree), to_hashsums(cur))
            check_on_disk(tree, cur, key)
        rec.case()
    except Violation as v:
        rec.fail(v.signature, case, v.observed, v.expected)
