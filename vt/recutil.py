"""Helpers around IH5 record files: digests, user blocks, manifests."""
import hashlib
import json
import os

from . import compat  # noqa: F401
from .evidence import Violation

from metador_core.ih5.manifest import IH5Manifest, IH5MFRecord, IH5UBExtManifest  # noqa: E402
from metador_core.ih5.record import IH5Record, IH5UserBlock  # noqa: E402


def sha(path):
    h = hashlib.sha256()
    with open(path, "rb") as f:
        for chunk in iter(lambda: f.read(1 << 20), b""):
            h.update(chunk)
    return h.hexdigest()


def dir_digest(d):
    """{file name: (size, sha256)} of a flat directory."""
    out = {}
    for n in sorted(os.listdir(d)):
        p = os.path.join(d, n)
        if os.path.isfile(p):
            out[n] = (os.path.getsize(p), sha(p))
    return out


def meta_dicts(rec):
    return [json.loads(ub.json()) for ub in rec.ih5_meta]


def manifest_path(container_path):
    return str(container_path) + IH5MFRecord.MANIFEST_EXT


def check_manifest_matches(container_path, sig_prefix):
    """After a commit of an IH5MF container: manifest file digest and uuid equal those in its user block."""
    ub = IH5UserBlock.load(container_path)
    ext = IH5UBExtManifest.get(ub)
    if ext is None:
        raise Violation(f"{sig_prefix}:manifest-ext-missing", f"{os.path.basename(str(container_path))} has no ih5mf_v01 block",
                        "manifest extension in user block")
    mp = manifest_path(container_path)
    if not os.path.isfile(mp):
        raise Violation(f"{sig_prefix}:manifest-file-missing", mp, "manifest exists")
    got = "sha256:" + sha(mp)
    if got != ext.manifest_hashsum:
        raise Violation(f"{sig_prefix}:manifest-hash-mismatch", f"file {got} vs user block {ext.manifest_hashsum}", "equal")
    mf = IH5Manifest.parse_file(mp)
    if mf.manifest_uuid != ext.manifest_uuid:
        raise Violation(f"{sig_prefix}:manifest-uuid-mismatch", f"{mf.manifest_uuid} vs {ext.manifest_uuid}", "equal")
    for fld in ("record_uuid", "patch_uuid", "patch_index"):  # prev_patch: a merged container keeps the source manifest (not asserted)
        if getattr(mf.user_block, fld) != getattr(ub, fld):
            raise Violation(f"{sig_prefix}:manifest-userblock-mismatch", f"{fld}: {getattr(mf.user_block, fld)} vs {getattr(ub, fld)}", "equal")
    return ub, ext, mf
