"""Histories as data: op grammar with late-bound references, binding against the reference
tree, execution against real targets (IH5Record / IH5MFRecord / h5py.File), JSON replay format.
"""
import os
import shutil
import tempfile

import h5py
import numpy as np
from hypothesis import strategies as st

from . import compat
from .evidence import HarnessError, Violation
from .treemodel import (DumpMismatch, OpFails, Tree, diff_dumps, dump_real, expected_canon, join, realize, split)

from metador_core.ih5.container import IH5Record  # noqa: E402
from metador_core.ih5.manifest import IH5MFRecord  # noqa: E402

# ---------------------------------------------------------------- generators

SMALL = ["a", "b", "c", "d"]
AWKWARD = ["..", "~", "!", "metador", "0", "12", "A-Z_", "x.y", "a b".replace(" ", "+"), "[]{}", "#%&*", "zzzzzzzzzzzz", "'\"`", "\\", "a=b",
           "ab", "a-1", "a.old", "aa", "bc"]  # (names that have another pool name as string prefix)

seg = st.one_of(st.sampled_from(SMALL), st.sampled_from(SMALL), st.sampled_from(SMALL), st.sampled_from(SMALL),
                st.sampled_from(SMALL), st.sampled_from(AWKWARD))
relpath = st.one_of(seg, seg, seg, st.lists(seg, min_size=2, max_size=3).map("/".join))
anypath = st.one_of(relpath, relpath, relpath, relpath.map(lambda p: "/" + p))
ref = st.integers(0, 40)
attrkey = st.one_of(st.sampled_from(["k", "k", "u", "unit"]), st.sampled_from(AWKWARD))

_hex = st.binary(min_size=0, max_size=6).map(bytes.hex)
value = st.one_of(
    st.builds(lambda v: {"t": "int", "v": v}, st.sampled_from([0, 1, -1, 7, 2 ** 63 - 1, -2 ** 63])),
    st.builds(lambda v: {"t": "int", "v": v}, st.integers(-1000, 1000)),
    st.builds(lambda v: {"t": "float", "v": v}, st.sampled_from([0.0, -0.0, 1.5, 1e308, 5e-324, 0.1])),
    st.builds(lambda v: {"t": "str", "v": v}, st.sampled_from(["", "x", "hello", "äöü€", "a\tb", "𝔘"])),
    st.builds(lambda v: {"t": "bytes", "v": v}, st.sampled_from(["", "00", "61", "6100", "ff00fe", "7f00", "007f", "7f7f", "ff", "4dfc6c6c6572", "c328"])),
    st.builds(lambda v: {"t": "void", "v": v}, st.sampled_from(["00", "61", "6100", "0000", "ff00fe00", "7f00", "007f", "7f7f", "7e"])),
    st.builds(lambda v: {"t": "void", "v": v}, _hex.filter(lambda h: h not in ("", "7f"))),
    # opaque scalars as 0-d arrays, including the deletion marker's own byte (refused loudly or stored visibly)
    st.builds(lambda v: {"t": "void0", "v": v}, st.sampled_from(["7f", "7f", "7f00", "00", "61", "7e"])),
    # a compound scalar with a single one-byte field: the same byte, but not the reserved opaque value
    st.builds(lambda v: {"t": "cmp0", "v": v}, st.sampled_from(["7f", "7f", "7e", "00"])),
    st.builds(lambda v, dt: {"t": "arr", "dt": dt, "v": v},
              st.one_of(st.lists(st.integers(0, 9), max_size=3),
                        st.lists(st.lists(st.integers(0, 9), min_size=2, max_size=2), min_size=1, max_size=3)),
              st.sampled_from(["i8", "f8", "i2", "u1"])),
    st.just({"t": "empty", "dt": "f4"}),
    st.just({"t": "empty", "dt": "i8"}),
    # one-byte scalars around the deletion marker's byte value (the marker itself is the opaque blob 0x7f only)
    st.builds(lambda dt, v: {"t": "arr", "dt": dt, "v": v}, st.sampled_from(["i1", "u1"]), st.sampled_from([127, 126, 0, 1])),
    st.builds(lambda v: {"t": "bool", "v": v}, st.booleans()),
    st.sampled_from([["ff", "61"], ["4dfc6c6c6572", "4d65696572"], ["61", "62"]]).map(lambda v: {"t": "strarr", "v": v}),
    st.sampled_from(["2020-01-01T12:00:00", "1999-12-31T23:59:59"]).map(lambda v: {"t": "dt64", "v": v}),
    st.sampled_from([0, 1, 42]).map(lambda v: {"t": "enum0", "v": v}),
)
bad_value = st.sampled_from(["object", "nulbytes", "ragged", "dict"]).map(lambda h: {"t": "bad", "v": h})
small_value = st.one_of(st.builds(lambda v: {"t": "int", "v": v}, st.integers(0, 9)), value)
set_value = st.one_of(small_value, small_value, small_value, small_value, small_value, small_value, bad_value)
tgt = st.one_of(ref, ref, ref, ref, ref, ref, ref, ref, anypath)  # mostly existing nodes

data_op = st.one_of(
    st.tuples(st.just("set"), ref, anypath, set_value),
    st.tuples(st.just("set"), ref, anypath, set_value),
    st.tuples(st.just("mkgrp"), ref, anypath),
    st.tuples(st.just("mkgrp"), ref, anypath),
    st.tuples(st.just("del"), ref, tgt),
    st.tuples(st.just("del"), ref, tgt),
    st.tuples(st.just("setattr"), tgt, attrkey, small_value),
    st.tuples(st.just("delattr"), tgt, st.one_of(ref, ref, ref, attrkey)),
    st.tuples(st.just("copy"), ref, tgt, anypath, st.booleans()),
    st.tuples(st.just("move"), ref, tgt, anypath),
    st.tuples(st.just("replace"), ref, st.sampled_from(["g", "d"]), small_value),
    st.tuples(st.just("replace"), ref, st.sampled_from(["g", "d"]), small_value),
    st.tuples(st.just("touch"), ref, st.integers(0, 3), small_value),
    st.tuples(st.just("touch"), ref, st.integers(0, 3), small_value),
    st.tuples(st.just("copyinto"), ref, relpath),
    st.tuples(st.just("renamesfx"), ref, st.sampled_from(["b", ".old", "-1", "a", "_"]), st.booleans()),
    st.tuples(st.just("revive"), ref, st.integers(0, 3), ref, set_value, st.one_of(st.none(), st.none(), seg)),
    st.tuples(st.just("revive"), ref, st.integers(0, 3), ref, set_value, st.one_of(st.none(), st.none(), seg)),
    st.tuples(st.just("badattr"), ref, ref),
    st.tuples(st.just("edit"), ref, ref, st.integers(0, 9)),
    st.tuples(st.just("edit"), ref, ref, st.integers(0, 9)),
    st.tuples(st.just("reattr"), ref, ref, small_value),
)
boundary_op = st.one_of(
    st.just(("commit",)), st.just(("commit",)), st.just(("commit",)), st.just(("commit",)),
    st.tuples(st.just("reopen"), st.sampled_from(["r+", "a"]), st.booleans()),
    st.just(("discard",)),
)


def histories(min_ops=3, max_ops=30, boundary_weight=1):
    op = st.one_of(*([data_op] * 4 + [boundary_op] * boundary_weight))
    return st.lists(op, min_size=min_ops, max_size=max_ops).map(lambda l: [list(o) for o in l])


# ---------------------------------------------------------------- binding

def _rel_to(recv, abs_path):
    """Path of abs_path relative to receiver group recv (must be an ancestor-or-root)."""
    if recv == "/":
        return abs_path[1:]
    assert abs_path.startswith(recv + "/"), (recv, abs_path)
    return abs_path[len(recv) + 1:]


def _ancestors(abs_path):
    segs = split(abs_path)
    return ["/"] + ["/" + "/".join(segs[:i]) for i in range(1, len(segs))]


def storable(spec, as_attr=False):
    """Dataset values plain h5py itself refuses (bytes with embedded NUL) are outside the domain:
    h5py's create_dataset(name, data=bad) leaves an empty dataset behind while g[name]=bad does not,
    so no single-tree reference behaviour exists for them. Map them to the opaque blob of the same bytes."""
    if spec["t"] == "bad":
        # refused by h5py: kept as it is for datasets (g[name] = bad fails on a plain tree without any effect);
        # attribute writes are not atomic in h5py itself, so no reference behaviour exists there
        return {"t": "int", "v": 0} if as_attr else spec
    try:
        expected_canon(spec, as_attr)
        return spec
    except OpFails:
        return {"t": "void", "v": spec["v"] or "00"} if spec["t"] == "bytes" else {"t": "int", "v": 0}


def bind(op, tree):
    """Resolve late-bound references of one op against the current reference tree.

    Returns a list of bound ops (macro ops expand to several), each a dict with concrete paths."""
    kind = op[0]
    groups = tree.paths("g")
    nodes = tree.paths()[1:]

    def recv_of(i):
        return groups[i % len(groups)]

    def target(recv_i, t):
        """-> (receiver abs path, path argument as passed to the API, absolute path)"""
        if isinstance(t, int):
            if not nodes:
                return "/", "a", "/a"
            p = nodes[t % len(nodes)]
            anc = _ancestors(p)
            r = anc[recv_i % len(anc)]
            if (t + recv_i) % 3 == 0:
                return r, p, p  # absolute addressing through some ancestor
            return r, _rel_to(r, p), p
        r = recv_of(recv_i)
        return r, t, join(r, t)

    def node_target(t):
        if isinstance(t, int):
            allp = ["/"] + nodes
            return allp[t % len(allp)]
        return join("/", t)

    if kind in ("set", "mkgrp"):
        r = recv_of(op[1])
        b = dict(op=kind, recv=r, path=op[2], abs=join(r, op[2]))
        if kind == "set":
            b["v"] = storable(op[3])
        return [b]
    if kind == "del":
        r, arg, ab = target(op[1], op[2])
        return [dict(op="del", recv=r, path=arg, abs=ab)]
    if kind == "setattr":
        return [dict(op="setattr", abs=node_target(op[1]), key=op[2], v=storable(op[3], True))]
    if kind == "delattr":
        ab = node_target(op[1])
        n = tree.lookup(ab)
        key = op[2]
        if isinstance(key, int):
            keys = sorted(n.attrs) if n is not None else []
            key = keys[key % len(keys)] if keys else "k"
        return [dict(op="delattr", abs=ab, key=key)]
    if kind in ("copy", "move"):
        r, arg, ab = target(op[1], op[2])
        dst = op[3]
        b = dict(op=kind, recv=r, src=arg, src_abs=ab, dst=dst, dst_abs=join(r, dst))
        if kind == "copy":
            b["without_attrs"] = bool(op[4])
        return [b]
    if kind == "copyinto":  # copy of a group into its own subtree
        if len(groups) < 2:
            return []
        g = groups[1 + op[1] % (len(groups) - 1)]
        return [dict(op="copy", recv="/", src=g, src_abs=g, dst=g + "/" + op[2], dst_abs=join(g, op[2]),
                     without_attrs=False, into_self=True)]
    if kind == "renamesfx":  # rename / copy to a sibling whose name has the source name as string prefix
        if not nodes:
            return []
        p = nodes[op[1] % len(nodes)]
        k2 = "move" if op[3] else "copy"
        b = dict(op=k2, recv="/", src=p, src_abs=p, dst=p + op[2], dst_abs=p + op[2], macro="renamesfx")
        if k2 == "copy":
            b["without_attrs"] = False
        return [b]
    if kind == "edit":  # write one element of an existing numeric array dataset in place
        arrs = [p for p in nodes if tree.lookup(p).kind == "d" and tree.lookup(p).value[0] == "arr"
                and len(tree.lookup(p).value[2]) == 1 and tree.lookup(p).value[2][0] >= 1 and tree.lookup(p).value[1][1] in "iuf"]
        if not arrs:
            # nothing to edit yet: make an array with an attribute (a later edit op finds it, maybe in a later patch)
            if tree.lookup("/ea") is not None:
                return []
            return [dict(op="set", recv="/", path="ea", abs="/ea", v={"t": "arr", "dt": "i8", "v": [1, 2, 3]}, macro="edit"),
                    dict(op="setattr", abs="/ea", key="unit", v={"t": "str", "v": "m"}, macro="edit"),
                    dict(op="setattr", abs="/ea", key="when", v={"t": "dt64", "v": "2020-01-01T12:00:00"}, macro="edit"),
                    dict(op="setattr", abs="/ea", key="mode", v={"t": "enum0", "v": 1}, macro="edit")]
        p = arrs[op[1] % len(arrs)]
        n = tree.lookup(p).value[2][0]
        return [dict(op="edit", abs=p, idx=op[2] % n, val=op[3])]
    if kind == "reattr":  # an existing attribute (maybe of an older container) is overridden and deleted right away
        allp = ["/"] + nodes
        withattrs = [p for p in allp if tree.lookup(p).attrs]
        if not withattrs:
            return []
        p = withattrs[op[1] % len(withattrs)]
        keys = sorted(tree.lookup(p).attrs)
        key = keys[op[2] % len(keys)]
        return [dict(op="setattr", abs=p, key=key, v=storable(op[3], True), macro="reattr"),
                dict(op="delattr", abs=p, key=key, macro="reattr")]
    if kind == "badattr":  # delete an attribute, then a write to it that HDF5 refuses: it must stay deleted
        allp = ["/"] + nodes
        withattrs = [p for p in allp if tree.lookup(p).attrs]
        if not withattrs:
            return []
        p = withattrs[op[1] % len(withattrs)]
        keys = sorted(tree.lookup(p).attrs)
        key = keys[op[2] % len(keys)]
        if (op[1] + op[2]) % 2:  # or: overwrite it (maybe a value of an older container), then the refused write
            return [dict(op="setattr", abs=p, key=key, v={"t": "int", "v": 424242}, macro="badattr"),
                    dict(op="setattr", abs=p, key=key, v={"t": "bigattr"}, macro="badattr")]
        return [dict(op="delattr", abs=p, key=key, macro="badattr"),
                dict(op="setattr", abs=p, key=key, v={"t": "bigattr"}, macro="badattr")]
    if kind == "revive":  # something new at (or below) a path that was deleted or moved away earlier
        dead = [p for p in tree.dead if tree.lookup(p) is None]
        pre, cand = [], nodes
        if dead:
            p = dead[op[1] % len(dead)]
        elif nodes:  # nothing was deleted so far: delete some node first
            p = nodes[op[1] % len(nodes)]
            pre = [dict(op="del", recv="/", path=p[1:], abs=p, macro="revive")]
            cand = [n for n in nodes if n != p and not n.startswith(p + "/")]
        else:
            return []
        if op[5]:
            p = p + "/" + op[5]
        how = op[2]
        if how >= 2 and not cand:
            how = 0
        if how == 0:
            return pre + [dict(op="set", recv="/", path=p[1:], abs=p, v=storable(op[4]), macro="revive")]
        if how == 1:
            return pre + [dict(op="mkgrp", recv="/", path=p[1:], abs=p, macro="revive")]
        src = cand[op[3] % len(cand)]
        b = dict(op="move" if how == 2 else "copy", recv="/", src=src[1:], src_abs=src, dst=p[1:], dst_abs=p,
                 macro="revive")
        if how == 3:
            b["without_attrs"] = False
        return pre + [b]
    if kind == "replace":
        if not nodes:
            return []
        p = nodes[op[1] % len(nodes)]
        out = [dict(op="del", recv="/", path=p, abs=p, macro="replace")]
        if op[2] == "g":
            out.append(dict(op="mkgrp", recv="/", path=p, abs=p, macro="replace"))
        else:
            out.append(dict(op="set", recv="/", path=p, abs=p, v=storable(op[3]), macro="replace"))
        return out
    if kind == "touch":
        allp = ["/"] + nodes
        p = allp[op[1] % len(allp)]
        n = tree.lookup(p)
        how = op[2]
        if n.kind == "g" and how >= 2:
            name = "t%d" % (how,)
            child = join(p, name)
            if tree.lookup(child) is None:
                return [dict(op="set", recv=p, path=name, abs=child, v=storable(op[3]), macro="touch")]
            return [dict(op="del", recv=p, path=name, abs=child, macro="touch")]
        if how == 1 and n.attrs:
            return [dict(op="delattr", abs=p, key=sorted(n.attrs)[0], macro="touch")]
        return [dict(op="setattr", abs=p, key="k", v=storable(op[3], True), macro="touch")]
    raise HarnessError(f"unknown op {op}")


def apply_model(tree, b):
    """Apply a bound op to the reference tree; raises OpFails (and leaves the tree unchanged)."""
    o = b["op"]
    if o == "set":
        if tree.lookup(b["abs"]) is not None:
            raise OpFails("exists")
        tree.set(b["abs"], expected_canon(b["v"], False))
    elif o == "mkgrp":
        tree.mkgrp(b["abs"])
    elif o == "del":
        tree.delete(b["abs"])
    elif o == "setattr":
        tree.setattr(b["abs"], b["key"], expected_canon(b["v"], True))
    elif o == "delattr":
        tree.delattr(b["abs"], b["key"])
    elif o == "copy":
        tree.copy(b["src_abs"], b["dst_abs"], b.get("without_attrs", False))
    elif o == "move":
        if b["dst_abs"] == b["src_abs"] or b["dst_abs"].startswith(b["src_abs"] + "/"):
            raise HarnessError("move into own subtree / onto itself must not be generated")
        tree.move(b["src_abs"], b["dst_abs"])
    elif o == "edit":
        import numpy as np
        n = tree.lookup(b["abs"])
        if n is None or n.kind != "d":
            raise OpFails("absent")
        _, dt, shape, hx = n.value
        arr = np.frombuffer(bytes.fromhex(hx), dtype=np.dtype(dt)).reshape(shape).copy()
        arr[b["idx"]] = b["val"]
        n.value = ["arr", dt, list(shape), arr.tobytes().hex()]
    else:
        raise HarnessError(b)


def marker_refused(b, err):
    """The op carries the reserved deletion-marker value and was refused loudly for that reason (documented IH5 behaviour)."""
    v = b.get("v")
    return isinstance(v, dict) and v.get("t") in ("void", "void0") and v.get("v") == "7f" and "forbidden" in (err or "")


def bound_is_generated(b):
    """Ops outside the property's domain are skipped (not executed anywhere)."""
    if b["op"] == "move" and (b["dst_abs"] == b["src_abs"] or b["dst_abs"].startswith(b["src_abs"] + "/")):
        return False
    return True


def apply_real(root, b):
    """Apply a bound op through the h5py-like API of `root` (raises whatever the API raises)."""
    o = b["op"]
    if o in ("setattr", "delattr"):
        node = root if b["abs"] == "/" else root[b["abs"]]
        if o == "setattr":
            if b["v"].get("t") == "bigattr" and isinstance(root, h5py.File) and b["key"] in node.attrs:
                # plain h5py is not atomic here: it removes the old attribute before the new value is refused. The
                # reference is the tree of the successful operations, so put the old value back on the plain tree.
                aid = node.attrs.get_id(b["key"])
                old = node.attrs[b["key"]]
                old = np.asarray(old).astype(aid.dtype) if isinstance(old, np.generic) else old
                try:
                    node.attrs[b["key"]] = realize(b["v"])
                finally:
                    if b["key"] not in node.attrs:
                        node.attrs[b["key"]] = old
                return
            node.attrs[b["key"]] = realize(b["v"])
        else:
            del node.attrs[b["key"]]
        return
    if o == "edit":
        ds = root[b["abs"]]
        if hasattr(ds, "copy_into_patch"):
            # IH5: a dataset held by an older container is first copied into the patch (the documented way)
            try:
                ds.copy_into_patch()
            except ValueError as e:
                if "already from latest" not in str(e):
                    raise
        root[b["abs"]][b["idx"]] = b["val"]
        return
    g = root if b["recv"] == "/" else root[b["recv"]]
    if o == "set":
        g[b["path"]] = realize(b["v"])
    elif o == "mkgrp":
        g.create_group(b["path"])
    elif o == "del":
        del g[b["path"]]
    elif o == "copy":
        kw = {"without_attrs": True} if b.get("without_attrs") else {}
        g.copy(b["src"], b["dst"], **kw)
    elif o == "move":
        g.move(b["src"], b["dst"])
    else:
        raise HarnessError(b)


# ---------------------------------------------------------------- divergence guard (no wall clock)

class Diverges(BaseException):
    pass


_work = dict(n=0, limit=None)
_orig = {}


def install_work_guard():
    if _orig:
        return
    for name in ("create_group", "create_dataset"):
        orig = getattr(h5py.Group, name)
        _orig[name] = orig

        def wrapper(self, *a, __orig=orig, **kw):
            if _work["limit"] is not None:
                _work["n"] += 1
                if _work["n"] > _work["limit"]:
                    raise Diverges()
            return __orig(self, *a, **kw)

        setattr(h5py.Group, name, wrapper)


class work_limit:
    def __init__(self, limit):
        self.limit = limit

    def __enter__(self):
        _work["n"] = 0
        _work["limit"] = self.limit

    def __exit__(self, *a):
        _work["limit"] = None


# ---------------------------------------------------------------- targets

def new_scratch(prefix="vt-"):
    return tempfile.mkdtemp(prefix=prefix, dir=compat.scratch_root())


def open_h5_ids():
    """hid_t numbers of all HDF5 file handles currently open in this process."""
    try:
        return {fid.id for fid in h5py.h5f.get_obj_ids(types=h5py.h5f.OBJ_FILE)}
    except Exception:  # noqa: BLE001
        return set()


def close_leaked_h5(before_ids=None):
    """Close h5py file ids left open (IH5Record._open leaks handles when it refuses a file set)."""
    try:
        for fid in h5py.h5f.get_obj_ids(types=h5py.h5f.OBJ_FILE):
            if before_ids is None or fid.id not in before_ids:
                try:
                    h5py.File(fid).close()
                except Exception:  # noqa: BLE001
                    pass
    except Exception:  # noqa: BLE001
        pass


class IH5Target:
    """An IH5 record driven through its public API; containers are patch boundaries."""

    kind = "ih5"

    def __init__(self, cls=IH5Record, name="rec"):
        self.cls = cls
        self.dir = new_scratch()
        self.path = os.path.join(self.dir, name)
        self.rec = cls(self.path, "w")
        self.commits = 0  # number of committed containers

    @property
    def root(self):
        return self.rec

    def n_containers(self):
        return len(self.rec.ih5_files)

    def commit(self, **kw):
        self.rec.commit_patch(**kw)
        self.commits += 1
        self.rec.create_patch()

    def can_discard(self):
        return self.commits >= 1

    def discard(self):
        self.rec.discard_patch()
        self.rec.create_patch()

    def reopen(self, mode="r+", commit=True):
        self.rec.close(commit=commit)
        if commit:
            self.commits += 1
        self.rec = self.cls(self.path, mode)

    def close(self):
        try:
            if self.rec is not None:
                self.rec.close()
        except Exception:  # noqa: BLE001
            close_leaked_h5()
        self.rec = None

    def destroy(self):
        try:
            self.close()
        finally:
            shutil.rmtree(self.dir, ignore_errors=True)


class H5Target:
    """Plain h5py.File (the reference implementation the model is validated against)."""

    kind = "h5"

    def __init__(self, on_disk=False):
        self.dir = None
        if on_disk:
            self.dir = new_scratch()
            self.path = os.path.join(self.dir, "plain.h5")
            self.f = h5py.File(self.path, "w")
        else:
            self.f = h5py.File("vt-plain-%d" % id(self), "w", driver="core", backing_store=False)

    @property
    def root(self):
        return self.f

    def n_containers(self):
        return 1

    def commit(self, **kw):
        pass

    def can_discard(self):
        return False

    def reopen(self, mode="r+", commit=True):
        if self.dir:
            self.f.close()
            self.f = h5py.File(self.path, "r+")

    def close(self):
        if self.f:
            self.f.close()

    def destroy(self):
        self.close()
        if self.dir:
            shutil.rmtree(self.dir, ignore_errors=True)


# ---------------------------------------------------------------- interpreter

class Step:
    __slots__ = ("i", "bound", "ok_model", "container")


class Outcome:
    """What happened while running one history under one placement."""

    def __init__(self):
        self.classes = set()
        self.bound = []  # bound ops actually executed (for samples / shape hash)
        self.n_ops = 0
        self.n_failed_expected = 0
        self.n_containers = 1
        self.nontrivial = False


def _touch_paths(b):
    """Paths whose node is 'touched' (updated in place, not recreated) by a successful bound op."""
    o = b["op"]
    if o in ("setattr", "delattr"):
        return [b["abs"]]
    if o in ("set", "mkgrp", "del"):
        return _ancestors(b["abs"])[1:]
    if o in ("copy", "move"):
        out = _ancestors(b["dst_abs"])[1:]
        if o == "move":
            out += _ancestors(b["src_abs"])[1:]
        return out
    return []


DATA_KINDS = {"set", "mkgrp", "del", "setattr", "delattr", "copy", "move", "copyinto", "replace", "touch", "renamesfx", "revive", "badattr", "edit", "reattr"}


class Session:
    """A target and the reference tree driven in lock step; `feed` may be called repeatedly."""

    def __init__(self, make_target, placement="generated", check_every=True, crosscheck=True,
                 sig_prefix="C01", extra_check=None, on_boundary=None):
        self.tree = Tree()
        self.committed_tree = None
        self.target = make_target()
        self.out = Outcome()
        self.placement = placement
        self.check_every = check_every
        self.crosscheck = crosscheck
        self.sig = sig_prefix
        self.extra_check = extra_check
        self.on_boundary = on_boundary  # callback(session, kind) after every commit/reopen/discard
        self.created_in = {}  # abs path -> container index where the node (re)appeared
        self.replaced_in = {}  # abs path -> container index k>=1 where it replaced an older incarnation
        self.ever = set()  # paths that existed at some point
        self.attr_set_in = {}
        self._idx = ({}, {}, {}, set())
        self.pos = 0

    def cidx(self):
        return self.target.n_containers() - 1

    def _snap_idx(self):
        self._idx = (dict(self.created_in), dict(self.attr_set_in), dict(self.replaced_in), set(self.ever))

    def verify(self, where):
        try:
            got = dump_real(self.target.root, crosscheck=self.crosscheck)
        except DumpMismatch as e:
            raise Violation(f"{self.sig}:listing-inconsistent", str(e), "keys/len/in/[]/get/visit agree",
                            extra=dict(where=where))
        except Exception as e:  # noqa: BLE001
            raise Violation(f"{self.sig}:read-raises", f"{type(e).__name__}: {e}", "tree is readable",
                            extra=dict(where=where))
        exp = self.tree.dump()
        if got != exp:
            d = diff_dumps(got, exp)
            kinds = sorted({m.split()[0] for m in d})
            raise Violation(f"{self.sig}:view-differs:" + "+".join(kinds), d, "view == reference tree",
                            extra=dict(where=where))

    def boundary(self, op):
        try:
            return self._boundary(op)
        except (Violation, HarnessError):
            raise
        except Exception as e:  # noqa: BLE001 - commit / reopen / discard are plain documented calls here
            raise Violation(f"{self.sig}:record-op-raises:{op[0]}", f"{op} at {self.pos}: {type(e).__name__}: {str(e)[:300]}",
                            "commit, reopen and discard of a valid record succeed")

    def _boundary(self, op):
        kind, target, out = op[0], self.target, self.out
        if self.placement == "none" or target.kind == "h5" and kind == "discard":
            return
        if kind == "commit":
            target.commit(**(op[1] if len(op) > 1 and isinstance(op[1], dict) else {}))
            self.committed_tree = self.tree.clone()
            self._snap_idx()
            out.classes.add("boundary")
        elif kind == "reopen":
            mode, commit = op[1], (op[2] if len(op) > 2 else True)
            target.reopen(mode, commit)
            if commit:
                self.committed_tree = self.tree.clone()
                self._snap_idx()
            out.classes.add("reopen" if commit else "reopen_uncommitted")
        elif kind == "discard":
            if not target.can_discard():
                return
            target.discard()
            self.tree = self.committed_tree.clone()
            out.classes.add("discard")
            self.created_in, self.attr_set_in, self.replaced_in, self.ever = (
                dict(self._idx[0]), dict(self._idx[1]), dict(self._idx[2]), set(self._idx[3]))
        if self.on_boundary:
            self.on_boundary(self, kind)
        self.verify(f"after {kind} at {self.pos}")

    def data_op(self, op):
        out, target = self.out, self.target
        i = self.pos
        for b in bind(op, self.tree):
            if not bound_is_generated(b):
                out.classes.add("skipped_outside_domain")
                continue
            before = self.tree.clone()
            try:
                apply_model(self.tree, b)
                ok_model = True
            except OpFails:
                ok_model = False
            nnodes = len(before.paths()) + 5
            err = None
            try:
                with work_limit(3 * nnodes + 20):
                    apply_real(target.root, b)
                ok_real = True
            except Diverges:
                raise Violation(f"{self.sig}:diverges:{b['op']}" + (":into-self" if b.get("into_self") else ""),
                                "operation does not terminate (work guard: > 3x node count creations)",
                                "terminates", extra=dict(at=i, bound=b))
            except Exception as e:  # noqa: BLE001
                ok_real = False
                err = f"{type(e).__name__}: {e}"
            out.n_ops += 1
            out.bound.append(b)
            k = self.cidx()
            if ok_model and not ok_real and marker_refused(b, err):
                # the reserved deletion-marker value: refusing it loudly is the documented IH5 behaviour
                self.tree = before
                ok_model = False
                out.classes.add("deletion_marker_value_refused")
            if ok_real != ok_model:
                what = "fails" if ok_model else "succeeds"
                raise Violation(f"{self.sig}:op-{what}:{b['op']}" + (f":{b['macro']}" if b.get("macro") else ""),
                                f"op {b} {'raised ' + str(err) if err else 'succeeded'} (container {k})",
                                "succeeds" if ok_model else "fails", extra=dict(at=i, bound=b))
            if not ok_model:
                out.n_failed_expected += 1
                out.classes.add("expected_failure")
            else:
                _classify(out, b, before, self.tree, k, self.created_in, self.replaced_in, self.ever,
                          self.attr_set_in)
            if self.check_every:
                self.verify(f"after op {i} {b}")
            if self.extra_check:
                self.extra_check(self, i, b)
            if self.placement == "every":
                self.boundary(["commit"])

    def feed(self, history):
        for op in history:
            if op[0] in DATA_KINDS:
                self.data_op(op)
            else:
                self.boundary(op)
            self.pos += 1
        return self

    def finish(self):
        out = self.out
        if not self.check_every:
            self.verify("end")
        out.n_containers = self.target.n_containers()
        if out.n_containers >= 3:
            out.classes.add("containers_ge3")
        out.final_tree = self.tree
        out.target = self.target
        return out

    def destroy(self):
        self.target.destroy()


def run_history(history, make_target, placement="generated", check_every=True, crosscheck=True,
                sig_prefix="C01", extra_check=None):
    """Run `history` against a fresh target and the reference tree in lock step.

    placement: "none" (boundary ops skipped), "generated" (as given), "every" (commit after each data op).
    Raises Violation on the first divergence. Returns an Outcome (caller destroys out.target).
    """
    s = Session(make_target, placement, check_every, crosscheck, sig_prefix, extra_check)
    try:
        s.feed(history)
        return s.finish()
    except BaseException:
        s.destroy()
        raise


def _classify(out, b, before, tree, k, created_in, replaced_in, ever, attr_set_in):
    o = b["op"]
    if b.get("into_self") or (o == "copy" and b["dst_abs"].startswith(b["src_abs"] + "/")):
        out.classes.add("copy_into_own_subtree")
    new_paths = []
    if o == "edit":
        out.classes.add("edit_in_place")
        if created_in.get(b["abs"], 0) < k:
            out.classes.add("edit_dataset_of_older_container")
            if tree.lookup(b["abs"]).attrs:
                out.classes.add("edit_dataset_of_older_container_with_attrs")
            # the dataset (and its attributes) are written anew in the current container
            created_in[b["abs"]] = k
            for a in tree.lookup(b["abs"]).attrs:
                attr_set_in[(b["abs"], a)] = k
    if b.get("macro") == "revive" and o != "del":
        out.classes.add("revive_dead_path_" + o)
    if o in ("set", "mkgrp"):
        new_paths = [p for p in _ancestors(b["abs"])[1:] + [b["abs"]] if before.lookup(p) is None]
    elif o in ("copy", "move"):
        new_paths = [p for p in _ancestors(b["dst_abs"])[1:] if before.lookup(p) is None]
        src = before.lookup(b["src_abs"])

        def sub(p, n):
            new_paths.append(p)
            if n.kind == "g":
                for c, cn in n.children.items():
                    sub(p + "/" + c, cn)

        sub(b["dst_abs"], src)
    gone = []
    if o == "del" or o == "move":
        root = b["abs"] if o == "del" else b["src_abs"]
        gone = [p for p in before.paths() if p == root or p.startswith(root + "/")]
    for p in gone:
        c = created_in.pop(p, 0)
        if c < k:
            out.classes.add("delete_node_from_earlier_container")
        replaced_in.pop(p, None)
        for key in [x for x in attr_set_in if x[0] == p]:
            del attr_set_in[key]
    for p in new_paths:
        if p in ever and k >= 1:
            replaced_in[p] = k
            out.classes.add("recreate_in_patch")
        created_in[p] = k
        ever.add(p)
        for key in [x for x in attr_set_in if x[0] == p]:
            del attr_set_in[key]
        nn = tree.lookup(p)
        if nn is not None:
            for a in nn.attrs:  # attributes that arrived with a copy / move
                attr_set_in[(p, a)] = k
    for p in _touch_paths(b):
        rk = replaced_in.get(p)
        if rk is not None and k > rk:
            out.classes.add("replace_then_touch_3containers")
            out.nontrivial = True
    if o == "setattr":
        attr_set_in[(b["abs"], b["key"])] = k
    if o == "delattr":
        if attr_set_in.pop((b["abs"], b["key"]), 0) < k:
            out.classes.add("attr_delete_across_containers")
    if k >= 2 and (o == "del" or new_paths and any(p in ever for p in new_paths)):
        out.classes.add("delete_or_replace_in_nonfirst_of_ge3")
        out.nontrivial = True


def shape_key(out, placement):
    """Identity of a case for distinct counting: op kinds + bound paths + containers."""
    return [placement, out.n_containers] + [
        [b["op"], b.get("abs") or b.get("src_abs"), b.get("dst_abs")] for b in out.bound
    ]


# ---------------------------------------------------------------- model self-test

def selfcheck_model(n=120, seed=12345):
    """Validate the reference tree against plain h5py.File on generated histories (exit 2 on disagreement)."""
    import hypothesis
    from hypothesis import HealthCheck, Phase, given, settings

    install_work_guard()
    count = [0]

    @hypothesis.seed(seed)
    @settings(max_examples=n, database=None, deadline=None, phases=[Phase.generate],
              suppress_health_check=list(HealthCheck))
    @given(histories(3, 25))
    def t(h):
        try:
            out = run_history(h, lambda: H5Target(), placement="none", sig_prefix="MODEL")
            out.target.destroy()
        except Violation as v:
            raise HarnessError(f"reference tree disagrees with plain h5py.File: {v} extra={v.extra} history={h}")
        count[0] += 1

    t()
    return count[0]
