"""./check <ID> <quick|thorough> | ./check --replay <file>"""
import glob
import importlib
import json
import os
import sys
import time
import traceback

from . import compat  # noqa: F401  (must be first)
from . import evidence, findings
from .evidence import HarnessError, Rec


def _load(pid):
    return importlib.import_module(f"vt.props.{pid.lower()}")


def _run_shard(args):
    modname, shard, tier, seed = args
    mod = importlib.import_module(modname)
    rec = Rec(shard.get("name", ""))
    try:
        mod.run_shard(shard, tier, seed, rec)
    except HarnessError as e:
        return dict(error=f"harness error in shard {shard}: {e}\n{traceback.format_exc()}")
    except BaseException as e:  # noqa: BLE001 - anything escaping a shard is a harness error
        return dict(error=f"exception in shard {shard}: {type(e).__name__}: {e}\n{traceback.format_exc()}")
    return rec.export()


def _replay_one(mod, path):
    with open(path) as f:
        rp = json.load(f)
    rec = Rec("replay:" + os.path.basename(path))
    mod.replay(rp, rec)
    return rec


def cmd_replay(path):
    with open(path) as f:
        rp = json.load(f)
    mod = _load(rp["property"])
    rec = _replay_one(mod, path)
    if rec.failures:
        for fl in rec.failures:
            print(f"VIOLATION property={mod.ID} replay={path}  # {fl['signature']}: {fl['observed']}")
        return 1
    print(f"replay {path}: property held")
    return 0


def _save_replay(mod, fl):
    d = os.path.join(compat.OUT, "replays", mod.ID)
    os.makedirs(d, exist_ok=True)
    body = dict(property=mod.ID, kind=fl.get("kind", "case"), signature=fl["signature"], case=fl["case"],
                observed=fl["observed"], expected=fl["expected"])
    name = evidence.jhash([fl["signature"], fl["case"]]) + ".json"
    path = os.path.join(d, name)
    if not os.path.exists(path):
        with open(path, "w") as f:
            json.dump(body, f, indent=1, default=repr)
    return os.path.relpath(path, compat.VERIF) if compat.OUT == compat.VERIF else path


def cmd_check(pid, tier):
    import concurrent.futures as cf
    import multiprocessing as mp

    t0 = time.time()
    seed = int(os.environ.get("VERIF_SEED", "1") or 1)
    tier = os.environ.get("VERIF_TIER") or tier
    if tier not in ("quick", "thorough"):
        print(f"unknown tier {tier}", file=sys.stderr)
        return 2
    try:
        mod = _load(pid)
        if hasattr(mod, "selfcheck"):
            mod.selfcheck()
    except Exception as e:  # noqa: BLE001
        print(f"HARNESS-ERROR property={pid} import/selfcheck: {type(e).__name__}: {e}", file=sys.stderr)
        traceback.print_exc()
        return 2

    exports = []
    # 1. saved replays (regression inputs), in-process
    for path in sorted(glob.glob(os.path.join(compat.VERIF, "replays", mod.ID, "*.json"))):
        try:
            rec = _replay_one(mod, path)
        except Exception as e:  # noqa: BLE001
            print(f"HARNESS-ERROR property={pid} replay {path}: {type(e).__name__}: {e}", file=sys.stderr)
            traceback.print_exc()
            return 2
        for fl in rec.failures:
            fl["replay_path"] = os.path.relpath(path, compat.VERIF)
        rec.cls("replayed_saved_case")
        exports.append(rec.export())

    # 2. generated search, sharded
    shards = mod.plan(tier, seed)
    nproc = int(os.environ.get("VT_PROCS", "16"))
    jobs = [(mod.__name__, sh, tier, seed) for sh in shards]
    budget = float(os.environ.get("VT_BUDGET_S", "0") or 0) or getattr(mod, "BUDGET_S", {}).get(tier, 3600)
    errors = []
    if nproc <= 1 or len(jobs) <= 1:
        for j in jobs:
            exports.append(_run_shard(j))
    else:
        ctx = mp.get_context("fork")
        with cf.ProcessPoolExecutor(max_workers=min(nproc, len(jobs)), mp_context=ctx) as ex:
            futs = [ex.submit(_run_shard, j) for j in jobs]
            try:
                for fu in cf.as_completed(futs, timeout=budget):
                    exports.append(fu.result())
            except cf.TimeoutError:
                errors.append(f"budget of {budget}s exhausted before all shards finished (inconclusive)")
                for p in list(ex._processes.values()):
                    p.kill()
            except cf.process.BrokenProcessPool as e:
                errors.append(f"worker died: {e}")
    for e in exports:
        if "error" in e:
            errors.append(e["error"])
    exports = [e for e in exports if "error" not in e]
    if errors:
        for e in errors[:2]:
            print(f"HARNESS-ERROR property={pid} {e[:400]} ... {e[-900:]}", file=sys.stderr)
        if len(errors) > 2:
            print(f"HARNESS-ERROR property={pid} ... and {len(errors) - 2} more shard errors", file=sys.stderr)
        # violations found by the shards that did finish are still reported (exit 1); otherwise inconclusive
        if not any(x["failures"] for x in exports):
            return 2

    merged = evidence.merge(exports)
    known = findings.known_for(mod.ID)
    known_hits, viol = {}, {}
    for fl in merged["failures"]:
        sig = fl["signature"]
        if sig in known:
            known_hits[sig] = known[sig]
        elif sig not in viol:
            viol[sig] = fl
    for sig, what in sorted(known_hits.items()):
        print(f"KNOWN-FINDING: property={mod.ID} {what}  [{sig}]")
    for sig, fl in sorted(viol.items()):
        path = fl.get("replay_path") or _save_replay(mod, fl)
        print(f"VIOLATION property={mod.ID} replay={path}  # {sig}: observed {fl['observed'][:300]} expected {fl['expected'][:300]}")

    # vacuity guard
    missing = [c for c in getattr(mod, "REQUIRED_CLASSES", {}).get(tier, getattr(mod, "REQUIRED_CLASSES", {}).get("all", []))
               if merged["classes"].get(c, 0) == 0]
    wall = time.time() - t0
    evidence.write(mod, tier, seed, merged, wall, len(viol), sorted(known_hits))
    print(f"{mod.ID} {tier} seed={seed}: evaluations={merged['evaluations']} "
          f"distinct_nontrivial={len(merged['nontrivial'])} violations={len(viol)} "
          f"known={len(known_hits)} wall={wall:.1f}s")
    if viol:
        return 1
    if errors:
        return 2
    if missing and not known_hits:
        print(f"HARNESS-ERROR property={pid} vacuity guard: required classes never generated: {missing}", file=sys.stderr)
        return 2
    if len(merged["nontrivial"]) < 2:
        print(f"HARNESS-ERROR property={pid} fewer than 2 distinct non-trivial cases", file=sys.stderr)
        return 2
    return 0


def main(argv):
    if len(argv) >= 2 and argv[0] == "--replay":
        return cmd_replay(argv[1])
    if len(argv) >= 2 and argv[0] == "--selftest":
        from . import selftest
        return selftest.run(argv[1:])
    if len(argv) == 2:
        return cmd_check(argv[0], argv[1])
    print(__doc__, file=sys.stderr)
    return 2


if __name__ == "__main__":
    try:
        rc = main(sys.argv[1:])
    except SystemExit:
        raise
    except BaseException as e:  # noqa: BLE001
        traceback.print_exc()
        print(f"HARNESS-ERROR {type(e).__name__}: {e}", file=sys.stderr)
        rc = 2
    sys.stdout.flush()
    sys.stderr.flush()
    os._exit(rc)
