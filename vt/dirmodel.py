"""Abstract directory trees, realisation on disk, model-side DirHashsums (C18, C19)."""
import hashlib
import os

from hypothesis import strategies as st

# abstract tree: {name: ["f", hex] | ["l", target-string] | ["d", {...}]}

NAMES = ["a", "b", "c", "data", "x.txt", ".hidden", "with space", "ünï", "symlink:foo", "z-9_", "A"]


def file_hash(data: bytes, alg="sha256"):
    return f"{alg}:" + hashlib.new(alg, data).hexdigest()


def expected_hashsums(tree, alg="sha256", _here=(), _root=None):
    """Model-side DirHashsums: file -> '<alg>:<hex>', link -> 'symlink:<normalised path relative to root>'."""
    out = {}
    for name, (kind, val) in tree.items():
        if kind == "f":
            out[name] = file_hash(bytes.fromhex(val), alg)
        elif kind == "l":
            tgt = os.path.normpath(os.path.join("/".join(_here), val))
            out[name] = "symlink:" + tgt
        else:
            out[name] = expected_hashsums(val, alg, _here + (name,), _root)
    return out


def realize(tree, root, order_key=0, mtime=None):
    """Create the tree below existing dir `root`; entries are created in an order derived from order_key."""
    names = sorted(tree)
    if order_key % 3 == 1:
        names.reverse()
    elif order_key % 3 == 2:
        names = names[1::2] + names[0::2]
    for name in names:
        kind, val = tree[name]
        p = os.path.join(root, name)
        if kind == "f":
            data = bytes.fromhex(val)
            if order_key % 2:  # written in two steps via a temp name + rename
                with open(p + ".tmp~", "wb") as f:
                    f.write(data[: len(data) // 2])
                    f.flush()
                    f.write(data[len(data) // 2:])
                os.rename(p + ".tmp~", p)
            else:
                with open(p, "wb") as f:
                    f.write(data)
            if mtime is not None:
                os.utime(p, (mtime, mtime))
        elif kind == "l":
            os.symlink(val, p)
        else:
            os.mkdir(p)
            realize(val, p, order_key // 3 + 1, mtime)


def flatten(tree, prefix=""):
    """{relative path: entry} for all entries of an abstract tree."""
    out = {}
    for name, e in tree.items():
        p = prefix + name
        out[p] = e
        if e[0] == "d":
            out.update(flatten(e[1], p + "/"))
    return out


def dirs_of(tree, prefix=""):
    out = [prefix.rstrip("/")]
    for name, e in tree.items():
        if e[0] == "d":
            out += dirs_of(e[1], prefix + name + "/")
    return out


# ---- strategies

SIZES = [0, 1, 2, 63, 64, 65, 127, 128, 129, 191, 192, 255, 256, 1023, 1024, 1025, 4095, 4096, 4097]


def contents():
    small = st.sampled_from(["", "00", "78", "79", "7800", "ff", "0a", "780a"])
    sized = st.builds(lambda n, b: (bytes([b]) * n).hex(), st.sampled_from(SIZES), st.integers(0, 255))
    rnd = st.binary(max_size=200).map(bytes.hex)
    return st.one_of(small, small, sized, rnd)


def trees(max_depth=3, max_children=4, names=NAMES, with_links=True):
    """Abstract trees; links are added afterwards (they need the set of existing paths)."""
    name = st.sampled_from(names)
    leaf = contents().map(lambda h: ["f", h])

    def level(d):
        if d == 0:
            child = leaf
        else:
            child = st.one_of(leaf, leaf, level(d - 1).map(lambda t: ["d", t]))
        return st.dictionaries(name, child, max_size=max_children)

    base = level(max_depth)
    if not with_links:
        return base
    return st.builds(add_links, base, st.lists(st.tuples(st.integers(0, 30), st.integers(0, 30), st.integers(0, 5),
                                                            st.sampled_from(["lnk", "l2", "a", "zz"])), max_size=3))


def rel_target(link_dir, target, style=0):
    """Target string for a link located in directory `link_dir` (relative path from root, '' = root)."""
    rel = os.path.relpath("/" + target, "/" + link_dir) if link_dir else (target or ".")
    if style == 1:
        rel = "./" + rel
    elif style == 2 and link_dir:
        rel = "../" + os.path.basename(link_dir) + "/" + rel  # up and down again through a real dir
    return rel


def add_links(tree, specs):
    """Insert in-directory symlinks pointing to files, directories, dangling names or links made earlier."""
    import copy

    tree = copy.deepcopy(tree)
    for di, ti, style, lname in specs:
        flat = flatten(tree)
        dirs = dirs_of(tree)
        ldir = dirs[di % len(dirs)]
        cands = [p for p, e in flat.items() if e[0] in ("f", "d")] + ["", "dangling", (ldir + "/" if ldir else "") + "nothere"]
        cands += [p for p, e in flat.items() if e[0] == "l"]  # a link to a link made earlier (its own target is what counts)
        target = cands[ti % len(cands)]
        node = tree
        for s in [x for x in ldir.split("/") if x]:
            node = node[s][1]
        if lname in node:
            continue
        if target == ldir or (ldir + "/").startswith(target + "/") and target != "":
            pass  # link to own dir / ancestor: allowed (rglob does not follow links)
        node[lname] = ["l", rel_target(ldir, target, style)]
    return tree
