"""known_findings.json: committed, never written at run time."""
import json
import os

from . import compat

PATH = os.path.join(compat.VERIF, "known_findings.json")


def load():
    if not os.path.exists(PATH):
        return []
    with open(PATH) as f:
        return json.load(f)["findings"]


def known_for(pid):
    """signature -> what, for entries with status 'known' (fixed entries suppress nothing)."""
    return {e["signature"]: e["what"] for e in load() if e.get("status") == "known" and e["property"] == pid}
