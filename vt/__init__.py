"""Verification harness for metador-core (property-based testing / fuzzing)."""
