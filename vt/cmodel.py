"""Container-level model, raw-tree auditor and history interpreter (C06-C09, C15, C17, C20)."""
import json
import copy
import os
import shutil
import uuid as uuidlib

import h5py
from hypothesis import strategies as st
from pydantic import ValidationError

from . import compat  # noqa: F401
from . import history as H
from . import schemagen as G
from .evidence import HarnessError, Violation
from .treemodel import OpFails, Tree, canon, diff_dumps, is_group, join, split

from metador_core.container import MetadorContainer  # noqa: E402
from metador_core.ih5.container import IH5MFRecord, IH5Record  # noqa: E402
from metador_core.plugins import schemas  # noqa: E402

G.installed_schemas()  # loads all plugin groups

PREF = "metador_"
META_PREF = "metador_meta_"
TOC = "/metador_container"

# ---------------------------------------------------------------- schema pool

POOL = [  # (key used in ops, schema name, version or None = unversioned access by name)
    ("base100", "verif.base", (1, 0, 0)),
    ("base110", "verif.base", (1, 1, 0)),
    ("base200", "verif.base", (2, 0, 0)),
    ("base", "verif.base", None),
    ("mid", "verif.mid", (1, 0, 0)),
    ("leaf", "verif.leaf", (0, 3, 1)),
    ("thing", "verifother.thing", (1, 0, 0)),
    ("file", "core.file", (0, 1, 0)),
    ("table", "core.table", (0, 1, 0)),
    ("material", "example.matsci.material", (0, 1, 0)),
    ("person", "core.person", (0, 1, 0)),
    ("alpha", "verif.alpha", (1, 0, 0)),  # child of verif.base 1.1.0 whose name sorts before the parent's
    ("caps", "verifcaps.thing", (1, 0, 0)),  # provided by a distribution named 'Verif_Caps'
    ("famkid", "verif.famkid", (0, 1, 0)),  # its parent verif.fam 0.1.0 has a newer version 0.2.0 with another parent
]
INVALID = [("aux", "verif.aux", (1, 0, 0)), ("unknown", "verif.nope", None), ("unknownv", "verif.base", (3, 0, 0))]


def pool_class(i):
    key, name, ver = POOL[i % len(POOL)]
    cls = schemas.get(name, ver) if ver else schemas.get(name)
    return key, name, ver, cls


def real_version(cls):
    return tuple(cls.Plugin.version)


def class_parents(cls):
    """[(name, version)] of the plugin ancestors of a schema class incl. itself, derived from the MRO."""
    out = []
    for c in cls.__mro__:
        pg = c.__dict__.get("Plugin") if hasattr(c, "__dict__") else None
        if pg is not None and getattr(pg, "name", None) and (pg.name, tuple(pg.version)) not in out:
            out.append((pg.name, tuple(pg.version)))
    return out


# ---------------------------------------------------------------- user-level model

class CModel:
    """Tree of user data + metadata objects per node."""

    def __init__(self):
        self.tree = Tree()
        self.meta = {}  # abs path -> {schema name: dict(ref=(name, version), json=dict, parents=[(name, ver)...])}

    def clone(self):
        m = CModel()
        m.tree = self.tree.clone()
        m.meta = {p: {k: dict(v) for k, v in d.items()} for p, d in self.meta.items()}
        return m

    def _under(self, root):
        return [p for p in self.meta if p == root or p.startswith(root.rstrip("/") + "/")]

    def on_delete(self, root):
        for p in self._under(root):
            del self.meta[p]

    def on_move(self, src, dst):
        for p in self._under(src):
            self.meta[dst + p[len(src):]] = self.meta.pop(p)

    def on_copy(self, src, dst, without_meta):
        if without_meta:
            return
        for p in self._under(src):
            self.meta[dst + p[len(src):]] = {k: dict(v) for k, v in self.meta[p].items()}

    def used_schemas(self):
        return {tuple(v["ref"]) for d in self.meta.values() for v in d.values()}

    def dump_meta(self):
        return {p: {k: (list(v["ref"][:1]) + [list(v["ref"][1])], v["json"]) for k, v in d.items()} for p, d in self.meta.items() if d}


# ---------------------------------------------------------------- raw-tree auditor (independent of container/utils.py)

def _raw_walk(raw):
    out = {"/": ("g", None)}

    def cb(name, node):
        out["/" + name] = ("g", None) if is_group(node) else ("d", node[()])

    raw.visititems(cb)
    return out


def audit(raw, where="", sig="C06"):
    """Re-derive the layout from the raw (unwrapped) tree and check the TOC <-> metadata bijection.

    Returns dict(objects={(owner, ep_name, uuid): bytes}, links={uuid: (ep_name, target)}, schemas={ep_name}, packages={..})."""
    nodes = _raw_walk(raw)
    objects, problems = {}, []
    for p, (kind, val) in nodes.items():
        segs = split(p)
        if not segs or segs[0] == "metador_container":
            continue
        # a metadata directory?
        if segs[-1].startswith(META_PREF):
            if kind != "g":
                problems.append(f"meta dir {p} is not a group")
                continue
            suffix = segs[-1][len(META_PREF):]
            parent = "/" + "/".join(segs[:-1])
            owner = parent if suffix == "" else (parent.rstrip("/") + "/" + suffix)
            owner = owner if owner != "" else "/"
            children = [q for q in nodes if q.startswith(p + "/") and len(split(q)) == len(segs) + 1]
            if not children:
                problems.append(f"empty metadata directory {p}")
            if owner not in nodes:
                problems.append(f"metadata directory {p} belongs to a node {owner} that does not exist")
            elif (nodes[owner][0] == "g") != (suffix == ""):
                problems.append(f"metadata directory {p}: owner {owner} has the wrong kind {nodes[owner][0]}")
            for q in children:
                name = split(q)[-1]
                if nodes[q][0] != "d" or "=" not in name:
                    problems.append(f"unexpected entry {q} in metadata directory")
                    continue
                ep, _, uid = name.partition("=")
                objects[(owner, ep, uid)] = bytes(nodes[q][1]) if not isinstance(nodes[q][1], h5py.Empty) else b""
        elif any(s.startswith(PREF) for s in segs) and not any(s.startswith(META_PREF) for s in segs[:-1]):
            problems.append(f"unknown reserved entity {p}")
    links, lschemas = {}, set()
    lroot = TOC + "/links"
    for p, (kind, val) in nodes.items():
        if not p.startswith(lroot + "/"):
            continue
        rel = split(p)[2:]
        if len(rel) == 1:
            lschemas.add(rel[0])
            if kind != "g":
                problems.append(f"{p} is not a group")
            elif not [q for q in nodes if q.startswith(p + "/")]:
                problems.append(f"empty link group {p}")
        elif len(rel) == 2:
            if kind != "d":
                problems.append(f"link {p} is not a dataset")
                continue
            tgt = val.decode() if isinstance(val, bytes) else str(val)
            if rel[1] in links:
                problems.append(f"uuid {rel[1]} linked twice")
            links[rel[1]] = (rel[0], tgt)
        else:
            problems.append(f"unexpected entity {p}")
    if lroot in nodes and not lschemas:
        problems.append("empty group " + lroot)
    srecs = set()
    sroot = TOC + "/schemas"
    for p, (kind, val) in nodes.items():
        if p.startswith(sroot + "/") and len(split(p)) == 3:
            srecs.add(split(p)[2])
            for need in ("jsonschema.json", "compat"):
                if p + "/" + need not in nodes:
                    problems.append(f"schema record {p} lacks {need}")
    if sroot in nodes and not srecs:
        problems.append("empty group " + sroot)
    pkgs = {}
    proot = TOC + "/packages"
    for p, (kind, val) in nodes.items():
        if p.startswith(proot + "/") and len(split(p)) == 3:
            try:
                pkgs[split(p)[2]] = json.loads(bytes(val).decode())
            except Exception as e:  # noqa: BLE001
                problems.append(f"package record {p} unreadable: {e}")
    if proot in nodes and not pkgs:
        problems.append("empty group " + proot)
    for need in (TOC + "/version", TOC + "/uuid"):
        if need not in nodes:
            problems.append(f"{need} missing")
    # ---- bijection links <-> objects
    by_uuid = {}
    for (owner, ep, uid), _ in objects.items():
        if uid in by_uuid:
            problems.append(f"uuid {uid} used by two objects: {by_uuid[uid]} and {(owner, ep)}")
        by_uuid[uid] = (owner, ep)
    for uid, (owner, ep) in by_uuid.items():
        if owner not in nodes:
            problems.append(f"metadata object {ep}={uid} is stored for {owner}, which does not exist")
            continue
        if uid not in links:
            problems.append(f"attached object {ep}={uid} at {owner} has no TOC link")
        else:
            lep, tgt = links[uid]
            if lep != ep:
                problems.append(f"link of {uid} filed under schema {lep}, object is {ep}")
            exp_tgt = _obj_path(owner, nodes, ep, uid)
            if tgt != exp_tgt:
                problems.append(f"link of {uid} points to {tgt}, object is at {exp_tgt}")
    for uid, (lep, tgt) in links.items():
        if uid not in by_uuid:
            problems.append(f"TOC link {lep}/{uid} -> {tgt} has no attached object")
    used = {ep for (_, ep, _) in objects}
    if srecs != used:
        problems.append(f"schema records {sorted(srecs)} != schemas in use {sorted(used)}")
    if lschemas != used:
        problems.append(f"link groups {sorted(lschemas)} != schemas in use {sorted(used)}")
    provided = {}
    for pk, info in pkgs.items():
        for ref in (info.get("plugins", {}) or {}).get("schema", []):
            provided.setdefault(f"{ref['name']}__{'.'.join(map(str, ref['version']))}", set()).add(pk)
    for ep in used:
        if ep not in provided:
            problems.append(f"schema {ep} is in use, but no package record provides it")
    for pk, info in pkgs.items():
        eps = {f"{r['name']}__{'.'.join(map(str, r['version']))}" for r in (info.get("plugins", {}) or {}).get("schema", [])}
        if not eps & used:
            problems.append(f"package record {pk} provides no schema in use")
    if problems:
        kinds = sorted({_problem_kind(x) for x in problems})
        raise Violation(f"{sig}:toc-out-of-sync:" + "+".join(kinds)[:120], f"{where}: " + "; ".join(problems[:5]), "TOC and metadata in one-to-one sync")
    return dict(objects=objects, links=links, schemas=srecs, packages=pkgs, nodes=nodes)


def _obj_path(owner, nodes, ep, uid):
    kind = nodes[owner][0]
    segs = split(owner)
    if kind == "g":
        base = ("/" + "/".join(segs) if segs else "") + "/" + META_PREF
    else:
        base = "/" + "/".join(segs[:-1] + [META_PREF + segs[-1]])
    return f"{base}/{ep}={uid}"


def _problem_kind(msg):
    for key, kind in (("no TOC link", "object-without-link"), ("has no attached object", "link-without-object"),
                      ("schema records", "schema-records"), ("link groups", "link-groups"), ("empty", "empty-group"),
                      ("package record", "package-records"), ("no package record", "package-records"),
                      ("does not exist", "orphan-metadata"), ("wrong kind", "orphan-metadata"), ("points to", "link-target"),
                      ("uuid", "uuid"), ("reserved", "reserved-entity")):
        if key in msg:
            return kind
    return "other"


def user_dump(mc):
    """User-visible tree through the container interface: {path: [kind, value, attrs]} (must never show metador_*)."""
    out = {}

    def attrs_of(n):
        return {k: canon(n.attrs[k]) for k in n.attrs.keys()}

    out["/"] = ["g", None, attrs_of(mc)]

    def cb(name, node):
        if hasattr(node, "keys") and hasattr(node, "create_group"):
            out["/" + name] = ["g", None, attrs_of(node)]
        else:
            out["/" + name] = ["d", canon(node[()]), attrs_of(node)]

    mc.visititems(cb)
    return out


def meta_dump(mc, paths):
    """{path: {schema name: ([name, version], json dict)}} read through node.meta for the given user paths."""
    out = {}
    for p in paths:
        node = mc if p == "/" else mc[p]
        m = node.meta
        d = {}
        for name in m.keys():
            stored = m._objs[name] if hasattr(m, "_objs") else None
            ref = stored.schema if stored is not None else None
            # versioned lookup (an unversioned one parses with the newest installed major version, which may not
            # support the stored object: documented multi-version limitation)
            obj = m.get(name, tuple(ref.version)) if ref is not None else m.get(name)
            d[name] = ([ref.name, list(ref.version)] if ref is not None else None, obj.json_dict() if obj is not None else None)
        if d:
            out[p] = d
    return out


# ---------------------------------------------------------------- targets (drivers)

class CTarget:
    """A MetadorContainer over one of the drivers."""

    def __init__(self, driver):
        self.driver = driver  # "h5" | "ih5" | "ih5mf"
        self.dir = H.new_scratch("vt-c-")
        if driver == "h5":
            self.path = os.path.join(self.dir, "c.h5")
            self.raw = h5py.File(self.path, "w")
        else:
            self.cls = IH5Record if driver == "ih5" else IH5MFRecord
            self.path = os.path.join(self.dir, "c")
            self.raw = self.cls(self.path, "w")
        self.mc = MetadorContainer(self.raw)

    def commit(self):
        if self.driver != "h5":
            self.raw.commit_patch()
            self.raw.create_patch()
            self.mc = MetadorContainer(self.raw) if False else self.mc

    def reopen(self):
        self.mc.close()
        if self.driver == "h5":
            self.raw = h5py.File(self.path, "r+")
        else:
            self.raw = self.cls(self.path, "r+")
        self.mc = MetadorContainer(self.raw)

    def n_containers(self):
        return 1 if self.driver == "h5" else len(self.raw.ih5_files)

    def destroy(self):
        try:
            self.mc.close()
        except Exception:  # noqa: BLE001
            H.close_leaked_h5()
        shutil.rmtree(self.dir, ignore_errors=True)


# ---------------------------------------------------------------- ops

NAMES = ["a", "b", "c", "d"]
cref = st.integers(0, 40)
cseg = st.sampled_from(NAMES)
cpath = st.one_of(cseg, cseg, cseg, st.lists(cseg, min_size=2, max_size=3).map("/".join), cseg.map(lambda s: "/" + s))
fresh = st.sampled_from(["e", "f", "g", "h", "n1", "n2", "ab", "aa", "b-1", "xmetador_y", "non_metador_data"])  # (not reserved: no segment STARTS with metador_)
dpath = st.one_of(fresh, fresh, cseg, st.tuples(cseg, fresh).map("/".join), fresh.map(lambda s: "/" + s))
cvalue = st.one_of(st.builds(lambda v: {"t": "int", "v": v}, st.integers(0, 9)),
                   st.builds(lambda v: {"t": "void", "v": v}, st.sampled_from(["00", "6100", "ff00fe00", "7f00"])),
                   st.builds(lambda v: {"t": "str", "v": v}, st.sampled_from(["x", "äö"])),
                   st.just({"t": "arr", "dt": "i8", "v": [1, 2, 3]}),
                   st.builds(lambda dt, v: {"t": "arr", "dt": dt, "v": v}, st.sampled_from(["i1", "u1"]), st.sampled_from([127, 1])))
ctgt = st.one_of(cref, cref, cref, cref, cref, cref, cpath)


def attach_ops():
    def one(i):
        key, name, ver, cls = pool_class(i)
        rec = G.model_recipe(cls, 1, dates="date", objects=False)
        return st.tuples(st.just("attach"), ctgt, st.just(i), st.sampled_from(["name", "class", "tuple"]), rec, st.booleans())

    valid = st.integers(0, len(POOL) - 1).flatmap(one)
    invalid = st.tuples(st.just("attach_bad"), ctgt, st.sampled_from(["aux", "unknown", "unknownv", "invalid_obj", "missing_required"]),
                        st.integers(0, len(POOL) - 1))
    return st.one_of(valid, valid, valid, valid, invalid)


def container_ops(self_move=False, node_forms=True):
    data = st.one_of(
        st.tuples(st.just("set"), cref, cpath, cvalue), st.tuples(st.just("set"), cref, cpath, cvalue),
        st.tuples(st.just("mkgrp"), cref, cpath),
        st.tuples(st.just("del"), cref, ctgt),
        st.tuples(st.just("setattr"), ctgt, st.sampled_from(["k", "u"]), cvalue),
        st.tuples(st.just("delattr"), ctgt, cref),
        st.tuples(st.just("mcopy"), cref, ctgt, dpath, st.booleans(), st.booleans(),
                  st.sampled_from(["str", "str", "node_src", "group_dst", "group_dst_name", "group_dst_name_none"] if node_forms else ["str"])),
        st.tuples(st.just("mcopy"), cref, ctgt, dpath, st.just(False), st.booleans(), st.just("str")),
        st.tuples(st.just("move"), cref, ctgt, dpath), st.tuples(st.just("move"), cref, ctgt, dpath),
        st.tuples(st.just("replace"), cref, st.sampled_from(["g", "d"]), cvalue),
        st.tuples(st.just("require"), cref, cpath, st.sampled_from(["g", "d"]), cvalue),
    )
    detach = st.tuples(st.just("detach"), ctgt, st.integers(0, 30), st.booleans())
    meta = st.one_of(attach_ops(), attach_ops(), attach_ops(), detach, detach)
    bnd = st.one_of(st.just(("commit",)), st.just(("commit",)), st.just(("reopen",)), st.tuples(st.just("purge"), st.integers(0, 8)),
                    st.tuples(st.just("purge_parent"), st.integers(0, 8)))
    nopatch = st.integers(0, len(POOL) - 1).flatmap(lambda i: st.tuples(
        st.just("nopatch"), ctgt, st.just(i), G.model_recipe(pool_class(i)[3], 1, dates="date", objects=False),
        st.sampled_from(["attach", "attach", "attach", "detach", "set", "setattr"])))
    bnd = st.one_of(bnd, bnd, bnd, nopatch, nopatch, st.just(("detach_all",)), st.just(("visit_detach",)), st.tuples(st.just("del_root"), cref),
                    st.tuples(st.just("copy_root"), fresh, st.booleans()), st.just(("flush",)), st.tuples(st.just("move_root"), cref, fresh),
                    st.integers(0, len(POOL) - 1).flatmap(lambda i: st.tuples(
                        st.just("stale"), ctgt, st.just(i), G.model_recipe(pool_class(i)[3], 1, dates="date", objects=False))),
                    st.tuples(st.just("set_node"), cref, fresh, st.sampled_from(["node", "raw", "dtype", "data", "data"])))
    # a patch that consists of exactly one small change (between two boundaries)
    one = st.one_of(st.tuples(st.just("setattr"), st.just("/"), st.sampled_from(["k", "u"]), cvalue),
                    st.tuples(st.just("delattr"), st.just("/"), cref),
                    st.tuples(st.just("setattr"), ctgt, st.sampled_from(["k", "u"]), cvalue),
                    st.tuples(st.just("delattr"), ctgt, cref),
                    st.tuples(st.just("del"), cref, ctgt), detach, attach_ops())
    solo = st.tuples(st.just("solo"), st.sampled_from(["commit", "reopen"]), one, st.sampled_from(["commit", "reopen", "reopen"]))
    extra = [st.tuples(st.just("selfmove"), ctgt)] if self_move else []
    # a group moved below itself: raw HDF5 detaches the subtree, so the only sound outcome is a refusal without effect
    extra.append(st.tuples(st.just("move_into_self"), ctgt, st.sampled_from(["inner", "x/y", "g"])))
    cpmv = st.one_of(
        st.tuples(st.just("mcopy"), cref, cref, dpath, st.booleans(), st.booleans(),
                  st.sampled_from(["str", "str", "node_src", "group_dst", "group_dst_name", "group_dst_name_none"] if node_forms else ["str"])),
        st.tuples(st.just("move"), cref, cref, dpath))
    gcn = st.tuples(st.just("gcopy_nometa"), cref, fresh, st.sampled_from(["", "", "del_original", "del_copy"]))
    return st.one_of(data, data, meta, meta, meta, cpmv, cpmv, gcn, bnd, solo, *extra)


def chistories(min_ops=6, max_ops=25, **kw):
    return st.lists(container_ops(**kw), min_size=min_ops, max_size=max_ops).map(lambda l: [list(o) for o in l])


# ---------------------------------------------------------------- interpreter

def envbug_risky(tree, recv, dst_abs):
    """libhdf5 2.0.0 (this sandbox, reproduced with plain h5py): H5Ocopy called on a non-root group with an ABSOLUTE
    destination checks the existence of the destination relative to that group: it fails with 'destination object
    already exists' when <group>/<destination> exists, and with 'message type not found' when a prefix of that path is
    a dataset. Such calls are issued from the root group instead (same meaning)."""
    if recv == "/":
        return False
    cur = recv
    for sg in split(dst_abs):
        cur = join(cur, sg)
        n = tree.lookup(cur)
        if n is None:
            return False
        if n.kind == "d":
            return True
    return True


class EnvBug(Exception):
    """A failure of the trusted base (libhdf5) made the case inconclusive."""


class CSession:
    """Runs a container history against 1..n targets and the user-level model in lock step."""

    def __init__(self, drivers, sig="C06", after_step=None, differential_only=False, before_step=None):
        self.model = CModel()
        self.targets = [CTarget(d) for d in drivers]
        self.sig = sig
        self.after_step = after_step
        self.before_step = before_step
        self.classes = set()
        self.steps = []  # (kind, ok)
        self.n_ok = 0
        self.held = None  # (path, [meta handle per target])
        self.pos = 0
        self.differential_only = differential_only

    # -- helpers
    def _nodes(self):
        return self.model.tree.paths()[1:]

    def _node_target(self, t, prefer_meta=False):
        nodes = ["/"] + self._nodes()
        if isinstance(t, int):
            if prefer_meta and self.model.meta and t % 4 != 0:
                cands = sorted(self.model.meta)
                return cands[t % len(cands)]
            return nodes[t % len(nodes)]
        return join("/", t)

    def _annotated_or_ancestor(self, t):
        """A non-root node that carries metadata or has annotated descendants (for copy/move sources)."""
        cands = sorted({("/" + "/".join(split(p)[:i])) for p in self.model.meta for i in range(1, len(split(p)) + 1)})
        cands = [c for c in cands if self.model.tree.lookup(c) is not None]
        return cands[t % len(cands)] if cands else None

    def _node(self, mc, path):
        return mc if path == "/" else mc[path]

    def _meta_handle(self, ti, mc, path, held):
        if held and self.held is not None and self.held[0] == path and self.held[1][ti] is not None:
            self.classes.add("held_handle_reused")
            return self.held[1][ti]
        h = self._node(mc, path).meta
        return h

    def run_all(self, fn_real, fn_model, kind, info=None):
        """Apply one step everywhere; compare success/failure with the model (and between targets)."""
        model_before = self.model.clone()
        try:
            fn_model(self.model)
            ok_model = True
        except OpFails:
            ok_model = False
            self.model = model_before
        oks, errs = [], []
        for ti, t in enumerate(self.targets):
            try:
                with H.work_limit(3 * len(model_before.tree.paths()) * 6 + 200):
                    fn_real(ti, t)
                oks.append(True)
                errs.append(None)
            except H.Diverges:
                raise Violation(f"{self.sig}:diverges:{kind}", f"{kind} {info} does not terminate on {t.driver}", "terminates")
            except Exception as e:  # noqa: BLE001
                oks.append(False)
                errs.append(f"{type(e).__name__}: {str(e)[:200]}")
                if t.driver == "h5" and ok_model and "message type not found" in str(e) and "copy object" in str(e):
                    # libhdf5 2.0.0 (this sandbox): H5Ocopy from a non-root group with an ABSOLUTE destination
                    # fails when that group has a dataset child named like the first segment of the destination
                    # (reproduced with plain h5py, no metador code involved) -> case is inconclusive, not judged
                    raise EnvBug(f"{kind} {info}")
        if len(set(oks)) > 1:
            raise Violation(f"C09:step-outcome-differs:{kind}", f"step {self.pos} {kind} {info}: " + ", ".join(
                f"{t.driver}={'ok' if o else e}" for t, o, e in zip(self.targets, oks, errs)), "all drivers agree")
        if not self.differential_only and oks[0] != ok_model:
            what = "fails" if ok_model else "succeeds"
            raise Violation(f"{self.sig}:op-{what}:{kind}", f"step {self.pos} {kind} {info} on {self.targets[0].driver}: "
                            f"{errs[0] or 'succeeded'}", "succeeds" if ok_model else "fails")
        if self.differential_only and not oks[0]:
            self.model = model_before  # the (unused) model follows the real outcome
        ok = oks[0]
        if ok and model_before.used_schemas() - self.model.used_schemas():
            self.classes.add("last_object_of_schema_removed")
        self.steps.append((kind, ok))
        if ok:
            self.n_ok += 1
        else:
            self.classes.add("failed_step")
        return ok

    # -- ops
    def step(self, op):
        kind = op[0]
        m = self.model
        tree = m.tree
        held_next = None
        if self.before_step:
            self.before_step(self, op)
        if kind in ("commit", "reopen"):
            for t in self.targets:
                if kind == "commit":
                    t.commit()
                else:
                    t.reopen()
            self.classes.add(kind)
            self.steps.append((kind, True))
        elif kind in ("set", "mkgrp", "del", "setattr", "delattr", "move", "replace"):
            hop = list(op)
            if kind == "move" and isinstance(op[2], int) and op[2] % 3 != 0 and self._annotated_or_ancestor(op[2]):
                hop[2] = self._annotated_or_ancestor(op[2])  # literal absolute path of an annotated node / ancestor
            for b in H.bind(hop, tree):
                if b["op"] == "move" and any(t.driver == "h5" for t in self.targets) and split(b["dst_abs"]) \
                        and envbug_risky(tree, b["recv"], b["dst_abs"]):
                    b = dict(b, recv="/", src=b["src_abs"], dst=b["dst_abs"])
                    self.classes.add("receiver_switched_to_root_env_bug")
                if not H.bound_is_generated(b) or any(s.startswith(PREF) for s in split(b.get("abs", "") or "") + split(b.get("dst_abs", "") or "")):
                    continue

                def fm(model, b=b):
                    before_kind = None
                    H.apply_model(model.tree, b)
                    if b["op"] == "del":
                        model.on_delete(b["abs"])
                    elif b["op"] == "move":
                        model.on_move(b["src_abs"], b["dst_abs"])

                self.run_all(lambda ti, t, b=b: H.apply_real(t.mc, b), fm, b["op"] + (":" + b["macro"] if b.get("macro") else ""), b)
                if b["op"] == "move" and m.meta and any(p == b["dst_abs"] or p.startswith(b["dst_abs"] + "/") for p in self.model.meta):
                    self.classes.add("move_with_meta")
                if b["op"] == "del":
                    self.classes.add("delete")
        elif kind == "require":
            r = tree.paths("g")[op[1] % len(tree.paths("g"))]
            ab = join(r, op[2])
            want, val = op[3], op[4]

            def fm(model):
                n = model.tree.lookup(ab)
                if n is not None:
                    if n.kind != want:
                        raise OpFails("wrong kind")
                    if want == "d" and n.value[0] not in ("num", "arr"):
                        raise OpFails("not exercised: existing dataset of string/opaque/empty type")
                    return
                if want == "g":
                    model.tree.mkgrp(ab)
                else:
                    v = H.realize(H.storable(val))
                    spec = H.storable(val) if isinstance(v, (int, float)) or hasattr(v, "shape") else {"t": "int", "v": 0}
                    model.tree.set(ab, H.expected_canon(spec, False))

            def fr(ti, t):
                g = self._node(t.mc, r)
                if want == "g":
                    g.require_group(op[2])
                else:
                    v = H.realize(H.storable(val))
                    if not isinstance(v, (int, float)) and not hasattr(v, "shape"):
                        v = 0
                    import numpy as np
                    arr = np.asarray(v)
                    ex = g.get(op[2])
                    if ex is not None and not hasattr(ex, "keys"):
                        # existing dataset: ask with its own shape/dtype (h5py refuses a mismatch, IH5 does not check
                        # yet - a documented TODO of the h5py-subset, not asserted)
                        cur = np.asarray(ex[()]) if not isinstance(ex[()], h5py.Empty) else None
                        if cur is None or cur.dtype.kind in "OSUV":
                            raise KeyError("unsupported existing dataset for require_dataset")
                        g.require_dataset(op[2], shape=cur.shape, dtype=cur.dtype)
                    else:
                        g.require_dataset(op[2], shape=arr.shape, dtype=arr.dtype, data=v)

            self.run_all(fr, fm, f"require_{want}", ab)
        elif kind == "mcopy":
            _, recv_i, src_t, dst, without_attrs, without_meta, form = op
            nodes = self._nodes()
            if not nodes:
                return
            if isinstance(src_t, int):
                src_abs = nodes[src_t % len(nodes)]
                if src_t % 3 != 0 and self._annotated_or_ancestor(src_t):
                    src_abs = self._annotated_or_ancestor(src_t)
            else:
                src_abs = join("/", src_t)
            groups = tree.paths("g")
            recv = groups[recv_i % len(groups)]
            src_node_m = tree.lookup(src_abs)
            if form in ("group_dst", "group_dst_name", "group_dst_name_none"):
                dgroups = [g for g in groups]
                dg = dgroups[(recv_i * 7 + 3) % len(dgroups)]
                name = split(dst)[-1] if form == "group_dst_name" else (split(src_abs)[-1] if split(src_abs) else "x")
                dst_abs = join(dg, name)
            else:
                dst_abs = join(recv, dst)
            if dst_abs == src_abs and False:
                return
            if any(t.driver == "h5" for t in self.targets) and split(dst_abs) and envbug_risky(tree, recv, dst_abs):
                # would run into the libhdf5 2.0 H5Ocopy bug (see envbug_risky): use the root as receiver instead
                recv, dst = "/", dst_abs
                self.classes.add("receiver_switched_to_root_env_bug")
            info = dict(src=src_abs, dst=dst_abs, form=form, without_attrs=without_attrs, without_meta=without_meta)

            def fm(model):
                model.tree.copy(src_abs, dst_abs, without_attrs)
                model.on_copy(src_abs, dst_abs, without_meta)

            def fr(ti, t):
                mc = t.mc
                g = self._node(mc, recv)
                kw = {}
                if without_attrs:
                    kw["without_attrs"] = True
                if without_meta:
                    kw["without_meta"] = True
                if form == "str":
                    g.copy(src_abs, dst if not dst.startswith("/") else dst, **kw)
                elif form == "node_src":
                    g.copy(mc[src_abs], dst, **kw)
                elif form == "group_dst":
                    g.copy(src_abs, mc[dg] if dg != "/" else mc["/"], **kw)
                elif form == "group_dst_name_none":  # the documented default of the keyword, spelled out
                    g.copy(src_abs, mc[dg] if dg != "/" else mc["/"], name=None, **kw)
                else:
                    g.copy(src_abs, mc[dg] if dg != "/" else mc["/"], name=name, **kw)

            had_meta = any(p == src_abs or p.startswith(src_abs + "/") for p in m.meta)
            ok = self.run_all(fr, fm, "copy", info)
            if ok:
                self.classes.add("copy_with_meta" if had_meta and not without_meta else ("copy_without_meta" if had_meta else "copy_plain"))
                if src_node_m is not None and src_node_m.kind == "g" and had_meta and without_meta:
                    self.classes.add("group_copy_without_meta")
                if form != "str":
                    self.classes.add("copy_node_forms")
        elif kind == "gcopy_nometa":
            # copy of a GROUP that has annotated strict descendants, without metadata, to a fresh name
            cands = sorted({("/" + "/".join(split(p)[:i])) for p in m.meta for i in range(1, len(split(p)))})
            cands = [c for c in cands if tree.lookup(c) is not None and tree.lookup(c).kind == "g"]
            if not cands:
                return
            src_abs = cands[op[1] % len(cands)]
            dst_abs = "/" + op[2]
            if tree.lookup(dst_abs) is not None or any(s_.startswith(PREF) for s_ in split(dst_abs)):
                return

            def fm(model):
                model.tree.copy(src_abs, dst_abs, False)

            if self.run_all(lambda ti, t: t.mc.copy(src_abs, dst_abs, without_meta=True), fm, "copy", dict(src=src_abs, dst=dst_abs, without_meta=True)):
                self.classes.add("group_copy_without_meta")
                self.classes.add("copy_without_meta")
                then = op[3] if len(op) > 3 else ""
                if then:  # ... and afterwards one of the two trees goes away again
                    victim = src_abs if then == "del_original" else dst_abs
                    if self.after_step:
                        self.after_step(self, ["mcopy"])

                    def fm2(model):
                        model.tree.delete(victim)
                        model.on_delete(victim)

                    self.run_all(lambda ti, t: t.mc.__delitem__(victim), fm2, "del:after-gcopy", dict(path=victim))
                    self.classes.add("group_copy_without_meta_then_" + then)
        elif kind == "solo":
            self.step([op[1]])
            self.step(list(op[2]))
            self.step([op[3]])
            self.classes.add("single_change_patch")
            return
        elif kind == "stale":
            # a metadata handle taken earlier must not act on an outdated picture of the node: attach through a fresh
            # handle, then attach the same schema / look the object up / remove it through the old handle
            _, tgt, pi, recipe = op
            path = self._node_target(tgt)
            key, name, ver, cls = pool_class(pi)
            if tree.lookup(path) is None or name in m.meta.get(path, {}):
                return
            try:
                old = [self._node(t.mc, path).meta for t in self.targets]
            except Exception:  # noqa: BLE001
                return
            self.step(["attach", path, pi, "class", recipe, False])
            if name not in self.model.meta.get(path, {}):
                return  # (the object was not valid)

            def fm(model):
                raise OpFails("duplicate")

            self.run_all(lambda ti, t: old[ti].__setitem__(cls, G.realize(recipe)), fm, "attach:stale-handle", dict(path=path, schema=name))
            if self.after_step:
                self.after_step(self, ["attach"])
            self.step(["detach", path, 0, False]) if sorted(self.model.meta.get(path, {}))[0] == name else None
            if name not in self.model.meta.get(path, {}):
                for ti, t in enumerate(self.targets):
                    try:
                        still = name in list(old[ti].keys())  # (explicitly attached objects only)
                    except Exception:  # noqa: BLE001
                        still = False
                    if still:
                        raise Violation(f"{self.sig}:deleted-object-still-returned:stale-handle", f"step {self.pos}: {name} at {path} on "
                                        f"{t.driver}: a handle taken before still reports the object after it was deleted", "gone")
            self.classes.add("stale_meta_handle")
            return
        elif kind == "move_root":
            # the root cannot be moved (refused by a plain tree, without effect)
            groups = tree.paths("g")
            recv = groups[op[1] % len(groups)]
            dst_abs = "/" + op[2]
            if tree.lookup(dst_abs) is not None or any(s_.startswith(PREF) for s_ in split(dst_abs)):
                return

            def fm(model):
                raise OpFails("the root cannot be moved")

            self.run_all(lambda ti, t: self._node(t.mc, recv).move("/", dst_abs), fm, "move:root", dict(recv=recv, dst=dst_abs))
            self.classes.add("move_root_refused")
        elif kind == "flush":
            self.run_all(lambda ti, t: t.mc.flush(), lambda model: None, "flush", {})
            self.classes.add("flush")
        elif kind == "copy_root":
            # the whole container copied into a new group of itself (snapshot of the user tree and its metadata)
            dst_abs = "/" + op[1]
            without_meta = op[2]
            if tree.lookup(dst_abs) is not None or any(s_.startswith(PREF) for s_ in split(dst_abs)):
                return

            def fm(model):
                snap = model.tree.root.clone()
                model.tree._parent_for_create(dst_abs)
                model.tree._create(dst_abs, snap)
                if not without_meta:
                    for p_ in list(model.meta):
                        if p_ != dst_abs and not p_.startswith(dst_abs + "/"):
                            model.meta[dst_abs + (p_ if p_ != "/" else "")] = {k: dict(v) for k, v in model.meta[p_].items()}

            kw = {"without_meta": True} if without_meta else {}
            if self.run_all(lambda ti, t: t.mc.copy("/", dst_abs, **kw), fm, "copy:root", dict(dst=dst_abs, without_meta=without_meta)):
                self.classes.add("copy_root")
        elif kind == "set_node":
            # a node object (or a datatype) as value: would be a hard link / a named type, which the container cannot
            # keep track of - refused by the IH5 driver, so refused everywhere, without effect
            nodes_ = self._nodes()
            if not nodes_:
                return
            src = nodes_[op[1] % len(nodes_)]
            dst_abs = "/" + op[2]
            if tree.lookup(dst_abs) is not None or any(s_.startswith(PREF) for s_ in split(dst_abs)):
                return

            src_m = tree.lookup(src)
            if op[3] == "data" and (src_m is None or src_m.kind != "d"):
                return  # (a group as data= has no sensible meaning: h5py stores the list of its keys)

            def fm(model):
                if op[3] == "data" and src_m is not None and src_m.kind == "d":
                    # a dataset node as source of the values (h5py idiom): a new dataset with the same value, no link
                    model.tree.set(dst_abs, copy.deepcopy(src_m.value))
                    return
                raise OpFails("links and named types are not supported")

            def fr(ti, t):
                import numpy as np
                if op[3] == "data":
                    t.mc.create_dataset(dst_abs, data=t.mc[src])
                    return
                v = t.mc[src] if op[3] == "node" else (t.mc.__wrapped__[src] if op[3] == "raw" else np.dtype("int32"))
                t.mc[dst_abs] = v

            self.run_all(fr, fm, f"set:{op[3]}-value", dict(src=src, dst=dst_abs))
            self.classes.add("node_value_refused")
        elif kind == "del_root":
            # deleting the root group is refused on a plain tree (and must not cost anything here either)
            groups = tree.paths("g")
            recv = groups[op[1] % len(groups)]

            def fm(model):
                raise OpFails("the root cannot be deleted")

            self.run_all(lambda ti, t: self._node(t.mc, recv).__delitem__("/"), fm, "del:root", dict(recv=recv))
            self.classes.add("delete_root_refused")
        elif kind == "detach_all":
            # same session, no reopen: remove every metadata object, one by one (the TOC must end up empty and clean)
            for path in sorted(self.model.meta):
                for name in sorted(self.model.meta.get(path, {})):
                    def fm(model, path=path, name=name):
                        del model.meta[path][name]
                        if not model.meta[path]:
                            del model.meta[path]

                    self.run_all(lambda ti, t, path=path, name=name: self._node(t.mc, path).meta.__delitem__(name), fm, "detach",
                                 dict(path=path, schema=name, detach_all=True))
                    if self.after_step:
                        self.after_step(self, ["detach"])
            self.classes.add("all_metadata_removed")
            self.classes.add("last_object_of_schema_removed")
        elif kind == "visit_detach":
            # the walk over all nodes as the place where metadata is removed (callback of visititems)
            if not any(p != "/" for p in self.model.meta):
                return

            def cb(name, node):
                for key in list(node.meta.keys()):
                    del node.meta[key]

            def fm(model):
                for path in [p for p in model.meta if p != "/"]:
                    del model.meta[path]

            self.run_all(lambda ti, t: t.mc.visititems(cb), fm, "visit_detach", "/")
            self.classes.add("metadata_removed_inside_visititems")
        elif kind == "nopatch":
            # IH5 drivers only: between commit_patch() and create_patch() nothing is writable; a mutating call in
            # that window is refused, the caller carries on with a new patch (failed operation, state unchanged)
            _, tgt, pi, recipe, sub = op
            path = self._node_target(tgt, prefer_meta=(sub == "detach"))
            key, name, ver, cls = pool_class(pi)
            if sub == "attach" and name in m.meta.get(path, {}):
                free = [q for q in range(len(POOL)) if pool_class(q)[1] not in m.meta.get(path, {})]
                if free:
                    key, name, ver, cls = pool_class(free[0])
            present = sorted(m.meta.get(path, {}))
            for t in self.targets:
                if t.driver == "h5":
                    continue
                t.raw.commit_patch()
                err = None
                try:
                    try:
                        node = self._node(t.mc, path)
                        if sub == "attach":
                            node.meta[cls] = G.realize(recipe)
                        elif sub == "detach":
                            del node.meta[present[0] if present else name]
                        elif sub == "set":
                            t.mc["n1"] = 1
                        else:
                            node.attrs["k"] = 1
                    except Exception as e:  # noqa: BLE001
                        err = e
                finally:
                    t.raw.create_patch()
                if err is None:
                    raise Violation(f"{self.sig}:op-succeeds:without-open-patch:{sub}",
                                    f"step {self.pos}: {sub} at {path} on {t.driver} between commit_patch and create_patch succeeded",
                                    "refused (nothing is writable)")
                self.classes.add("refused_without_open_patch")
            self.steps.append((kind, False))
        elif kind == "move_into_self":
            p = self._annotated_or_ancestor(op[1]) if isinstance(op[1], int) else self._node_target(op[1])
            node = self.model.tree.lookup(p) if p else None
            if not p or p == "/" or node is None or node.kind != "g":
                return
            dst = p + "/" + op[2]

            def fail(model):
                raise OpFails("into own subtree")

            self.run_all(lambda ti, t: t.mc.move(p, dst), fail, "move_into_self", p)
            for t in self.targets:
                try:
                    still = p in t.mc and sorted(t.mc[p].keys()) == sorted(node.children)
                except Exception:  # noqa: BLE001
                    still = False
                if not still:
                    raise Violation(f"{self.sig}:refused-move-destroyed-subtree", f"step {self.pos}: move({p!r}, {dst!r}) on {t.driver} was refused, "
                                    f"but {p} (children {sorted(node.children)}) is gone or changed", "refused without effect")
            self.classes.add("move_into_own_subtree_refused")
        elif kind == "selfmove":
            p = self._node_target(op[1])
            if p == "/":
                return
            self.run_all(lambda ti, t: t.mc.move(p, p), lambda model: (_ for _ in ()).throw(OpFails()) if model.tree.lookup(p) is None else None,
                         "selfmove", p)
            self.classes.add("selfmove")
        elif kind == "attach":
            _, tgt, pi, how, recipe, held = op
            path = self._node_target(tgt)
            key, name, ver, cls = pool_class(pi)
            realv = real_version(cls)

            def fm(model):
                if model.tree.lookup(path) is None:
                    raise OpFails("no node")
                if name in model.meta.get(path, {}):
                    raise OpFails("duplicate")
                try:
                    obj = cls.parse_obj(G.realize(recipe))
                except (ValidationError, ValueError, TypeError):
                    raise OpFails("invalid")
                model.meta.setdefault(path, {})[name] = dict(ref=(name, realv), json=obj.json_dict(), parents=class_parents(cls))

            handles = []

            def fr(ti, t):
                h = self._meta_handle(ti, t.mc, path, held)
                handles.append(h)
                if how == "name":  # by bare name (newest installed version) or by (name, version)
                    h[name if ver is None else (name, ver)] = G.realize(recipe)
                elif how == "class":
                    h[cls] = G.realize(recipe)
                else:  # a ready-made instance
                    h[cls] = cls.parse_obj(G.realize(recipe))

            ok = self.run_all(fr, fm, "attach", dict(path=path, schema=name, version=ver, how=how))
            if ok:
                self.classes.add("attach")
            if len(handles) == len(self.targets):
                held_next = (path, handles)
        elif kind == "attach_bad":
            _, tgt, why, pi = op
            path = self._node_target(tgt)
            key, name, ver, cls = pool_class(pi)

            def fr(ti, t):
                h = self._node(t.mc, path).meta
                if why == "aux":
                    h["verif.aux"] = {"x": 1}
                elif why == "unknown":
                    h["verif.nope"] = {"x": 1}
                elif why == "unknownv":
                    h[("verif.base", (3, 0, 0))] = {"label": "x"}
                elif why == "invalid_obj":
                    h[cls] = {"definitely": "not valid", "title": 5, "label": 5, "name": [], "count": "x"}
                else:
                    h[cls] = {}

            def fm(model):
                if why == "missing_required" and all(not f.required for n_, f in cls.__fields__.items() if n_ not in cls.__constants__):
                    # schema without required fields: {} is a valid object
                    if model.tree.lookup(path) is None or name in model.meta.get(path, {}):
                        raise OpFails()
                    try:
                        js = cls().json_dict()
                    except (ValidationError, ValueError, TypeError):
                        raise OpFails("validators refuse the empty object")
                    model.meta.setdefault(path, {})[name] = dict(ref=(name, real_version(cls)), json=js, parents=class_parents(cls))
                    return
                raise OpFails("refused")

            self.run_all(fr, fm, f"attach_bad:{why}", dict(path=path, schema=name))
            self.classes.add("attach_refused")
        elif kind == "detach":
            _, tgt, si, held = op
            path = self._node_target(tgt, prefer_meta=True)
            present = sorted(m.meta.get(path, {}))
            name = present[si % len(present)] if present and si % 5 != 4 else POOL[si % len(POOL)][1]

            def fm(model):
                if model.tree.lookup(path) is None or name not in model.meta.get(path, {}):
                    raise OpFails("absent")
                ref = model.meta[path][name]["ref"]
                del model.meta[path][name]
                if not model.meta[path]:
                    del model.meta[path]
                if tuple(ref) not in model.used_schemas():
                    self.classes.add("last_object_of_schema_removed")

            handles = []

            def fr(ti, t):
                h = self._meta_handle(ti, t.mc, path, held)
                handles.append(h)
                del h[name]

            if self.run_all(fr, fm, "detach", dict(path=path, schema=name)):
                self.classes.add("detach")
            if len(handles) == len(self.targets):
                held_next = (path, handles)
        elif kind == "purge_parent":
            # remove every object of a used schema that still has a used DESCENDANT schema (same session, no reopen):
            # lookups and queries by the parent schema must keep finding the descendants' objects
            used = {}
            for d in m.meta.values():
                for n, v in d.items():
                    used[n] = v["parents"]
            cands = sorted(n for n in used if any(n != o and any(p[0] == n for p in pp) for o, pp in used.items()))
            if not cands:
                # set the situation up: a parent-schema object and an object of a descendant schema
                nodes_ = ["/"] + self._nodes()
                self.step(["attach", nodes_[op[1] % len(nodes_)], 1, "name", {"title": "parent obj"}, False])  # verif.base 1.1.0
                self.step(["attach", nodes_[(op[1] // 2) % len(nodes_)], 5 if op[1] % 2 else 4, "name",
                           {"title": "child obj", "count": 3}, False])  # verif.leaf / verif.mid
                m = self.model
                used = {}
                for d in m.meta.values():
                    for n, v in d.items():
                        used[n] = v["parents"]
                cands = sorted(n for n in used if any(n != o and any(p[0] == n for p in pp) for o, pp in used.items()))
                if not cands:
                    return
            name = cands[op[1] % len(cands)]
            for path in sorted(p for p, d in self.model.meta.items() if name in d):
                def fm(model, path=path):
                    del model.meta[path][name]
                    if not model.meta[path]:
                        del model.meta[path]

                self.run_all(lambda ti, t, path=path: self._node(t.mc, path).meta.__delitem__(name), fm, "detach",
                             dict(path=path, schema=name, purge_parent=True))
                if self.after_step:
                    self.after_step(self, ["detach"])
            self.classes.add("parent_schema_purged_child_kept")
        elif kind == "purge":
            # reopen, then remove every object of one used schema (prefers the alphabetically last one): the
            # freshly rebuilt index has to do the clean-up of schema and package records
            used = sorted({n for d in m.meta.values() for n in d})
            if not used:
                return
            name = used[-1] if op[1] % 3 else used[op[1] % len(used)]
            if self.before_step:
                self.before_step(self, ["reopen"])
            for t in self.targets:
                t.reopen()
            self.classes.add("reopen")
            self.steps.append(("reopen", True))
            if self.after_step:
                self.after_step(self, ["reopen"])
            for path in sorted(p for p, d in self.model.meta.items() if name in d):
                def fm(model, path=path):
                    del model.meta[path][name]
                    if not model.meta[path]:
                        del model.meta[path]

                self.run_all(lambda ti, t, path=path: self._node(t.mc, path).meta.__delitem__(name), fm, "detach",
                             dict(path=path, schema=name, purge=True))
                if self.after_step:
                    self.after_step(self, ["detach"])
            self.classes.add("purge_after_reopen")
        else:
            raise HarnessError(f"unknown container op {op}")
        self.held = held_next
        if self.after_step:
            self.after_step(self, op)
        self.pos += 1

    def feed(self, history):
        for op in history:
            self.step(op)
        return self

    def destroy(self):
        for t in self.targets:
            t.destroy()
        H.close_leaked_h5()
