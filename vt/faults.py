"""Fault injection helpers: fork-and-die at the n-th event, torn header synthesis, SIGKILL runs."""
import builtins
import json
import os
import sys
import traceback

import h5py

from . import compat  # noqa: F401

from metador_core.ih5 import manifest as mf_mod  # noqa: E402
from metador_core.ih5 import overlay as ov_mod  # noqa: E402
from metador_core.ih5 import record as rec_mod  # noqa: E402


class _FileProxy:
    def __init__(self, f, ev, tag):
        self._f, self._ev, self._tag = f, ev, tag

    def write(self, data):
        self._ev(f"{self._tag}.write")
        return self._f.write(data)

    def flush(self):
        self._ev(f"{self._tag}.flush")
        return self._f.flush()

    def close(self):
        self._ev(f"{self._tag}.close")
        return self._f.close()

    def __enter__(self):
        return self

    def __exit__(self, *a):
        self.close()

    def __getattr__(self, k):
        return getattr(self._f, k)


def install_event_hooks(crash_at, log):
    """In a forked child: count I/O and API events, die (os._exit, no flush, no atexit) at the crash_at-th.

    An event fires BEFORE the hooked call runs; dying there leaves exactly what earlier calls put on disk."""
    n = [0]

    def ev(name):
        n[0] += 1
        if log is not None:
            log.append(name)
        if crash_at is not None and n[0] == crash_at:
            os._exit(137)

    def wrap(obj, attr, tag, exit_event=False):
        orig = getattr(obj, attr)

        def w(*a, **kw):
            ev(tag)
            r = orig(*a, **kw)
            if exit_event:
                ev(tag + ":done")
            return r

        setattr(obj, attr, w)

    for meth in ("__init__", "close", "flush"):
        wrap(h5py.File, meth, f"h5py.File.{meth}")
    for meth in ("create_dataset", "create_group", "__delitem__"):
        wrap(ov_mod.IH5Group, meth, f"IH5Group.{meth}")
    for meth in ("__setitem__", "__delitem__"):
        wrap(ov_mod.IH5AttributeManager, meth, f"attrs.{meth}")
    for meth in ("create_patch", "commit_patch", "discard_patch"):
        wrap(rec_mod.IH5Record, meth, f"IH5Record.{meth}", exit_event=True)
    wrap(mf_mod.IH5MFRecord, "commit_patch", "IH5MFRecord.commit_patch", exit_event=True)
    wrap(rec_mod.IH5UserBlock, "save", "IH5UserBlock.save", exit_event=True)
    wrap(mf_mod.IH5Manifest, "save", "IH5Manifest.save", exit_event=True)
    wrap(rec_mod, "hashsum_file", "hashsum_file")
    from pathlib import Path

    wrap(Path, "unlink", "Path.unlink")

    def mk_open(tag):
        def my_open(file, mode="r", *a, **kw):
            ev(f"{tag}.open({mode})")
            f = builtins.open(file, mode, *a, **kw)
            if any(c in mode for c in "wa+"):
                return _FileProxy(f, ev, tag)
            return f

        return my_open

    rec_mod.open = mk_open("record.file")
    mf_mod.open = mk_open("manifest.file")
    return n


def run_forked(fn, crash_at=None, want_log=False, result_path=None):
    """Fork; in the child install the hooks and run fn(); child exits 0 (done), 137 (crashed at the point),
    3 (fn raised). With want_log the child writes {'n': total events, 'log': names} to result_path."""
    sys.stdout.flush()
    sys.stderr.flush()
    pid = os.fork()
    if pid == 0:
        code = 0
        try:
            log = [] if want_log else None
            n = install_event_hooks(crash_at, log)
            fn()
            if result_path:
                with builtins.open(result_path, "w") as f:
                    json.dump(dict(n=n[0], log=log), f)
        except BaseException:  # noqa: BLE001
            code = 3
            try:
                with builtins.open((result_path or "/dev/null") + ".err", "w") as f:
                    f.write(traceback.format_exc())
            except Exception:  # noqa: BLE001
                pass
        finally:
            os._exit(code)
    _, status = os.waitpid(pid, 0)
    return os.WEXITSTATUS(status) if os.WIFEXITED(status) else -os.WTERMSIG(status)


def torn_headers(old_header: bytes, new_file: bytes, ub_size=1024):
    """Yield (L, bytes) for every prefix length L of the new header over the old one (payload = post-commit)."""
    end = new_file[:ub_size].find(b"\x00")
    end = ub_size - 1 if end < 0 else end
    for L in range(0, end + 2):
        yield L, new_file[:L] + old_header[L:ub_size] + new_file[ub_size:]
