"""Environment preparation. MUST be imported before metador_core.

* numpy aliases: pint 0.21 / bokeh 2.4 reference names numpy 2 removed; the
  aliases are installed in this process only (nothing in /repo or /venv changes).
* sys.path: the working tree's src dir (or VT_SRC for mutant self-tests) first,
  and the harness schema distribution (/verif/fakepkg) so that its entry points
  are discovered by importlib_metadata like an installed package.
"""
import os
import sys
import warnings

warnings.filterwarnings("ignore")

VERIF = os.path.dirname(os.path.dirname(os.path.abspath(__file__)))
REPO = os.environ.get("VT_REPO", "/repo")
SRC = os.environ.get("VT_SRC") or os.path.join(REPO, "src")
FAKEPKG = os.path.join(VERIF, "fakepkg")
OUT = os.environ.get("VT_OUT") or VERIF  # evidence/ and new replays/ go here (mutant runs redirect it)

for p in (FAKEPKG, SRC):
    if p in sys.path:
        sys.path.remove(p)
    sys.path.insert(0, p)

import numpy as np  # noqa: E402

_ALIASES = dict(
    cumproduct="cumprod", product="prod", sometrue="any", alltrue="all",
    in1d="isin", row_stack="vstack", trapz="trapezoid", bool8="bool_",
)
for old, new in _ALIASES.items():
    if not hasattr(np, old) and hasattr(np, new):
        setattr(np, old, getattr(np, new))

os.environ.setdefault("METADOR_CORE_VERIF", "1")

ASSUMPTIONS = [
    "numpy aliases for names removed in numpy 2 (cumproduct, product, sometrue, alltrue, in1d, "
    "row_stack, trapz, bool8) installed in the harness process so that pint/bokeh import",
    "code under test = %s (working tree, imported not installed)" % SRC,
]


def scratch_root():
    for cand in ("/dev/shm", os.environ.get("TMPDIR") or "/tmp"):
        if os.path.isdir(cand) and os.access(cand, os.W_OK):
            return cand
    return "/tmp"
