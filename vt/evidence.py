"""Per-shard recorder and evidence writer."""
import collections
import hashlib
import json
import os
import time

from . import compat


def jhash(obj) -> str:
    return hashlib.sha1(json.dumps(obj, sort_keys=True, default=repr).encode()).hexdigest()[:16]


class Violation(Exception):
    """Raised by an oracle: the real code contradicts the property on a concrete case."""

    def __init__(self, signature, observed="", expected="", extra=None):
        super().__init__(f"{signature}: observed={observed!r} expected={expected!r}")
        self.signature = signature
        self.observed = observed
        self.expected = expected
        self.extra = extra or {}


class HarnessError(Exception):
    """Something is wrong with the harness itself (exit 2, never VIOLATION)."""


class Rec:
    """Counters of one shard; merged by the parent."""

    MAX_SAMPLES = 4

    def __init__(self, name=""):
        self.name = name
        self.evaluations = 0
        self.nontrivial = set()
        self.classes = collections.Counter()
        self.samples = []
        self.failures = []
        self.excluded = collections.Counter()
        self.notes = []
        self.exhaustive = {}
        self.t0 = time.time()

    def case(self, nt_key=None, classes=(), sample=None, n=1):
        """Count one executed case. nt_key: hashable/JSON-able identity if the case is non-trivial."""
        self.evaluations += n
        if nt_key is not None:
            self.nontrivial.add(nt_key if isinstance(nt_key, str) and len(nt_key) <= 16 else jhash(nt_key))
        for c in classes:
            self.classes[c] += 1
        if sample is not None and len(self.samples) < self.MAX_SAMPLES:
            self.samples.append(sample)

    def cls(self, *classes, n=1):
        for c in classes:
            self.classes[c] += n

    def fail(self, signature, case, observed="", expected="", kind="case"):
        self.failures.append(
            dict(signature=signature, case=case, observed=_short(observed), expected=_short(expected), kind=kind)
        )

    def export(self):
        return dict(
            name=self.name, evaluations=self.evaluations, nontrivial=sorted(self.nontrivial),
            classes=dict(self.classes), samples=self.samples, failures=self.failures,
            excluded=dict(self.excluded), notes=self.notes, exhaustive=self.exhaustive,
            wall_s=round(time.time() - self.t0, 2),
        )


def _short(x, n=2000):
    s = x if isinstance(x, str) else repr(x)
    return s if len(s) <= n else s[:n] + "…"


def merge(exports):
    out = dict(evaluations=0, nontrivial=set(), classes=collections.Counter(), samples=[], failures=[],
               excluded=collections.Counter(), notes=[], exhaustive={}, shards=[])
    for e in exports:
        out["evaluations"] += e["evaluations"]
        out["nontrivial"].update(e["nontrivial"])
        out["classes"].update(e["classes"])
        out["excluded"].update(e["excluded"])
        out["failures"].extend(e["failures"])
        out["notes"].extend(e["notes"])
        out["exhaustive"].update(e["exhaustive"])
        out["shards"].append(dict(name=e["name"], evaluations=e["evaluations"], wall_s=e["wall_s"]))
        for s in e["samples"][:2]:
            if len(out["samples"]) < 10:
                out["samples"].append(s)
    return out


def write(mod, tier, seed, merged, wall_s, n_violations, known_hits, extra_assumptions=()):
    exh = merged["exhaustive"]
    cov = dict(
        evaluations=merged["evaluations"],
        distinct_nontrivial=len(merged["nontrivial"]),
        rule=mod.RULE,
        samples=merged["samples"],
        classes=dict(sorted(merged["classes"].items())),
        excluded=dict(merged["excluded"]),
        exhaustive=bool(exh) and all(exh.values()),
        exhaustive_subdomains=exh,
        shards=merged["shards"],
        known_findings_hit=known_hits,
        notes=merged["notes"][:20],
    )
    ev = dict(
        property_id=mod.ID, tier=tier, seed=int(seed), level=mod.LEVEL, coverage=cov,
        assumptions=list(compat.ASSUMPTIONS) + list(getattr(mod, "ASSUMPTIONS", [])) + list(extra_assumptions),
        wall_s=round(wall_s, 2), violations=n_violations,
    )
    path = os.path.join(compat.OUT, "evidence", f"{mod.ID}.json")
    os.makedirs(os.path.dirname(path), exist_ok=True)
    tmp = path + ".tmp"
    with open(tmp, "w") as f:
        json.dump(ev, f, indent=1, default=repr, sort_keys=False)
    os.replace(tmp, path)
    return path
