"""Schema class and instance generation (C07, C12, C13, C14, C20).

* type descriptions (JSON) -> type hints -> generated MetadataSchema classes (real SchemaMetaclass)
* hint-directed, constructive strategies for *recipes*: JSON-able inputs accepted by `S.parse_obj`
  (a few markers are realised into Python objects: Duration / PintUnit / PintQuantity instances)
"""
import datetime
import enum
import json
import sys
import types
import typing
from typing import Any, Dict, ForwardRef, List, Literal, Optional, Set, Tuple, Union

from hypothesis import strategies as st
from pydantic import AnyHttpUrl, BaseModel, Extra, Field, NonNegativeInt, PositiveFloat, PositiveInt
from pydantic.types import ConstrainedFloat, ConstrainedInt
from typing_extensions import Annotated

from . import compat  # noqa: F401
from .evidence import HarnessError

from metador_core.schema import MetadataSchema  # noqa: E402
from metador_core.schema import types as T  # noqa: E402
from metador_core.schema.core import SchemaMetaclass, check_types  # noqa: E402
from metador_core.schema.decorators import add_const_fields  # noqa: E402
from metador_core.schema.plugins import PluginRef  # noqa: E402
from metador_core.util import typing as mt  # noqa: E402

try:
    from phantom.re import FullMatch
except Exception:  # noqa: BLE001
    FullMatch = ()

GENMOD = types.ModuleType("vt_generated")
sys.modules["vt_generated"] = GENMOD

# ---------------------------------------------------------------- value pools

TRICKY_STR = ["x", "hello world", "true", "null", "~", "1.0", "007", "a: b", "- x", "#c", "multi\nline", "tab\tin",
              "äöü€", "𝔘𝔫𝔦", "'", '"', "{}", "[1]", "yes", "2001-01-01", "0x1F", "1e3", "back\\slash", "%", "@id",
              "a" * 70, "colon:", "  padded  ", "é", "!tag", "&anchor", "*alias", "|", ">", "? q", "key: [a, b]"]
MIMES = ["text/plain", "application/x-foo;charset=utf-8", "image/png", "a/b;c;d"]
HASHES = ["ab", "0123456789abcdefABCDEF", "f" * 64]
URLS = ["https://example.org", "https://example.org/a/b?c=d&e=f#frag", "http://localhost:8080/x",
        "http://user:pw@host.example/p%20q", "https://xn--bcher-kva.example/", "https://example.org/ü"]
DURATIONS = ["PT3H4M1S", "P1DT2H", "PT0.5S", "PT0S", "P3D", "PT1M", "PT36H", "PT0.001S", "P1W"]
UNITS = ["meter", "kilogram / second ** 2", "candela * meter", "dimensionless", "volt", "1 / second", "millimeter ** 2",
         "degC", "percent"]
MAGS = ["5", "7.12", "1e-3", "0", "-2.5", "1000000", "3.0", "1e21", "0.1"]
DATES = ["2020-01-02", "1999-12-31", "2020-01-02T03:04:05", "2020-01-02T03:04:05.678901", "2020-01-02T03:04:05+00:00",
         "2021-06-30T23:59:59-05:30"]

# prose longer than one output line of the YAML writer, with runs of blanks and line-break-like characters inside
long_text = st.lists(st.sampled_from(["Tensile", "test", "data", "of", "the", "annealed", "steel", "sample,", "batch", "7,", "run", "3.", "",
                                      "See", "notebook", "x" * 40, "a:", "- b", "#c", "ü"]), min_size=10, max_size=40).map(" ".join).filter(
    lambda s: s.strip() == s and s != "")
# characters YAML readers may take for line breaks / blanks
BREAKISH = ["first line\x85second line", "a\xa0b", "x\u2028y", "p\u2029q", "tab\there", "trailing\x85"]
text_values = st.one_of(st.sampled_from(TRICKY_STR), st.sampled_from(TRICKY_STR), long_text, st.sampled_from(BREAKISH),
                        st.text(alphabet=st.characters(min_codepoint=32, max_codepoint=0x2FF, blacklist_characters="\x7f"),
                                min_size=1, max_size=12).filter(lambda s: s.strip() != ""))
floats = st.one_of(st.sampled_from([0.0, -0.0, 1.5, 1e308, 5e-324, 0.1, 1e16, 1e22, 123456789.12345679, -1.0, 3.0, 1 / 3]),
                   st.floats(allow_nan=False, allow_infinity=False, width=64))
ints = st.one_of(st.sampled_from([0, 1, -1, 7, 2 ** 31, 2 ** 63, -2 ** 63 - 1, 10 ** 20]), st.integers(-10 ** 6, 10 ** 6))
json_any = st.recursive(st.one_of(st.booleans(), st.integers(-5, 5), st.sampled_from(["s", "t"]), st.floats(-2, 2).map(lambda x: round(x, 2))),
                        lambda ch: st.one_of(st.lists(ch, max_size=2), st.dictionaries(st.sampled_from(["p", "q"]), ch, max_size=2)),
                        max_leaves=4)


class Unsupported(Exception):
    pass


def realize(recipe):
    """Recipe -> constructor input (markers become Python objects)."""
    if isinstance(recipe, dict):
        if len(recipe) == 1:
            (k, v), = recipe.items()
            if k == "$duration_s":
                return T.Duration(seconds=v)
            if k == "$unit":
                return T.PintUnit(v)
            if k == "$quantity":
                return T.PintQuantity(v)
            if k == "$quantity2":
                return T.PintQuantity(v[0], v[1])
            if k in ("$sivalue", "$qvalue"):
                from metador_core.schema.common import SIValue
                from metador_core.schema.common.schemaorg import QuantitativeValue
                kw = {"value": v[0]}
                if v[1] is not None:
                    kw["unitText"] = v[1]
                return (SIValue if k == "$sivalue" else QuantitativeValue)(**kw)
        return {k: realize(v) for k, v in recipe.items()}
    if isinstance(recipe, list):
        return [realize(x) for x in recipe]
    return recipe


def kinds_in(recipe, acc=None):
    """Set of value-kind tags occurring in a recipe (for classification)."""
    acc = set() if acc is None else acc
    if isinstance(recipe, dict):
        if len(recipe) == 1 and next(iter(recipe)).startswith("$"):
            acc.add(next(iter(recipe)))
        else:
            acc.add("object")
            for k, v in recipe.items():
                if k.startswith("@"):
                    acc.add("alias")
                kinds_in(v, acc)
    elif isinstance(recipe, list):
        acc.add("list")
        for v in recipe:
            kinds_in(v, acc)
    elif isinstance(recipe, str):
        if any(ord(c) > 127 for c in recipe):
            acc.add("non-ascii")
    elif isinstance(recipe, float):
        if len(repr(recipe).replace(".", "").replace("-", "").lstrip("0")) > 15:
            acc.add("long-float")
    return acc


# ---------------------------------------------------------------- hint-directed recipe strategies

def _is_model(h):
    return isinstance(h, type) and issubclass(h, BaseModel)


def recipe_for_hint(hint, depth=0, dates=True, objects=True):
    """Strategy of recipes for values of type `hint` (raises Unsupported)."""
    h = hint
    if mt.is_annotated(h):
        inner, *meta = mt.get_args(h)
        min_items = next((getattr(m, "min_items", None) for m in meta if getattr(m, "min_items", None)), None)
        if min_items and mt.get_origin(inner) in (list, List):
            (a,) = mt.get_args(inner)
            return st.lists(recipe_for_hint(a, depth + 1, dates, objects), min_size=min_items, max_size=min_items + 1)
        return recipe_for_hint(inner, depth, dates, objects)
    if isinstance(h, ForwardRef) or isinstance(h, str):
        raise Unsupported(h)
    origin = mt.get_origin(h)
    if h is Any:
        return json_any
    if mt.is_literal(h):
        return st.sampled_from(list(mt.get_args(h)))
    if mt.is_union(h):
        args = [a for a in mt.get_args(h) if a is not type(None)]
        subs = []
        for a in args:
            try:
                subs.append(recipe_for_hint(a, depth, dates, objects))
            except Unsupported:
                pass
        if not subs:
            raise Unsupported(h)
        return st.one_of(*subs)
    if origin in (list, List):
        (a,) = mt.get_args(h)
        return st.lists(recipe_for_hint(a, depth + 1, dates, objects), max_size=3 if depth < 2 else 1)
    if origin in (set, Set, frozenset):
        (a,) = mt.get_args(h)
        inner = [x for x in mt.traverse_typehint(a) if _is_model(x) and not issubclass(x, PluginRef)]
        if inner:
            return st.just([])  # pydantic models are unhashable: no non-empty value exists
        return st.lists(recipe_for_hint(a, depth + 1, dates, objects), max_size=3,
                        unique_by=lambda r: json.dumps(r, sort_keys=True, default=str))
    if origin in (tuple, Tuple):
        args = mt.get_args(h)
        if len(args) == 2 and args[1] is Ellipsis:
            return st.lists(recipe_for_hint(args[0], depth + 1, dates, objects), max_size=3)
        return st.tuples(*[recipe_for_hint(a, depth + 1, dates, objects) for a in args]).map(list)
    if origin in (dict, Dict):
        return st.dictionaries(st.sampled_from(["k1", "k2", "a b"]), json_any, max_size=2)
    if not isinstance(h, type):
        raise Unsupported(h)
    # ---- classes
    if issubclass(h, enum.Enum):
        return st.sampled_from([m.value for m in h])
    if h is bool or h.__name__ == "StrictBool":
        return st.booleans()
    if issubclass(h, T.Duration):
        if not objects:
            return st.sampled_from(DURATIONS)
        return st.one_of(st.sampled_from(DURATIONS),
                         st.builds(lambda s: {"$duration_s": s}, st.sampled_from([0, 1, 90, 3600, 1.5, 0.001, 86400.25, 1234567])))
    if issubclass(h, T.PintQuantity):
        q = st.builds(lambda m, u: f"{m} {u}", st.sampled_from(MAGS), st.sampled_from(UNITS))
        # quantities in offset / logarithmic units can only be built from (magnitude, unit)
        q2 = st.builds(lambda m, u: {"$quantity2": [m, u]}, st.sampled_from([25.5, 0, -40, 3]), st.sampled_from(["degC", "degF", "kelvin", "meter", "dB"]))
        return q if not objects else st.one_of(q, q.map(lambda s: {"$quantity": s}), q2)
    if issubclass(h, T.PintUnit):
        u = st.sampled_from(UNITS)
        return u if not objects else st.one_of(u, u.map(lambda s: {"$unit": s}))
    if issubclass(h, ConstrainedInt) or issubclass(h, ConstrainedFloat):
        lo = h.ge if h.ge is not None else (h.gt if h.gt is not None else None)
        hi = h.le if h.le is not None else (h.lt if h.lt is not None else None)
        if issubclass(h, ConstrainedInt):
            lo_i = None if lo is None else int(lo) + (1 if h.gt is not None else 0)
            hi_i = None if hi is None else int(hi) - (1 if h.lt is not None else 0)
            if lo_i is None and hi_i is None:
                return ints
            return st.one_of(st.integers(lo_i, hi_i if hi_i is not None else (lo_i or 0) + 10 ** 6),
                             st.just(lo_i) if lo_i is not None else st.just(hi_i))
        if lo is None and hi is None:
            return floats
        base = st.floats(min_value=lo, max_value=hi, allow_nan=False, allow_infinity=False,
                         exclude_min=h.gt is not None and lo is not None, exclude_max=h.lt is not None and hi is not None)
        return st.one_of(base, st.sampled_from([0.5, 1.0, 2.5, 1e-9, 1e12]).filter(
            lambda x: (lo is None or x > lo or (x == lo and h.gt is None)) and (hi is None or x < hi or (x == hi and h.lt is None))))
    if h is int:
        return ints
    if h is float:
        return floats
    if issubclass(h, AnyHttpUrl) or h.__name__ in ("AnyUrl", "HttpUrl"):
        return st.sampled_from(URLS)
    if FullMatch and issubclass(h, FullMatch):
        name = h.__name__
        pool = {"MimeTypeStr": MIMES, "HashsumStr": HASHES, "QualHashsumStr": ["sha256:" + x for x in HASHES] + ["sha512:ab"],
                "SemVerStr": ["0.1.0", "10.20.30"], "EPName": ["core.file__0.1.0"]}.get(name)
        if pool is None and issubclass(h, T.NonEmptyStr):
            pool_s = text_values
        elif pool is None:
            pat = getattr(h, "__pattern__", None)
            if pat is None:
                raise Unsupported(h)
            pool_s = st.from_regex(pat, fullmatch=True)
        else:
            pool_s = st.sampled_from(pool)

        def ok(v, h=h):
            try:
                h.parse(v)
                return True
            except Exception:  # noqa: BLE001
                return False

        return pool_s.filter(ok)
    if h is str or issubclass(h, str):
        return text_values
    if issubclass(h, datetime.datetime) or issubclass(h, datetime.date):
        if not dates or (dates == "date" and issubclass(h, datetime.datetime)):
            raise Unsupported(h)
        pool = [d for d in DATES if ("T" in d) == issubclass(h, datetime.datetime)]
        return st.sampled_from(pool)
    if _is_model(h):
        return model_recipe(h, depth + 1, dates, objects)
    raise Unsupported(h)


NONE_FOR_REQUIRED = [True]  # module switch: occasionally pass None for a required top-level field
SHADOWING = ["json", "yaml", "dict", "copy", "cast", "merge_with", "from_partial", "parse_obj", "Config", "Plugin", "Fields"]
# at most one nested model among the members of a Union: two models whose fields are all optional both accept e.g. {}
# (and partial models accept any object), so such a Union is order-dependent on input like the string-like members
ONE_MODEL_PER_UNION = [True]
EXTRAS = [True]  # module switch: generate undeclared extra fields for Extra.allow models


def model_recipe(cls, depth=0, dates=True, objects=True, required_only=False):
    """Strategy of dict recipes for a pydantic model class (keys by alias; optional fields by omission)."""
    parser = cls.__dict__.get("Parser") or getattr(cls, "Parser", None)
    name = cls.__name__
    if name in ("SIValue",):
        txt = st.builds(lambda m, u: f"{m} {u}", st.sampled_from(MAGS), st.sampled_from(UNITS))
        if not objects:
            return txt
        mu = st.tuples(st.sampled_from([5, 7.5, 0, 1000]), st.sampled_from(["km", "meter", "kg", "volt"]))
        return st.one_of(txt, txt, mu.map(lambda t: {"value": t[0], "unitText": t[1]}), mu.map(lambda t: {"$sivalue": list(t)}),
                         mu.map(lambda t: {"$qvalue": list(t)}))
    if name in ("Pixels",):
        num = st.one_of(st.integers(0, 5000), st.floats(0, 100).map(lambda x: round(x, 2)))
        # (now and then something that is no proper number: refused, or handled like any valid instance)
        return st.one_of(*([num] * 12), st.sampled_from([True, float("inf")])) if objects else num
    if name in ("NumValue",):
        plain = st.one_of(st.integers(0, 5000), st.sampled_from(["5 kg", "3"]))
        if not objects:
            return plain
        return st.one_of(plain, st.sampled_from([{"value": 5}, {"value": 2.5, "unitText": "cm"}, {"$qvalue": [5, None]}, {"$qvalue": [5, "mm"]}]))
    hints = getattr(cls, "_typehints", None) or mt.get_type_hints(cls)
    consts = getattr(cls, "__constants__", {}) or {}
    fields = {}
    for fname, f in cls.__fields__.items():
        if fname in consts:
            continue
        hint = hints.get(fname, f.outer_type_)
        if not f.required and (required_only or depth > 3):
            continue
        try:
            sub = recipe_for_hint(hint, depth, dates, objects)
        except Unsupported:
            if f.required:
                raise
            continue
        key = f.alias
        if f.required:
            if depth == 0 and NONE_FOR_REQUIRED[0]:
                # now and then an explicit None for a mandatory field (refused by most models; whatever IS accepted
                # has to behave like any other valid instance)
                sub = st.one_of(*([sub] * 24), st.none())
            fields[key] = (sub, True)
        elif not required_only and depth <= 3:
            fields[key] = (sub, False)
    req = {k: s for k, (s, r) in fields.items() if r}
    opt = {k: s for k, (s, r) in fields.items() if not r}
    if depth >= 2 and len(opt) > 4:  # keep nested objects small
        keys = sorted(opt)[:4]
        opt = {k: opt[k] for k in keys}
    base = st.fixed_dictionaries(req, optional=opt)
    # hand-written fix-ups for installed schemas with validators (constructive instead of rejecting)
    vnames = set(getattr(cls, "__validators__", {}) or {}) | {getattr(v, "__name__", "") for v in
                                                               list(getattr(cls, "__pre_root_validators__", []) or []) +
                                                               [x[1] for x in (getattr(cls, "__post_root_validators__", []) or [])]}
    if name == "Person" and ("check_name" in vnames or "ensure_name" in vnames or "id_" in vnames):
        def fix_person(d):
            d = dict(d)
            if "@id" in d:
                d["@id"] = "https://orcid.org/0000-0002-1825-0097"
            if (d.get("givenName") or d.get("additionalName")) and not d.get("familyName"):
                d["familyName"] = "Doe"
            if not d.get("name") and not d.get("familyName"):
                d["familyName"] = "Roe"
            return d

        base = base.map(fix_person)
    if name == "Organization" and "id_" in vnames:
        base = base.map(lambda d: dict(d, **({"@id": "https://ror.org/02nv7yv05"} if "@id" in d else {})))
    if EXTRAS[0] and getattr(cls.__config__, "extra", None) is Extra.allow and depth <= 1:
        def odd(d, e):
            if e.get("$both"):  # a field given by its alias and by its name at once (the second one not even valid)
                e = {"id_": e["$both"]} if "@id" in d else {}
            return dict(d, **e)

        return st.builds(odd, base,
                         st.one_of(st.just({}), st.just({}), st.fixed_dictionaries({"xExtra": json_any}),
                                   st.fixed_dictionaries({"_comment": st.sampled_from(["keep me", "", 0])}),
                                   st.just({}), st.just({}), st.fixed_dictionaries({"xExtra": json_any}),
                                   st.one_of(  # (one branch of nine: these are expected to be refused at construction)
                                       # names of methods / attributes of the model classes
                                       st.builds(lambda k, v: {k: v}, st.sampled_from(SHADOWING), st.one_of(json_any, st.just({"a": 1}))),
                                       # values JSON has no notation for
                                       st.sampled_from([{"xExtra": float("nan")}, {"xExtra": [0.5, float("inf")]}, {"xExtra": {"deep": [float("-inf")]}}]),
                                       st.sampled_from([{"$both": 42}, {"$both": ["not", "a", "string"]}, {"$both": "other-id"}]))))
    return base


# ---------------------------------------------------------------- generated classes

LEAF = {
    "Bool": T.Bool, "Int": T.Int, "Float": T.Float, "Str": T.Str, "NonEmptyStr": T.NonEmptyStr, "MimeTypeStr": T.MimeTypeStr,
    "HashsumStr": T.HashsumStr, "QualHashsumStr": T.QualHashsumStr, "SemVerTuple": T.SemVerTuple, "AnyHttpUrl": AnyHttpUrl,
    "NonNegativeInt": NonNegativeInt, "PositiveFloat": PositiveFloat, "Duration": T.Duration, "PintUnit": T.PintUnit,
    "PintQuantity": T.PintQuantity,
}
try:
    from metador_core.schema.common import NumValue as _NumValue, SIValue as _SIValue
    LEAF.update({"SIValue": _SIValue, "NumValue": _NumValue})
except Exception:  # noqa: BLE001
    pass
STRLIKE = {"Str", "NonEmptyStr", "MimeTypeStr", "HashsumStr", "QualHashsumStr", "AnyHttpUrl", "Duration", "PintUnit",
           "PintQuantity", "SIValue", "NumValue"}
HASHABLE_LEAF = ["Bool", "Int", "Str", "NonEmptyStr", "HashsumStr", "NonNegativeInt", "AnyHttpUrl"]
DEFAULTS = {"Bool": True, "Int": 7, "Float": 0.5, "Str": "dflt", "NonEmptyStr": "dflt", "NonNegativeInt": 3}
_enum_cache = {}


def _enum_for(vals):
    key = tuple(vals)
    if key not in _enum_cache:
        _enum_cache[key] = enum.Enum("GenEnum%d" % len(_enum_cache), {f"M{i}": v for i, v in enumerate(vals)}, type=str)
    return _enum_cache[key]


leaf_desc = st.sampled_from(sorted(LEAF))
literal_desc = st.lists(st.sampled_from(["a", "b", "c d", 1, 2, True]), min_size=1, max_size=3, unique_by=repr).map(
    lambda v: {"k": "Literal", "v": v})
enum_desc = st.lists(st.sampled_from(["red", "green", "blue", "x y"]), min_size=1, max_size=3, unique=True).map(
    lambda v: {"k": "Enum", "v": v})


def type_descs(n_models):
    """Strategy of field type descriptions; n_models = number of earlier classes usable as nested models."""
    model = st.integers(0, n_models - 1).map(lambda i: {"k": "Model", "i": i}) if n_models else None
    singular_prim = st.one_of(leaf_desc, leaf_desc, literal_desc, enum_desc)
    singular = st.one_of(singular_prim, singular_prim, *( [model] if model is not None else []))
    def disjoint(members):
        # Members whose serialised forms overlap (two string-like types, e.g. Duration + NonEmptyStr or
        # PintQuantity + PintUnit) make a Union inherently order-dependent on input (pydantic tries members left
        # to right, and typing's generic cache may even reorder them): not a round-trip-able field type.
        out, seen_str = [], False
        if len(members) > 1:
            # SIValue / NumValue take strings, numbers AND objects on input: next to any other member the Union is
            # ambiguous (same reason) -> they only occur on their own
            rest = [m for m in members if not (isinstance(m, str) and m in ("SIValue", "NumValue"))]
            members = rest or members[:1]
        if ONE_MODEL_PER_UNION[0]:
            # (partial models accept any object - all fields optional, extras kept - so for partials a Union of two
            # models always goes to the first member: inherently ambiguous, like the string-like members above)
            first_model = next((m for m in members if isinstance(m, dict) and m["k"] == "Model"), None)
            members = [m for m in members if not (isinstance(m, dict) and m["k"] == "Model") or m is first_model]
        for m in members:
            strlike = (isinstance(m, str) and m in STRLIKE) or (isinstance(m, dict) and m["k"] == "Enum") or \
                (isinstance(m, dict) and m["k"] == "Literal" and any(isinstance(v, str) for v in m["v"]))
            if strlike and seen_str:
                continue
            seen_str = seen_str or strlike
            out.append(m)
        return out[0] if len(out) == 1 else {"k": "Union", "a": out}

    union = st.lists(singular, min_size=2, max_size=3, unique_by=lambda d: json.dumps(d, sort_keys=True)).map(disjoint)
    sing_or_union = st.one_of(singular, singular, singular, union)
    hashable = st.one_of(st.sampled_from(HASHABLE_LEAF), st.sampled_from(HASHABLE_LEAF), literal_desc)
    lst = sing_or_union.map(lambda a: {"k": "List", "a": a})
    sett = hashable.map(lambda a: {"k": "Set", "a": a})
    return st.one_of(sing_or_union, sing_or_union, lst, sett, *([st.just({"k": "Self"})] if True else []))


def class_descs(max_classes=3, max_fields=4, inheritance=True):
    """Strategy of a 'universe': list of class descriptions, later ones may nest / inherit earlier ones."""
    def one(i):
        fld = st.tuples(type_descs(i), st.sampled_from(["req", "req", "opt", "opt", "default", "factory"]))
        return st.fixed_dictionaries(dict(
            fields=st.lists(fld, min_size=1, max_size=max_fields).map(lambda l: [list(x) for x in l]),
            parent=st.one_of(st.none(), st.none(), st.integers(0, i - 1)) if (inheritance and i > 0) else st.none(),
            consts=st.sampled_from([None, None, {"@type": "Thing"}, {"@context": "https://schema.org", "@type": "X", "k": 5}]),
            alias_id=st.booleans(),
            extra=st.sampled_from([None, None, None, "forbid", "ignore"]),
        ))

    return st.integers(1, max_classes).flatmap(lambda n: st.tuples(*[one(i) for i in range(n)]).map(list))


def build_hint(td, classes, self_name):
    if isinstance(td, str):
        return LEAF[td]
    k = td["k"]
    if k == "Literal":
        return Literal[tuple(td["v"])]
    if k == "Enum":
        return _enum_for(td["v"])
    if k == "Union":
        return Union[tuple(build_hint(a, classes, self_name) for a in td["a"])]
    if k == "List":
        return List[build_hint(td["a"], classes, self_name)]
    if k == "Set":
        return Set[build_hint(td["a"], classes, self_name)]
    if k == "Model":
        return classes[td["i"] % len(classes)] if classes else T.Int
    if k == "Self":
        return ForwardRef(self_name)
    raise HarnessError(td)


_built = {}
_counter = [0]


def build_classes(descs):
    """Build (and cache) the classes of a universe. Returns list of classes or raises Unsupported when the
    description is not constructible (e.g. child adds fields to an Extra.forbid parent)."""
    key = json.dumps(descs, sort_keys=True)
    if key in _built:
        r = _built[key]
        if isinstance(r, Exception):
            raise r
        return r
    classes = []
    try:
        for i, d in enumerate(descs):
            _counter[0] += 1
            name = f"G{_counter[0]}"
            parent = classes[d["parent"] % len(classes)] if d.get("parent") is not None and classes else MetadataSchema
            if parent is not MetadataSchema and parent.__config__.extra is Extra.forbid:
                raise Unsupported("child of an Extra.forbid parent cannot add fields")
            ann, ns = {}, {"__module__": "vt_generated", "__qualname__": name}
            for j, (td, mode) in enumerate(d["fields"]):
                fname = f"f{i}_{j}"
                if isinstance(td, dict) and td.get("k") == "Self":
                    ann[fname] = Optional[ForwardRef(name)]
                    continue
                hint = build_hint(td, classes, name)
                if mode == "opt":
                    ann[fname] = Optional[hint]
                elif mode == "default" and isinstance(td, str) and td in DEFAULTS:
                    ann[fname] = hint
                    ns[fname] = DEFAULTS[td]
                elif mode == "default" and isinstance(td, dict) and td["k"] in ("List", "Set"):
                    ann[fname] = hint
                    ns[fname] = [] if td["k"] == "List" else set()
                elif mode == "factory" and isinstance(td, str) and td in DEFAULTS:
                    # default given by a factory inside Annotated (the style of the example schemas)
                    ann[fname] = Annotated[hint, Field(default_factory=lambda v=DEFAULTS[td]: v)]
                elif mode == "factory" and isinstance(td, dict) and td["k"] in ("List", "Set"):
                    ann[fname] = Annotated[hint, Field(default_factory=list if td["k"] == "List" else set)]
                else:
                    ann[fname] = hint
            if d.get("alias_id"):
                ann["id_"] = Annotated[Optional[T.NonEmptyStr], Field(alias="@id")]
            ns["__annotations__"] = ann
            if d.get("extra"):
                ns["Config"] = type("Config", (), {"extra": Extra.forbid if d["extra"] == "forbid" else Extra.ignore})
            cls = SchemaMetaclass(name, (parent,), ns)
            setattr(GENMOD, name, cls)
            cls.update_forward_refs(**{name: cls})
            if d.get("consts"):
                cls = add_const_fields(d["consts"], override=True)(cls)
            classes.append(cls)
        for c in classes:
            check_types(c)
    except Unsupported as e:
        _built[key] = e
        raise
    if len(_built) > 3000:
        _built.clear()
    _built[key] = classes
    return classes


def installed_schemas(include_aux=True):
    from metador_core.plugins import harvesters, packers, schemas, widgets  # noqa: F401 (loads all groups)

    for g in (harvesters, packers, widgets):
        list(g.keys())

    out = []
    for ref in sorted(schemas.keys(), key=lambda r: (r.name, tuple(r.version))):
        cls = schemas.get(ref.name, tuple(ref.version))
        if include_aux or not cls.Plugin.auxiliary:
            out.append((ref.name, tuple(ref.version), cls))
    return out
