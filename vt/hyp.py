"""Hypothesis driver: seeded search, bounded shrinking, collect-then-continue."""
import json
import time

import hypothesis
from hypothesis import HealthCheck, Phase, given, settings

from .evidence import HarnessError, Violation


class _StopShrinking(BaseException):
    pass


def search(strategy, test_fn, rec, *, seed, max_examples, shrink_budget_s=20.0, rounds=4,
           skip_signatures=(), suppress_filter=False):
    """Run test_fn(case) on generated cases.

    test_fn raises Violation on an oracle failure. The (shrunk) failing case is recorded with
    rec.fail and the search continues with that signature excluded (cases that hit it are counted
    in rec.excluded) for up to `rounds` rounds, so one root cause does not hide the next.
    Shrinking is bounded by a budget: once exceeded, only the best case so far keeps failing,
    which makes Hypothesis finish quickly with that case.
    """
    excluded = set(skip_signatures)
    hc = [HealthCheck.too_slow, HealthCheck.data_too_large, HealthCheck.large_base_example]
    if suppress_filter:
        hc.append(HealthCheck.filter_too_much)
    remaining = max_examples
    for rnd in range(rounds):
        if remaining <= 0:
            break
        state = dict(best=None, best_key=None, t_first=None, v=None, n=0)

        def wrapped(case):
            key = None
            if state["t_first"] is not None and time.time() - state["t_first"] > shrink_budget_s:
                # shrink budget used up: abandon the Hypothesis run (a BaseException passes through its engine);
                # the smallest really-failing case recorded so far is reported
                raise _StopShrinking()
            state["n"] += 1
            try:
                test_fn(case)
                return
            except Violation as v:
                if v.signature in excluded:
                    rec.excluded[v.signature] += 1
                    return
                if state["t_first"] is None:
                    state["t_first"] = time.time()
                    state["n_gen"] = state["n"]
                k2 = key or json.dumps(case, sort_keys=True, default=repr)
                if state["best_key"] is None or len(k2) <= len(state["best_key"]):
                    # keep the smallest really-failing case seen (what Hypothesis converges to as well)
                    state["best"], state["best_key"], state["v"] = case, k2, v
                fresh = Violation(v.signature, v.observed, v.expected, v.extra)
            # re-raised from this single site so that Hypothesis sees ONE failure origin (it would
            # otherwise shrink and finally replay one example per raise site, which the shrink budget
            # below turns into a FlakyFailure)
            raise fresh from None

        runner = hypothesis.seed(seed * 7919 + rnd)(
            settings(
                max_examples=remaining, database=None, deadline=None, derandomize=False,
                report_multiple_bugs=False, suppress_health_check=hc, print_blob=False,
                phases=[Phase.generate, Phase.shrink],
            )(given(strategy)(wrapped))
        )
        try:
            runner()
        except (Violation, _StopShrinking, hypothesis.errors.Flaky, hypothesis.errors.FlakyFailure) as e:
            # Flaky can only come from the shrink budget (cases other than the best one stop failing
            # once it is used up); the recorded best case failed for real, so it is reported as is.
            if state["v"] is None:
                raise HarnessError(f"flaky test without recorded failure: {e}")
            v = state["v"]
            rec.fail(v.signature, state["best"], v.observed, v.expected)
            excluded.add(v.signature)
            remaining -= state.get("n_gen", state["n"])
            continue
        except hypothesis.errors.Unsatisfiable as e:
            raise HarnessError(f"generator unsatisfiable: {e}")
        except hypothesis.errors.FailedHealthCheck as e:
            raise HarnessError(f"health check: {e}")
        break
