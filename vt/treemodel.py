"""Reference HDF5-like tree (written from PATCH_THEORY.md and the h5py group contract) and
canonical dumps of real records / files.

The model knows nothing about containers, markers or patches. It is validated against a
plain in-memory h5py.File by `selfcheck` (history.py).
"""
import copy
import json

import h5py
import numpy as np


class OpFails(Exception):
    """The reference tree refuses the operation (no effect)."""


# ---------------------------------------------------------------- values

def realize(spec):
    """JSON value spec -> Python/numpy object handed to the API under test."""
    t = spec["t"]
    if t == "int":
        return int(spec["v"])
    if t == "float":
        return float(spec["v"])
    if t == "str":
        return spec["v"]
    if t == "bytes":
        return bytes.fromhex(spec["v"])
    if t == "void":
        return np.void(bytes.fromhex(spec["v"]))
    if t == "void0":  # the same opaque scalar, handed over as a 0-d array (h5py stores both identically)
        return np.asarray(np.void(bytes.fromhex(spec["v"])))
    if t == "cmp0":  # compound scalar with one u1 field
        return np.array((int(spec["v"], 16),), dtype=[("level", "u1")])[()]
    if t == "arr":
        return np.array(spec["v"], dtype=spec["dt"])
    if t == "empty":
        return h5py.Empty(spec.get("dt", "f4"))
    if t == "bool":
        return bool(spec["v"])
    if t == "dt64":  # a scalar datetime stored the way h5py documents it (opaque dtype)
        return np.array(spec["v"], dtype="M8[s]").astype(h5py.opaque_dtype(np.dtype("M8[s]")))
    if t == "enum0":  # scalar of an enumerated type
        return np.array(spec["v"], dtype=h5py.enum_dtype({"RED": 0, "GREEN": 1, "BLUE": 42}, basetype="i1"))
    if t == "strarr":  # array of variable-length (byte) strings, not necessarily valid UTF-8
        return np.array([bytes.fromhex(x) for x in spec["v"]], dtype=h5py.string_dtype())
    if t == "bad":  # values h5py refuses (the assignment must fail and change nothing)
        return {"object": object(), "nulbytes": b"a\x00b", "ragged": [[1, 2], [3]], "dict": {"a": 1}}[spec["v"]]
    if t == "bigattr":  # too large for an attribute (HDF5 refuses it after h5py has removed the old value)
        return np.zeros(100000)
    raise ValueError(spec)


def canon(v):
    """Canonical, JSON-able form of a value read back through `ds[()]` / `attrs[k]`."""
    if isinstance(v, h5py.Empty):
        return ["empty", np.dtype(v.dtype).str]
    if isinstance(v, np.ndarray):
        if v.dtype.kind == "O":
            return ["arr-o", list(v.shape), [canon(x) for x in v.ravel().tolist()]]
        return ["arr", v.dtype.str, list(v.shape), v.tobytes().hex()]
    if isinstance(v, np.void):
        return ["void", v.tobytes().hex()]
    if isinstance(v, (bytes, np.bytes_)):
        return ["bytes", bytes(v).hex()]
    if isinstance(v, str):
        return ["str", str(v)]
    if isinstance(v, np.generic):
        return ["num", v.dtype.str, v.tobytes().hex()]
    if isinstance(v, bool):
        return ["pybool", v]
    if isinstance(v, int):
        return ["pyint", v]
    if isinstance(v, float):
        return ["pyfloat", repr(v)]
    return ["other", type(v).__name__, repr(v)]


_scratch = None
_canon_cache = {}


def _scratch_file():
    global _scratch
    if _scratch is None or not _scratch:
        _scratch = h5py.File("vt-scratch-canon", "w", driver="core", backing_store=False)
    return _scratch


def expected_canon(spec, as_attr):
    """What plain h5py gives back after storing this value (so storage conversions are h5py's)."""
    key = (json.dumps(spec, sort_keys=True), as_attr)
    if key not in _canon_cache:
        f = _scratch_file()
        val = realize(spec)
        try:
            if as_attr:
                f.attrs["x"] = val
                _canon_cache[key] = canon(f.attrs["x"])
            else:
                f["x"] = val
                _canon_cache[key] = canon(f["x"][()])
        except Exception as e:  # noqa: BLE001 - plain h5py refuses to store this value at all
            _canon_cache[key] = OpFails(f"h5py rejects value: {type(e).__name__}: {e}")
        finally:
            if "x" in f.attrs:
                del f.attrs["x"]
            if "x" in f:
                del f["x"]
    r = _canon_cache[key]
    if isinstance(r, OpFails):
        raise r
    return r


# ---------------------------------------------------------------- model

class MNode:
    __slots__ = ("kind", "attrs", "children", "value")

    def __init__(self, kind, value=None):
        self.kind = kind  # "g" | "d"
        self.attrs = {}  # key -> canonical value
        self.children = {} if kind == "g" else None
        self.value = value  # canonical value for datasets

    def clone(self, with_attrs=True):
        n = MNode(self.kind, self.value)
        if with_attrs:
            n.attrs = dict(self.attrs)
        if self.kind == "g":
            n.children = {k: c.clone(with_attrs) for k, c in self.children.items()}
        return n


def split(path):
    return [s for s in path.split("/") if s]


def join(base, rel):
    """Absolute path of `rel` as seen from group at absolute path `base`."""
    if rel.startswith("/"):
        return "/" + "/".join(split(rel))
    segs = split(base) + split(rel)
    return "/" + "/".join(segs)


class Tree:
    def __init__(self):
        self.root = MNode("g")
        self.dead = []  # paths deleted or moved away so far (generator bookkeeping, not part of the state)

    def clone(self):
        t = Tree()
        t.root = self.root.clone()
        t.dead = list(self.dead)
        return t

    # -- lookup
    def lookup(self, path):
        node = self.root
        for s in split(path):
            if node.kind != "g" or s not in node.children:
                return None
            node = node.children[s]
        return node

    def _parent_for_create(self, path):
        """Return (parent node, last segment), creating nothing; raise if a prefix is a dataset."""
        segs = split(path)
        if not segs:
            raise OpFails("root")
        node = self.root
        missing = []
        for s in segs[:-1]:
            if missing:
                missing.append(s)
                continue
            if node.kind != "g":
                raise OpFails("prefix is a dataset")
            if s in node.children:
                node = node.children[s]
            else:
                missing.append(s)
        if not missing and node.kind != "g":
            raise OpFails("prefix is a dataset")
        if not missing and segs[-1] in node.children:
            raise OpFails("exists")
        return node, missing, segs[-1]

    def _create(self, path, new):
        node, missing, last = self._parent_for_create(path)
        for s in missing:
            node.children[s] = MNode("g")
            node = node.children[s]
        node.children[last] = new

    # -- operations (atomic: raise OpFails before any change)
    def set(self, path, cvalue):
        self._create(path, MNode("d", cvalue))

    def mkgrp(self, path):
        self._create(path, MNode("g"))

    def delete(self, path):
        segs = split(path)
        if not segs or self.lookup(path) is None:
            raise OpFails("absent")
        parent = self.lookup("/" + "/".join(segs[:-1]))
        del parent.children[segs[-1]]
        norm = "/" + "/".join(segs)
        if norm not in self.dead:
            self.dead.append(norm)

    def setattr(self, path, key, cvalue):
        n = self.lookup(path)
        if n is None:
            raise OpFails("absent")
        n.attrs[key] = cvalue

    def delattr(self, path, key):
        n = self.lookup(path)
        if n is None or key not in n.attrs:
            raise OpFails("absent")
        del n.attrs[key]

    def copy(self, src, dst, without_attrs=False):
        s = self.lookup(src)
        if s is None or not split(src):
            raise OpFails("source absent")
        self._parent_for_create(dst)
        snap = s.clone(with_attrs=not without_attrs)  # snapshot semantics
        self._create(dst, snap)

    def move(self, src, dst):
        s = self.lookup(src)
        if s is None or not split(src):
            raise OpFails("source absent")
        self._parent_for_create(dst)
        self.delete(src)
        self._create(dst, s)

    # -- listing
    def paths(self, kind=None):
        out = []

        def rec(p, n):
            if kind is None or n.kind == kind:
                out.append(p)
            if n.kind == "g":
                for k in sorted(n.children):
                    rec((p if p != "/" else "") + "/" + k, n.children[k])

        rec("/", self.root)
        return out

    def dump(self):
        out = {}

        def rec(p, n):
            out[p] = [n.kind, n.value, dict(n.attrs)]
            if n.kind == "g":
                for k, c in n.children.items():
                    rec((p if p != "/" else "") + "/" + k, c)

        rec("/", self.root)
        return out


# ---------------------------------------------------------------- dump of real things

def is_group(node):
    return hasattr(node, "keys") and hasattr(node, "create_group")


class DumpMismatch(Exception):
    """Listing API and lookup API of the real object disagree with each other."""


def dump_real(root, crosscheck=True):
    """{abs path: [kind, canonical value, {attr: canonical value}]} by recursion over keys(),
    cross-checked against len/in/[]/get/visititems of the same object."""
    out = {}

    def attrs_of(n):
        a = n.attrs
        d = {}
        for k in a.keys():
            d[k] = canon(a[k])
        if crosscheck:
            items = {k: canon(v) for k, v in a.items()}
            if items != d or len(a) != len(d) or any(k not in a for k in d):
                raise DumpMismatch(f"attrs listing inconsistent at {n.name}: keys->{d} items->{items} len={len(a)}")
        return d

    def rec(p, n):
        if crosscheck and p != "/":
            par = p.rsplit("/", 1)[0] or "/"
            if n.name != p or n.parent.name != par:
                raise DumpMismatch(f"node reached at {p} calls itself {n.name!r} with parent {n.parent.name!r}")
        if is_group(n):
            out[p] = ["g", None, attrs_of(n)]
            names = list(n.keys())
            if crosscheck:
                vals = sorted(v.name.rsplit("/", 1)[-1] for v in n.values())
                its = sorted(k for k, _ in n.items())
                if vals != sorted(names) or its != sorted(names):
                    raise DumpMismatch(f"values()/items() disagree with keys() at {p}: {vals} / {its} / {sorted(names)}")
                if len(n) != len(names) or sorted(iter(n)) != sorted(names):
                    raise DumpMismatch(f"len/iter/keys disagree at {p}: {len(n)} {sorted(iter(n))} {names}")
                if len(set(names)) != len(names):
                    raise DumpMismatch(f"duplicate keys at {p}: {names}")
            for k in names:
                if crosscheck and k not in n:
                    raise DumpMismatch(f"{k!r} listed at {p} but not `in`")
                c = n[k]
                if crosscheck and n.get(k) is None:
                    raise DumpMismatch(f"{k!r} listed at {p} but get() is None")
                rec((p if p != "/" else "") + "/" + k, c)
        else:
            out[p] = ["d", canon(n[()]), attrs_of(n)]

    rec("/", root)
    if crosscheck:
        seen = {}

        def cb(name, node):
            seen["/" + name] = "g" if is_group(node) else "d"

        root.visititems(cb)
        exp = {p: v[0] for p, v in out.items() if p != "/"}
        if seen != exp:
            raise DumpMismatch(f"visititems {sorted(seen.items())} != keys-recursion {sorted(exp.items())}")
        vis = []
        root.visit(lambda name: vis.append("/" + name))
        if sorted(vis) != sorted(exp):
            raise DumpMismatch(f"visit {sorted(vis)} != keys-recursion {sorted(exp)}")
    return out


def diff_dumps(got, exp, limit=6):
    msgs = []
    for p in sorted(set(got) | set(exp)):
        if p not in got:
            msgs.append(f"missing {p} (expected {exp[p][0]})")
        elif p not in exp:
            msgs.append(f"unexpected {p} ({got[p][0]})")
        elif got[p] != exp[p]:
            msgs.append(f"differs {p}: got {got[p]} expected {exp[p]}")
        if len(msgs) >= limit:
            break
    return msgs
