#!/bin/sh
# run the repository's pinned baseline (guard off); prints the number of the 66 stable tests that pass
OUT=$(mktemp /dev/shm/baseline.XXXXXX.xml)
cd /repo && env -u METADOR_CORE_VERIF /venv/bin/python -m pytest -ra -q -p no:cacheprovider --timeout=900 --continue-on-collection-errors --junitxml=$OUT >/dev/null 2>&1
/venv/bin/python - "$OUT" <<'PY'
import sys, json, xml.etree.ElementTree as ET
base = set(json.load(open("/root/.vp/BASELINE.json"))["stable_pass"])
ok = set()
for tc in ET.parse(sys.argv[1]).getroot().iter("testcase"):
    if not any(ch.tag in ("failure", "error", "skipped") for ch in tc):
        ok.add(f"{tc.get('classname')}::{tc.get('name')}")
missing = sorted(base - ok)
print(f"baseline: {len(base & ok)}/{len(base)} stable tests pass; missing: {missing}")
sys.exit(1 if missing else 0)
PY
RC=$?
rm -f "$OUT"
exit $RC
