#!/bin/bash
# tools/rebase_seeds.sh <seed-dir-name>... : the kept patch.diff of a seeded change was made against an older /repo
# commit; when later fix: commits touch the same lines it no longer applies. This re-applies it with a 3-way merge
# (the base blobs are in /repo's history) in a scratch worktree and rewrites patch.diff against the current HEAD
# (the original is kept as patch.orig.diff). Conflicts are reported and left alone.
W=$(mktemp -d /dev/shm/vt-rebase.XXXXXX)
trap 'git -C /repo worktree remove --force "$W/wt" 2>/dev/null; git -C /repo worktree prune; rm -rf "$W"' EXIT
git -C /repo worktree add -q --detach "$W/wt" HEAD || exit 2
for n in "$@"; do
  d=/verif/seeded/$n
  git -C "$W/wt" checkout -q -- . ; git -C "$W/wt" clean -fdq
  if git -C "$W/wt" apply --3way "$d/patch.diff" >"$W/log" 2>&1 && ! git -C "$W/wt" diff --name-only --diff-filter=U | grep -q .; then
    git -C "$W/wt" reset -q
    [ -f "$d/patch.orig.diff" ] || cp "$d/patch.diff" "$d/patch.orig.diff"
    git -C "$W/wt" diff > "$d/patch.diff"
    echo "$n rebased ($(grep -c '^@@' $d/patch.diff) hunks)"
  else
    echo "$n CONFLICT: $(tr '\n' ' ' < $W/log | cut -c1-200)"
    git -C "$W/wt" reset -q --hard
  fi
done
