#!/venv/bin/python
"""Debug helper: run a container replay step by step, printing steps and the first violation with traceback."""
import sys, json, traceback
sys.path.insert(0, "/verif")
import vt.compat
from vt import cmodel as C, history as H
from vt.evidence import Violation
import importlib
rp = json.load(open(sys.argv[1]))
case = rp["case"]
mod = importlib.import_module("vt.props." + rp["property"].lower())
H.install_work_guard()
sess = C.CSession(case["drivers"], sig=rp["property"], after_step=getattr(mod, "after_step", None))
sess.pictures = {}
orig = sess.run_all
def ra(fr, fm, kind, info=None):
    def fr2(ti, t):
        try:
            return fr(ti, t)
        except Exception:
            if "-v" in sys.argv: traceback.print_exc()
            raise
    r = orig(fr2, fm, kind, info); print("   ->", kind, info, "ok" if r else "FAILED"); return r
sess.run_all = ra
try:
    for op in case["history"]:
        print("STEP", op)
        sess.step(op)
    print("no violation")
except Violation as v:
    print("VIOLATION", v.signature, v.observed)
finally:
    sess.destroy()
