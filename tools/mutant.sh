#!/bin/bash
# tools/mutant.sh <patch-file | git-rev:REV> <ID> [tier] [seed]
# Runs ./check ID against a scratch copy of /repo/src with the patch applied (or at REV); nothing in /repo
# or /verif/evidence|replays changes. Prints the check's last lines and its exit code.
P="$1"; ID="$2"; TIER="${3:-quick}"; SEED="${4:-1}"
W=$(mktemp -d /dev/shm/vt-mutant.XXXXXX)
trap 'rm -rf "$W"' EXIT
case "$P" in
  git-rev:*) git -C /repo archive "${P#git-rev:}" src | tar -x -C "$W" ;;
  *) cp -r /repo/src "$W/src"; (cd "$W" && patch -s -p1 < "$P") || { echo "patch failed"; exit 3; } ;;
esac
cd /verif
VT_SRC="$W/src" VT_OUT="$W/out" VERIF_SEED="$SEED" ./check "$ID" "$TIER" > "$W/log" 2>&1
RC=$?
# KEEP=<dir>: keep the replay files the check wrote for this patched tree (tools/harvest_seed_replays.sh)
if [ -n "$KEEP" ] && [ -d "$W/out/replays/$ID" ]; then mkdir -p "$KEEP"; cp "$W/out/replays/$ID"/*.json "$KEEP"/ 2>/dev/null; fi
grep -E "VIOLATION|KNOWN-FINDING|HARNESS-ERROR|seed=" "$W/log" | cut -c1-400 | head -${TAIL:-8}
echo "mutant $P $ID rc=$RC"
exit $RC
