#!/bin/bash
# tools/seed_at_base.sh <seed-dir-name> [tier] [seed]
# For a kept seeded change whose patch.diff no longer applies to the current /repo (later fix: commits touched the
# same lines): run the check against the /repo commit the patch was made for, once without and once with the patch,
# and report the violation signatures that only the patched tree shows. (The old commit still has defects that were
# repaired since, so the unpatched run is not clean; the seeded change counts as detected when it adds a signature.)
n="$1"; TIER="${2:-quick}"; SEED="${3:-1}"
d=/verif/seeded/$n; id=${n%%-*}
P=$d/patch.diff; [ -f $d/patch.orig.diff ] && P=$d/patch.orig.diff
# newest /repo commit in which every file touched by the patch has the blob the patch starts from
base=""
for c in $(git -C /repo log --format=%h); do
  ok=1
  while read -r blob path; do
    have=$(git -C /repo rev-parse "$c:$path" 2>/dev/null) || { ok=0; break; }
    case "$have" in $blob*) ;; *) ok=0; break;; esac
  done < <(awk '/^diff --git/{p=$3; sub("^a/","",p)} /^index /{split($2,a,"\\.\\."); print a[1], p}' "$P")
  [ $ok = 1 ] && { base=$c; break; }
done
[ -z "$base" ] && { echo "$n: no base commit found"; exit 3; }
W=$(mktemp -d /dev/shm/vt-seedbase.XXXXXX); trap 'rm -rf "$W"' EXIT
run() {  # $1 = dir with src -> prints sorted signatures
  VT_SRC="$1/src" VT_OUT="$1/out" VERIF_SEED="$SEED" ./check "$id" "$TIER" > "$1/log" 2>&1
  echo "rc=$?" > "$1/rc"
  grep -E "^VIOLATION" "$1/log" | sed 's/.*# //; s/: observed.*//' | sort -u
}
mkdir -p $W/a $W/b
git -C /repo archive $base src | tar -x -C $W/a
git -C /repo archive $base src | tar -x -C $W/b
(cd $W/b && patch -s -p1 < "$P") || { echo "$n: patch does not apply to its base $base"; exit 3; }
cd /verif
run $W/a > $W/sa & 
run $W/b > $W/sb; wait
new=$(comm -13 $W/sa $W/sb | tr '\n' ';')
echo "$n base=$base unpatched:$(cat $W/a/rc) patched:$(cat $W/b/rc) only-with-patch: ${new:-NONE}"
grep -E "HARNESS" $W/b/log | head -2
[ -n "$new" ]
