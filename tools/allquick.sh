#!/bin/bash
# tools/allquick.sh [seed ...]  -> runs every quick check at the given seeds, prints one line per run
cd /verif
for s in "${@:-1}"; do
  for id in C01 C02 C03 C04 C05 C06 C07 C08 C09 C10 C11 C12 C13 C14 C15 C16 C17 C18 C19 C20; do
    VERIF_SEED=$s ./check $id quick 2>&1 | grep -E "^(VIOLATION|HARNESS|C[0-9]+ quick)" | cut -c1-260
  done
done
