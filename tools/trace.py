#!/venv/bin/python
"""Debug helper: print the bound ops of a replay's history and where it diverges."""
import sys, json
sys.path.insert(0, "/verif")
import vt.compat
from vt import history as H
from vt.treemodel import Tree
from vt.evidence import Violation
rp = json.load(open(sys.argv[1]))
case = rp["case"]
hist = case["history"]
pl = sys.argv[2] if len(sys.argv) > 2 else "none"
H.install_work_guard()
t = Tree()
for op in hist:
    if op[0] in ("commit", "reopen", "discard"):
        print("   ", op); continue
    for b in H.bind(op, t):
        try:
            H.apply_model(t, b); ok = True
        except H.OpFails as e:
            ok = False
        print("ok " if ok else "FAIL", b)
cls = H.IH5Record if case.get("cls", "IH5Record") == "IH5Record" else H.IH5MFRecord
try:
    out = H.run_history(hist, lambda: H.IH5Target(cls), placement=pl)
    print("no violation; final", sorted(out.final_tree.dump()))
except Violation as v:
    print("VIOLATION", v.signature, v.observed, v.extra)
