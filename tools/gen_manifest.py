#!/venv/bin/python
"""Regenerate MANIFEST.json from the table below (keeps it valid at all times)."""
import json, os
HERE = os.path.dirname(os.path.dirname(os.path.abspath(__file__)))
TB = ("CPython 3.12, Hypothesis 6.168, h5py/HDF5, numpy, hashlib; numpy aliases for names removed in numpy 2 "
      "(harness process only); the harness' own reference models")
CHECKS = {
 "C16": dict(level="exploration", ref="DESIGN.md §5 C16",
   technique="exhaustive enumeration of order axioms + every registration order of version sets against a tuple/sort reference model; Hypothesis for multi-name interleavings and the entry-point-name codec",
   text="Exhaustive for the bounded domain (108 refs: all pairs, all triples in thorough; all version subsets <=4 in every registration order via both registration paths), generated search beyond it. Sampling outside the grid, no proof.",
   note=TB + "; synthetic PluginGroup subclasses built with EntryPoint objects"),
}
CHECKS["C01"] = dict(level="exploration", ref="DESIGN.md §5 C01",
   technique="model-based generated histories (Hypothesis, histories as data with late-bound references) run in lock step against an independent reference tree under three patch placements; full-view comparison after every operation",
   text="Generated search over operation histories with patch boundaries, reopen and discard at arbitrary positions; every history is executed with zero, generated and maximal patch boundaries, so a boundary-dependent result shows as a divergence from the single-tree model. Bounded by history length (<=30 quick, <=120 thorough), tree size and <=~10 containers; sampling, no proof.",
   note=TB + "; the reference tree is validated against plain h5py.File at check start")
CHECKS["C05"] = dict(level="exploration", ref="DESIGN.md §5 C05",
   technique="generated source histories + merge + generated follow-up patches; differential merged-vs-overlay-vs-reference-tree, byte digests of source files, user-block field oracle",
   text="Generated search: every case builds a multi-container source, merges it while open, and checks the merged container (view, identity fields, manifest) and that follow-up patches made on the source apply to the merged container with the same view. Bounded by history length and <=3 follow-ups; sampling.",
   note=TB)
CHECKS["C02"] = dict(level="exploration", ref="DESIGN.md §5 C02",
   technique="generated histories of data and record-level operations (commit, discard, reopen in r/r+/a, merge, second handle, older-prefix open, refused calls); invariant after every step: sha256/size of every committed container and manifest unchanged + directory-listing whitelist; commit snapshots re-opened later against the reference tree",
   text="Generated search with an invariant checked after every single operation (successful or refused): byte digests of everything committed so far and no unexpected files; every commit's file set is later copied out and must open read-only showing the state recorded at that commit. Bounded by history length; sampling.",
   note=TB + "; what counts as committed is decided by the harness from its own API calls")
CHECKS["C18"] = dict(level="exploration", ref="DESIGN.md §5 C18",
   technique="exhaustive enumeration of all ordered pairs of small snapshot trees + Hypothesis for larger trees and an on-disk slice; oracles: flattened-set difference (both directions), apply-oracle interpreting nodes() in order, lookup-vs-listing agreement",
   text="Exhaustive for all pairs of trees with <=3 (quick) / <=4 (thorough) entries; generated search for larger trees incl. a slice realised on disk through dir_hashsums and annotate. The oracle is independent (flatten + replay of the edit script), two-directional (nothing missing, nothing extra).",
   note=TB)
CHECKS["C19"] = dict(level="exploration", ref="DESIGN.md §5 C19",
   technique="Hypothesis-generated abstract directory trees realised twice on disk; result compared with an injective model-side encoding (hashlib digests, normalised link targets) plus metamorphic single edits, chunked-stream differential against hashlib, and enumeration of outside-leading symlink shapes",
   text="Generated search; equal trees must hash equal and equal the model encoding (so different trees necessarily differ), every single edit must change the result, every outside-leading link shape must raise ValueError. Link chains/cycles and special files are not asserted.",
   note=TB + "; /dev/shm tmpfs semantics for symlinks and mtimes")
CHECKS["C03"] = dict(level="exploration", ref="DESIGN.md §5 C03",
   technique="exhaustive open-mode matrix (6 modes x 5 on-disk situations x 2 classes x name/list) in a directory shared with prefix-related records, judged against an outcome table written from the h5py.File contract; generated histories reopened under every permutation of the file list",
   text="The open-mode matrix is enumerated completely (exhaustive for its stated dimensions) with file-set/byte-digest deltas, refused writes in 'r', views after open and after write+close+reopen, and neighbour isolation incl. find_files/list_records; reopen-equality is a generated search over histories x all permutations (<=5 files).",
   note=TB + "; outcome table is the harness' reading of the h5py.File mode documentation as stated in the property")
CHECKS["C04"] = dict(level="fault_enumeration", ref="DESIGN.md §5 C04",
   technique="fault enumeration on valid generated records: single payload byte flip/insert/delete at stratified (quick) or all (thorough) positions, truncation/extension, chain-element removal, foreign/fork substitution, duplicated container, manifest edits; two-directional oracle (faulted sets must raise, untouched set / every chain prefix / MF-as-plain must open and show the reference tree)",
   text="One fault at a time on private copies of records built from generated histories; thorough enumerates every payload byte position of every container of the generated records. Acceptance side prevents a vacuous 'everything raises'. Single corruptions only.",
   note=TB + "; libhdf5 is trusted not to crash on corrupted payloads (a worker crash is reported as harness error)")
CHECKS["C11"] = dict(level="fault_enumeration", ref="DESIGN.md §5 C11",
   technique="crash-point enumeration: the patching program runs in forked children that os._exit at the n-th I/O/API event (all events in thorough), exhaustive torn prefixes of the final user-block write, and real SIGKILLs judged via an fsync'd progress log; oracle on the directory left behind (byte digests, committed subset vs reference tree, tri-state outcome of the full set, r+ recovery)",
   text="Deterministic enumeration of crash points at every hooked event boundary of generated patching scenarios (quick: 40 per scenario incl. all inside commit_patch; thorough: all), every torn-prefix length of the committing header write, plus sparse real kills. Crash instants inside one libhdf5 call and power-loss reordering are out of reach.",
   note=TB + "; os._exit at an event boundary is taken as a faithful model of process death at that point")
CHECKS["C10"] = dict(level="exploration", ref="DESIGN.md §5 C10",
   technique="generated IH5MF histories with manifest-extension commits; invariant after every commit (manifest digest/uuid vs user block, skeleton vs reference tree incl. last-written patch indices, extension inheritance); differential stub-vs-direct application of generated existence-based updates",
   text="Generated search: manifest invariants are checked after every commit of every history; each case then builds a stub, applies the same generated update via stub and directly, and requires per-operation parity, acceptance of the stub-made patch by the real files and equality with the reference result. Bounded history/update length; sampling.",
   note=TB)
CHECKS["C12"] = dict(level="exploration", ref="DESIGN.md §5 C12",
   technique="Hypothesis-generated schema classes (real metaclass) from the documented field-type grammar + all installed schema plugins (versioned, unversioned and [] access); hint-directed constructive instance recipes; round-trip oracle over bytes/JSON/YAML/json_dict, second-trip stability, byte identity for set-free instances, constant-field presence and input-ignorance against the class description",
   text="Generated search over classes and instances; the oracle is the round-trip identity itself plus independently known constants. Unions are restricted to members with disjoint serialised forms (others are order-dependent by construction). Bounded nesting depth 3; sampling.",
   note=TB + "; pydantic v1 / pydantic_yaml / isodate / pint are part of the code under test's dependencies and trusted for construction-time validation")
CHECKS["C14"] = dict(level="exploration", ref="DESIGN.md §5 C14",
   technique="Hypothesis-generated classes and installed schemas; triples of partials from six origins (parse_obj, JSON, YAML, MetadataLoader harvester, to_partial, FileMetaHarvester); algebraic laws (identity, associativity), operand snapshots, and a reference merge written from the documented rule; conflict-free 'split' generator + independent generator for conflicts",
   text="Generated search checking monoid laws, non-mutation, losslessness and the overwrite/conflict contract against an independent reference merge. Two listed known findings (partial class of example.matsci.info cannot be built; datetime truncated by from_partial) are reported as KNOWN-FINDING; date-times with a time part are excluded from the generators by construction.",
   note=TB + "; values are read from the instances' attribute dicts, the merge rule itself is re-implemented in the harness")
CHECKS["C13"] = dict(level="exploration", ref="DESIGN.md §5 C13",
   technique="exhaustive enumeration of (parent type, child type) pairs from a pool of ~80 field types x 6 class-chain shapes x a shared boundary-value corpus, with a one-directional soundness oracle (accepted undeclared override => no child-accepts/parent-rejects witness); generated valid instances of all installed schemas parsed by every ancestor; Extra-policy rule enumerated",
   text="Exhaustive over the stated pool/shapes/corpus (thorough adds Hypothesis-generated depth-2 types). One-directional by design: a refused safe override is allowed; a witness outside the corpus is missed.",
   note=TB + "; class chains are built with the real metaclass and checked in the order plugin loading uses")
CHECKS["C06"] = dict(level="exploration", ref="DESIGN.md §5 C06",
   technique="model-based generated container histories (Hypothesis) on three drivers; after every step an independent raw-tree auditor re-derives objects/links/schema and package records and checks the bijection and bookkeeping invariants, objects vs reference model, user tree vs plain reference tree; live vs rebuilt index compared at every reopen",
   text="Generated search with the full invariant evaluated after every successful or refused operation. The auditor reads only the unwrapped tree (layout re-derived from the property's anchors), so it is independent of the TOC classes. Bounded history length (30 quick / 60 thorough) and a pool of 11 schema accesses.",
   note=TB + "; a libhdf5 2.0.0 H5Ocopy bug with absolute destinations is avoided by construction (receiver switched to the root) and, if still hit, the case is counted as excluded")
CHECKS["C09"] = dict(level="exploration", ref="DESIGN.md §5 C09",
   technique="three-way differential execution of Hypothesis-generated container histories (h5py.File vs IH5Record vs IH5MFRecord) with generated patch boundaries and reopen points; per-step success parity and full user-view comparison (data, attributes, metadata JSON, schemas, query result sets); no reference model decides",
   text="Pure differential generated search: a shared misconception of harness and code cannot hide a divergence because no model is consulted. Bounded history length and a fixed query battery; sampling.",
   note=TB + "; h5py.File behaviour is taken as given (one libhdf5 2.0 copy bug is avoided by construction)")
CHECKS["C08"] = dict(level="exploration", ref="DESIGN.md §5 C08",
   technique="exhaustive matrix of path-taking protocol members (introspected from util/types.py) x reserved path shapes x receivers x states x drivers with raise + raw-tree-unchanged oracle; generated container histories with listing probes (keys/len/iter/values/items/get/in/visit/visititems) against the reference model after every step; enumeration of non-protocol attributes",
   text="The reserved-path matrix and the attribute enumeration are complete for their stated dimensions; the listing probes are a generated search. A harness error is raised if the protocol gains a member the matrix does not classify.",
   note=TB)
CHECKS["C07"] = dict(level="exploration", ref="DESIGN.md §5 C07",
   technique="model-based generated container histories with lookup and query probes after every step; brute-force query oracle over the reference model using parent chains derived from the class MRO (independent of the TOC), result sets compared in both directions; exact/ancestor lookups compared with Ancestor.parse(stored)",
   text="Generated search over histories x (schema, version, start node) probes incl. lower/higher minor and other major versions of stored schemas and their ancestors; full probe battery after a final reopen. Multi-version unversioned lookups that the documentation lists as a limitation are counted as excluded.",
   note=TB + "; harness schema family verif.* is discovered through real entry points (/verif/fakepkg)")
CHECKS["C20"] = dict(level="exploration", ref="DESIGN.md §5 C20",
   technique="generated container histories; independent validator: every stored object (found by the raw-tree auditor) is validated with jsonschema Draft-07 against the JSON Schema embedded in the container; embedded parent chains / provider records compared with the plugin system and with the container's public TOC answers, live and after reopen",
   text="Generated search; validity is decided by an independent JSON Schema implementation, the description data by differential comparison embedded-vs-plugin-system-vs-public-API. Bounded history length; schema pool of 11 accesses incl. a harness family with several versions and 3-level inheritance.",
   note=TB + "; jsonschema 4.26 (Draft7Validator) is trusted")
CHECKS["C17"] = dict(level="exploration", ref="DESIGN.md §5 C17",
   technique="generated byte strings at boundary lengths / NUL-rich / marker-like contents embedded with pack_file on three drivers, followed by generated journeys (patch boundary, reopen, copy, move, second embedding from the same path, merge); round-trip oracle on bytes and differential against hashlib/len for the attached file metadata; marker rejection with raw-tree-unchanged oracle",
   text="Generated search; bytes and metadata are compared with the source after every journey step for the node and all its copies, incl. the merged record. The one reserved value must be rejected on IH5 without traces.",
   note=TB + "; libmagic decides the mime type (not asserted)")
CHECKS["C15"] = dict(level="exploration", ref="DESIGN.md §5 C15",
   technique="exhaustive enumeration: start nodes x all 8 flag sets (set before / after a first navigation) x navigation chains (length <=2 quick, <=3 thorough) over every navigation primitive x every mutating / reading / upward operation, on both drivers; oracles: acl superset, raise + raw tree unchanged, locality of everything yielded, flags not clearable; unrestricted control runs prove non-vacuity",
   text="Complete for the stated finite product (exhaustive: true per block). Bounded by chain length and by the protocol members; restrictions are documented as soft, so __wrapped__ is out of scope.",
   note=TB)
NOT_YET = {}
def main():
    props = [json.loads(l) for l in open(os.path.join(HERE, "properties.jsonl"))]
    checks = []
    for p in props:
        pid = p["id"]
        if pid not in CHECKS:
            continue
        c = CHECKS[pid]
        checks.append(dict(
            property_id=pid, quick_cmd=f"./check {pid} quick", thorough_cmd=f"./check {pid} thorough",
            evidence_file=f"evidence/{pid}.json", replay_cmd_template="./check --replay {path}", engine="vt",
            level_claimed=dict(category=c["level"], text=c["text"], design_ref=c["ref"]),
            level_note=c["note"], technique=c["technique"]))
    na = [dict(property_id=p["id"], reason=NOT_YET.get(p["id"], "check not built yet in this round (planned, see DESIGN.md §5); not claimed until it exists"))
          for p in props if p["id"] not in CHECKS]
    m = dict(
        version=1,
        setup_cmd="/venv/bin/python -c \"import hypothesis, jsonschema, h5py\" || /venv/bin/pip install --no-index --find-links /opt/veriftools/wheels hypothesis jsonschema",
        hooks=dict(guard="METADOR_CORE_VERIF", enable="no hooks in /repo; checks import /repo/src directly (editable install) and set METADOR_CORE_VERIF=1 for completeness",
                   baseline_off_cmd="cd /repo && env -u METADOR_CORE_VERIF /venv/bin/python -m pytest -ra -q -p no:cacheprovider --timeout=900 --continue-on-collection-errors",
                   source_commits=[], add_only=True),
        engines=[dict(name="vt", path="vt/", serves_properties=sorted(CHECKS),
                      kind_free_text="Hypothesis-driven generated search + exhaustive enumeration + harness fault injection with explicit oracles; ./check <ID> <tier>")],
        checks=checks,
        notes="exit 0 held / 1 VIOLATION / 2 harness error or inconclusive. known_findings.json lists fixed and known defects. See DESIGN.md.",
        not_applicable=na)
    with open(os.path.join(HERE, "MANIFEST.json"), "w") as f:
        json.dump(m, f, indent=1)
    import jsonschema
    jsonschema.validate(m, json.load(open("/root/.vp/MANIFEST.schema.json")))
    print("MANIFEST ok:", [c["property_id"] for c in checks])
main()
