#!/venv/bin/python
import json, sys, glob, jsonschema
sch = json.load(open("/root/.vp/EVIDENCE.schema.json"))
for p in sorted(glob.glob("/verif/evidence/*.json")):
    jsonschema.validate(json.load(open(p)), sch); print("ok", p)
