#!/bin/bash
# tools/all_seeds.sh [filter] -> runs the property's quick check against every kept seeded change (scratch copies)
cd /verif
for d in seeded/*/; do
  n=$(basename $d)
  case "$n" in *$1*) ;; *) continue;; esac
  id=${n%%-*}
  # the check named first in meta.json "detected_by" (a few seeded changes are caught by a neighbouring property's check)
  id=$(/venv/bin/python tools/seed_check_id.py $d)
  out=$(tools/mutant.sh /verif/$d/patch.diff $id quick ${SEED:-1} 2>&1)
  rc=$(echo "$out" | grep -o "rc=[0-9]*" | tail -1)
  sig=$(echo "$out" | grep -m1 -E "VIOLATION|patch failed|HARNESS" | sed 's/.*# //' | cut -c1-100)
  echo "$n $id $rc $sig"
done
