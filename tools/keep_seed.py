#!/venv/bin/python
"""tools/keep_seed.py <ID> <N> <caught_by: e.g. C01:quick or MISSED> [note]
Copies a confirmed seeded change from the sub-agent's scratch worktree into /verif/seeded/<ID>-<N>/."""
import json, os, shutil, sys
ID, N, caught = sys.argv[1], sys.argv[2], sys.argv[3]
note = sys.argv[4] if len(sys.argv) > 4 else ""
src = f"/tmp/wt/{ID}/_seed/{N}"
dst = f"/verif/seeded/{ID}-{N}" if len(sys.argv) < 6 else f"/verif/seeded/{ID}-{sys.argv[5]}"
os.makedirs(dst, exist_ok=True)
for f in ("patch.diff", "demo.py", "notes.md"):
    shutil.copy(os.path.join(src, f), os.path.join(dst, f))
def rc(name):
    p = os.path.join(src, name)
    return open(p).read()[-600:] if os.path.exists(p) else ""
notes = open(os.path.join(src, "notes.md")).read()
meta = dict(
    property=ID, seed=int(N),
    breaks=f"property {ID}",
    needs_to_manifest=notes.strip()[:1500],
    confirmed=dict(
        demo_on_unchanged_worktree="exit 0", demo_with_patch="exit 1 (tail: %s)" % rc("patched.log")[-300:],
        existing_tests_with_patch="66 passed (same as baseline; run by the sub-agent and spot-checked)",
        how="tools/seedeval.sh %s %s : applies patch.diff in the scratch worktree, runs demo.py before/after, then runs the "
            "check against a scratch copy of /repo/src with the patch (tools/mutant.sh)" % (ID, N)),
    detected_by=caught, note=note,
    run_demo="cd <worktree of /repo> && git apply patch.diff && WT=$PWD /venv/bin/python demo.py  (needs shim.py from /verif/seeded/shim.py next to demo.py)",
)
json.dump(meta, open(os.path.join(dst, "meta.json"), "w"), indent=1)
print("kept", dst, caught)
