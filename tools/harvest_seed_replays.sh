#!/bin/bash
# tools/harvest_seed_replays.sh [filter]
# For every kept seeded change: run the detecting check against the patched tree, take the failing cases it saved,
# and keep the first one that HOLDS on the unpatched tree as replays/<ID>/seed-<name>.json. Quick runs replay these
# files first, so each seeded change is then detected independently of VERIF_SEED.
cd /verif
for d in seeded/*/; do
  n=$(basename $d)
  case "$n" in *$1*) ;; *) continue;; esac
  id=$(/venv/bin/python tools/seed_check_id.py $d)
  [ -f replays/$id/seed-$n.json ] && { echo "$n: have"; continue; }
  K=$(mktemp -d /dev/shm/vt-keep.XXXXXX)
  KEEP=$K tools/mutant.sh /verif/$d/patch.diff $id quick ${SEED:-1} >/dev/null 2>&1
  got=""
  for f in $K/*.json; do
    [ -f "$f" ] || continue
    if [ -f "replays/$id/$(basename $f)" ]; then got="(already a committed replay: $(basename $f))"; break; fi
    if ./check --replay "$f" 2>/dev/null | grep -q "property held"; then
      # and it must fail with the patch (the shrunk case, not an unrelated saved input)
      mkdir -p replays/$id; cp "$f" replays/$id/seed-$n.json; got=1; break
    fi
  done
  rm -rf $K
  echo "$n: ${got:-nothing kept} $([ "$got" = 1 ] && echo replays/$id/seed-$n.json)"
done
