#!/bin/bash
# tools/seed_demo.sh <seed-dir-name> : runs the kept demo.py of a seeded change against a scratch copy of the
# current /repo/src, without and with patch.diff -> "clean rc=0 patched rc=1" means the seeded change still
# manifests on the current tree; "patched rc=0" means a later fix: commit made it harmless.
n="$1"; d=/verif/seeded/$n
W=$(mktemp -d /dev/shm/vt-seeddemo.XXXXXX); trap 'rm -rf "$W"' EXIT
cp -r /repo/src $W/src; cp $d/demo.py /verif/seeded/shim.py $W/
(cd $W && WT=$W timeout 600 /venv/bin/python demo.py > clean.log 2>&1); C=$?
(cd $W && patch -s -p1 < $d/patch.diff) || { echo "$n: patch failed"; exit 3; }
(cd $W && WT=$W timeout 600 /venv/bin/python demo.py > patched.log 2>&1); P=$?
echo "$n: demo clean rc=$C patched rc=$P"
[ "$P" != 0 ] || tail -3 $W/patched.log
