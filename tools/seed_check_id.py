"""print the id of the check named first in a seeded change's meta.json 'detected_by' (default: the seed's own id)"""
import json
import re
import sys

d = sys.argv[1].rstrip("/")
own = d.split("/")[-1].split("-")[0]
try:
    m = re.findall(r"C\d\d", json.load(open(d + "/meta.json")).get("detected_by", ""))
except Exception:  # noqa: BLE001
    m = []
print(own if own in m or not m else m[0])
