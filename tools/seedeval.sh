#!/bin/bash
# tools/seedeval.sh <ID> <N> [check-ID ...]
# Confirms a sub-agent's seeded change (demo passes clean / fails patched, in its scratch worktree), then
# runs the named checks (default: <ID>) against a scratch copy of /repo/src with the patch applied.
ID="$1"; N="$2"; shift 2; CHECKS="${@:-$ID}"
WT=/tmp/wt/$ID; S=$WT/_seed/$N
[ -f "$S/patch.diff" ] || { echo "no $S/patch.diff"; exit 3; }
cd $WT && git checkout -q -- src
cp -n $WT/shim.py $S/shim.py 2>/dev/null
WT=$WT timeout 600 /venv/bin/python $S/demo.py > $S/clean.log 2>&1; C=$?
git apply $S/patch.diff || { echo "patch does not apply"; exit 3; }
WT=$WT timeout 600 /venv/bin/python $S/demo.py > $S/patched.log 2>&1; P=$?
git checkout -q -- src
echo "seed $ID/$N: demo clean rc=$C patched rc=$P"
for c in $CHECKS; do
  TAIL=4 /verif/tools/mutant.sh $S/patch.diff $c quick ${SEED:-1} | cut -c1-300
done
