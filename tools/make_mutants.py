#!/venv/bin/python
"""Generate the hand-written sensitivity mutants (DESIGN §5 'Must-detect') as patch files under /verif/mutants/.
Each mutant is a single small source edit; `tools/run_mutants.sh` runs the named check against each."""
import difflib, os, sys
SRC = "/repo/src/metador_core/"
M = [
 # (name, property ids to run, file, old, new)
 ("C01-a-del-without-marker", "C01 C09", "ih5/overlay.py", "        if len(self._files) > 1:  # has patches? mark deleted (instead of real delete)", "        if False:  # has patches? mark deleted (instead of real delete)"),
 ("C01-b-group-without-subst", "C01", "ih5/overlay.py", "            if len(self._files) > 1:\n                self._files[-1][p].attrs[SUBST_KEY] = h5py.Empty(None)", "            if False:\n                self._files[-1][p].attrs[SUBST_KEY] = h5py.Empty(None)"),
 ("C01-c-attr-del-without-marker", "C01", "ih5/overlay.py", "        if len(self._files) > 1:  # is a patch?", "        if False:  # is a patch?"),
 ("C04-b-no-prev-patch-check", "C04", "ih5/record.py", "            if ub.prev_patch != prev.patch_uuid:", "            if False and ub.prev_patch != prev.patch_uuid:"),
 ("C04-d-manifest-hash-not-compared", "C04", "ih5/manifest.py", "            if ubext.manifest_hashsum != chksum:", "            if False and ubext.manifest_hashsum != chksum:"),
 ("C04-e-base-hash-skipped-with-patches", "C04", "ih5/record.py", "        ret._check_ublock(ret.__files__[0].filename, ret._ublock(0), None, has_patches)", "        if not has_patches:\n            ret._check_ublock(ret.__files__[0].filename, ret._ublock(0), None, has_patches)"),
 ("C05-a-merge-drops-root-attrs", "C05", "ih5/record.py", "            for k, v in source_node.attrs.items():  # copy root attributes\n                target_node.attrs[k] = v", "            pass"),
 ("C05-b-merged-fresh-patch-uuid", "C05", "ih5/record.py", 'ub = self._ublock(-1).copy(update={"prev_patch": self._ublock(0).prev_patch})', 'ub = self._ublock(-1).copy(update={"prev_patch": self._ublock(0).prev_patch, "patch_uuid": uuid1()})'),
 ("C06-a-package-record-kept", "C06 C20", "container/interface.py", "                self._pkgs._unregister(pkg)", "                pass"),
 ("C06-b-empty-meta-dir-left", "C06", "container/interface.py", "        if not self._objs:\n            del self._mc.__wrapped__[self._base_dir]", "        if False:\n            del self._mc.__wrapped__[self._base_dir]"),
 ("C07-a-supports-swapped", "C07", "container/interface.py", "        return ret if ret and req_ref.supports(ret.schema) else None", "        return ret if ret and ret.schema.supports(req_ref) else None"),
 ("C07-b-query-forgets-start-node", "C07 C09", "container/interface.py", "        if (schema_name, schema_ver) in start_node.meta:\n            yield start_node", "        if False:\n            yield start_node"),
 ("C08-a-len-counts-raw", "C08", "container/wrappers.py", "        return len(list(self.keys()))", "        return len(self.__wrapped__)"),
 ("C08-b-contains-unguarded", "C08", "container/wrappers.py", "    def __contains__(self, name: str):\n        self._guard_path(name)", "    def __contains__(self, name: str):"),
 ("C10-a-skeleton-without-attrs", "C10", "ih5/skeleton.py", "        return cls(node_type=dt, patch_index=pidx, attrs=ats)", "        return cls(node_type=dt, patch_index=pidx, attrs={})"),
 ("C10-b-stub-merge-allowed", "C10 C05", "ih5/manifest.py", "        if any(map(is_stub, self.ih5_meta)):", "        if False and any(map(is_stub, self.ih5_meta)):"),
 ("C11-a-hash-before-close", "C11", "ih5/record.py", "        cfile.close()  # must close it now, as we will write outside of HDF5 next\n\n        # compute checksum, write user block\n        chksum = hashsum_file(filepath, skip_bytes=USER_BLOCK_SIZE)", "        cfile.flush()\n        chksum = hashsum_file(filepath, skip_bytes=USER_BLOCK_SIZE)\n        cfile.close()"),
 ("C11-b-commit-in-two-steps", "C11", "ih5/record.py", "        self._ublocks[filepath].hdf5_hashsum = QualHashsumStr(chksum)\n        self._ublocks[filepath].save(filepath)", "        self._ublocks[filepath].hdf5_hashsum = QualHashsumStr('sha256:' + '0' * 64)\n        self._ublocks[filepath].save(filepath)\n        self._ublocks[filepath].hdf5_hashsum = QualHashsumStr(chksum)\n        self._ublocks[filepath].save(filepath)"),
 ("C12-a-exclude-none-flipped", "C12", "schema/base.py", '        kwargs["exclude_none"] = True', '        kwargs["exclude_none"] = False'),
 ("C12-b-no-yaml-fallback", "C12 C14", "schema/base.py", "        except ValidationError:\n            return parse_yaml_raw_as(cls, dat)", "        except ValidationError:\n            raise"),
 ("C13-a-override-check-skipped", "C13", "schema/core.py", "    for fname in undecl_override:", "    for fname in []:"),
 ("C13-b-extra-policy-unchecked", "C13", "schema/core.py", "            if extra is not Extra.forbid:", "            if False and extra is not Extra.forbid:"),
 ("C14-a-list-merge-reversed", "C14", "schema/partial.py", "            return v_old + v_new", "            return v_new + v_old"),
 ("C14-b-set-merge-intersection", "C14", "schema/partial.py", "            return v_old.union(v_new)  # set union", "            return v_old.intersection(v_new)  # set union"),
 ("C14-c-merge-mutates-self", "C14", "schema/partial.py", "        ret = self.copy()  # type: ignore", "        ret = self  # type: ignore"),
 ("C15-a-skel-flag-not-inherited", "C15", "container/wrappers.py", "            **{k.name: v for k, v in self.acl.items() if v},", '            **{k.name: v for k, v in self.acl.items() if v and k.name != "skel_only"},'),
 ("C15-b-query-yields-unrestricted", "C15", "container/interface.py", "            if (schema_name, schema_ver) in node.meta:\n                ret.append(node)", "            if (schema_name, schema_ver) in node.meta:\n                ret.append(self._container[node.name])"),
 ("C16-a-supports-le", "C16", "schema/plugins.py", "        if self.version[1] < other.version[1]:  # minor", "        if self.version[1] <= other.version[1]:  # minor"),
 ("C16-b-resolve-oldest", "C16", "plugin/interface.py", "            return refs[-1]  # latest (compatible) version", "            return refs[0]  # latest (compatible) version"),
 ("C17-a-bytes-instead-of-void", "C17", "packer/utils.py", "    return numpy.void(bs) if len(bs) else h5py.Empty(\"b\")", "    return numpy.bytes_(bs) if len(bs) else h5py.Empty(\"b\")"),
 ("C18-a-self-first", "C18", "util/diff.py", "        buckets = [self.removed, self.modified, None, self.added]", "        buckets = [None, self.removed, self.modified, self.added]"),
 ("C18-b-status-truthiness", "C18", "util/diff.py", "        if self.prev is None:\n            return DiffNode.Status.added", "        if not self.prev:\n            return DiffNode.Status.added"),
 ("C19-a-empty-dirs-dropped", "C19", "util/hashsums.py", "        # create nested dicts, if not existing yet\n        curr = ret", "        if not (is_file or is_sym):\n            continue\n        # create nested dicts, if not existing yet\n        curr = ret"),
 ("C19-b-sha512-ignored", "C19", "util/hashsums.py", "            val = file_hashsum(path, alg)  # value = hashsum", "            val = file_hashsum(path)  # value = hashsum"),
 ("C20-a-compat-reversed", "C20", "container/interface.py", "        parents_dat: bytes = json.dumps(list(map(lambda x: x.dict(), parents))).encode(", "        parents_dat: bytes = json.dumps(list(map(lambda x: x.dict(), reversed(parents)))).encode("),
 ("C20-b-jsonschema-of-root-parent", "C20", "container/interface.py", "        jsonschema_dat = schema_cls.schema_json().encode(\"utf-8\")", "        _pp = schemas.parent_path(schema_ref.name, schema_ref.version)\n        jsonschema_dat = schemas.get(_pp[0].name, _pp[0].version).schema_json().encode(\"utf-8\")"),
 ("C02-a-discard-removes-previous", "C02", "ih5/record.py", "        return self._delete_latest_container()", "        self._delete_latest_container()\n        Path(self.__files__[-1].filename).touch()\n        with open(self.__files__[-1].filename, 'ab') as _f:\n            _f.write(b'')\n        import os as _os\n        _os.truncate(self.__files__[-1].filename, _os.path.getsize(self.__files__[-1].filename))"),
 ("C02-b-create-patch-rewrites-previous-header", "C02", "ih5/record.py", "        self.__files__.append(self._new_container(path, ub))\n        self._ublocks[path] = ub", "        self.__files__.append(self._new_container(path, ub))\n        self._ublocks[path] = ub\n        _prev = self._ublock(-2).copy()\n        _prev.ub_exts = dict(_prev.ub_exts, successor=str(ub.patch_uuid))\n        _prev.save(self.__files__[-2].filename)"),
 ("C03-a-a-truncates", "C03", "ih5/record.py", "                    ret = self._create(path, truncate=False)\n                    self.__dict__.update(ret.__dict__)\n                    return\n\n            # open existing", "                    ret = self._create(path, truncate=False)\n                    self.__dict__.update(ret.__dict__)\n                    return\n            if mode == 'a' and len(paths) > 2:\n                ret = self._create(path, truncate=True)\n                self.__dict__.update(ret.__dict__)\n                return\n\n            # open existing"),
]
out = "/verif/mutants"
os.makedirs(out, exist_ok=True)
index = []
for name, props, f, old, new in M:
    p = SRC + f
    s = open(p).read()
    if s.count(old) != 1:
        print("SKIP (anchor not unique/found):", name, s.count(old)); continue
    a = s.splitlines(keepends=True); b = s.replace(old, new).splitlines(keepends=True)
    rel = "src/metador_core/" + f
    d = "".join(difflib.unified_diff(a, b, "a/" + rel, "b/" + rel))
    open(f"{out}/{name}.patch", "w").write(d)
    index.append((name, props))
open(f"{out}/INDEX.txt", "w").write("".join(f"{n} {p}\n" for n, p in index))
print(len(index), "mutants written")
