#!/bin/bash
# tools/run_mutants.sh [name-filter]  -> runs each hand mutant against its checks (quick tier), prints a table
cd /verif
while read name props; do
  case "$name" in *$1*) ;; *) continue;; esac
  for id in $props; do
    out=$(tools/mutant.sh /verif/mutants/$name.patch $id quick 1 2>&1)
    rc=$(echo "$out" | grep -o "rc=[0-9]*" | tail -1)
    sig=$(echo "$out" | grep -m1 VIOLATION | sed 's/.*# //' | cut -c1-110)
    echo "$name $id $rc $sig"
  done
done < mutants/INDEX.txt
