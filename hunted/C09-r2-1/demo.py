import shim  # noqa: F401  (must be first)

import os
import shutil
import sys
import tempfile

import h5py
import numpy as np

from metador_core.container import MetadorContainer
from metador_core.ih5.container import IH5MFRecord, IH5Record

# An attribute holding an ARRAY of variable-length strings, one of which is no valid
# UTF-8 (h5py stores the bytes as they are; both drivers accept the assignment).
VALUE = np.array([b"\xff", b"a"], dtype=h5py.string_dtype())


def tree(mc):
    out = []

    def visit(name, node):
        out.append((name, sorted(node.attrs.keys())))

    mc.visititems(visit)
    return sorted(out)


def history(kind, tmp):
    if kind == "h5py.File":
        raw = h5py.File(os.path.join(tmp, "plain.h5"), "w")
    elif kind == "IH5Record":
        raw = IH5Record(os.path.join(tmp, "rec"), "w")
    else:
        raw = IH5MFRecord(os.path.join(tmp, "mfrec"), "w")
    mc = MetadorContainer(raw)
    log = []

    def step(name, fn):
        try:
            fn()
            log.append((name, "ok"))
        except Exception as e:  # the caller catches the error and goes on
            log.append((name, f"FAILED ({type(e).__name__}: {e})"))

    step("create g/d, g/z", lambda: (mc.__setitem__("g/d", 1), mc.__setitem__("g/z", 2)))
    step("g/d.attrs['k'] = array of vlen bytes", lambda: mc["g/d"].attrs.__setitem__("k", VALUE))
    if kind != "h5py.File":  # a patch boundary (irrelevant for the outcome)
        raw.commit_patch()
        raw.create_patch()
    step("copy g -> g2", lambda: mc.copy("g", "g2"))
    step("move g/d -> dd", lambda: mc.move("g/d", "dd"))
    result = (log, tree(mc))
    mc.close()
    return result


def main():
    tmp = tempfile.mkdtemp()
    try:
        results = {k: history(k, tmp) for k in ("h5py.File", "IH5Record", "IH5MFRecord")}
    finally:
        shutil.rmtree(tmp)

    ref_log, ref_tree = results["h5py.File"]
    bad = False
    for kind, (log, tr) in results.items():
        if kind == "h5py.File":
            continue
        for (name, a), (_, b) in zip(ref_log, log):
            if (a == "ok") != (b == "ok"):
                bad = True
                print(f"[{kind}] step '{name}': h5py.File -> {a} / {kind} -> {b}")
        if tr != ref_tree:
            bad = True
            print(f"[{kind}] resulting tree differs:")
            print(f"    h5py.File: {ref_tree}")
            print(f"    {kind}: {tr}")
    if bad:
        print("VIOLATION: same history, different outcome on plain HDF5 and on IH5")
        return 1
    print("OK: all drivers agree")
    return 0


if __name__ == "__main__":
    sys.exit(main())
