import shim  # noqa: F401
import shutil
import sys
import tempfile
from pathlib import Path

import h5py
from flask import Flask

from metador_core.container import MetadorContainer
from metador_core.container.provider import SimpleContainerProvider
from metador_core.ih5.container import IH5Record
from metador_core.packer.utils import pack_file
from metador_core.widget.common import FileWidget
from metador_core.widget.server import WidgetServer


class AnyFileWidget(FileWidget):
    """Minimal concrete widget (show is never called here)."""

    class Plugin(FileWidget.Plugin):
        name = "demo.anyfile"
        version = (0, 1, 0)

    def show(self):
        raise NotImplementedError


FILES = {"empty.bin": b"", "nul.bin": b"\x00", "trail.bin": b"abc\x00\x00"}

problems = []
tmp = Path(tempfile.mkdtemp())
try:
    for fname, content in FILES.items():
        (tmp / fname).write_bytes(content)

    for drv in ["hdf5", "ih5"]:
        # embed the files, close (and commit), reopen read-only
        if drv == "hdf5":
            mc = MetadorContainer(h5py.File(tmp / "c.h5", "w"))
        else:
            mc = MetadorContainer(IH5Record(tmp / "rec", "w"))
        for fname in FILES:
            pack_file(mc, tmp / fname)
        mc.close()
        if drv == "hdf5":
            mc = MetadorContainer(h5py.File(tmp / "c.h5", "r"))
        else:
            mc = MetadorContainer(IH5Record(tmp / "rec", "r"))

        provider = SimpleContainerProvider()
        provider["cid"] = mc
        server = WidgetServer(
            provider, populate=False, flask_endpoint="http://f", bokeh_endpoint="http://b"
        )
        app = Flask("demo")
        app.register_blueprint(server.get_flask_blueprint("api", __name__))
        client = app.test_client()

        for fname, content in FILES.items():
            # (1) the download endpoint of the widget server
            resp = client.get(f"/file/cid/{fname}")
            if resp.status_code != 200 or resp.data != content:
                problems.append(
                    f"[{drv}] WidgetServer.download('{fname}') -> HTTP {resp.status_code}, "
                    f"body {resp.data[:60]!r}; expected 200 and {content!r}"
                )
            # (2) the helper all widgets use to get the embedded file bytes
            try:
                w = AnyFileWidget(mc[fname], server=server, container_id="cid")
                got = w.file_data()
                if got != content:
                    problems.append(f"[{drv}] Widget.file_data('{fname}') = {got!r}")
            except Exception as e:
                problems.append(
                    f"[{drv}] Widget.file_data('{fname}') raised {type(e).__name__}: {e}; "
                    f"expected {content!r}"
                )
        mc.close()
finally:
    shutil.rmtree(tmp, ignore_errors=True)

if problems:
    print("PROPERTY VIOLATED: embedded file bytes cannot be read back:")
    for p in problems:
        print("  -", p)
    sys.exit(1)
print("ok: all embedded files (also the empty one) are served with their exact bytes")
sys.exit(0)
