import shim  # noqa
import copy
import shutil
import sys
import tempfile
from pathlib import Path

from metador_core.harvester import harvest
from metador_core.plugins import harvesters, schemas
from metador_core.schema.common import schemaorg as so

FileMeta = schemas.get("core.file", (0, 1, 0))
problems = []

# (a) a dict operand is mutated by merge_with(..., ignore_invalid=True)
P = so.Person.Partial
left = P(name="Bob")
operand = {"email": "", "givenName": "Bob", "familyName": 0}  # email is invalid (empty)
before = copy.deepcopy(operand)
res = left.merge_with(operand, ignore_invalid=True)
if operand != before:
    problems.append(f"dict operand mutated by merge_with: {before} -> {operand}")
if res.givenName != "Bob" or res.name != "Bob":
    problems.append(f"unexpected merge result {res!r}")

# (b) a partial of a compatible (parent) class as operand: fine without the flag,
#     AttributeError with ignore_invalid=True
child = so.Person.Partial(givenName="Bob")
parent = so.Thing.Partial(name="Bob", alternateName=[])
expected = child.merge_with(parent)
try:
    got = child.merge_with(parent, ignore_invalid=True)
    if got != expected:
        problems.append(f"ignore_invalid changes result for valid operand: {got!r}")
except Exception as e:  # noqa
    problems.append(f"merge_with(valid parent partial, ignore_invalid=True) raised {type(e).__name__}: {e}")

# (c) consequence: harvest(..., ignore_invalid=True) cannot merge any harvester result
d = Path(tempfile.mkdtemp())
try:
    f = d / "a.txt"
    f.write_text("hello")
    hv = harvesters["core.file.generic"]
    expected = harvest(FileMeta, [hv(filepath=f)])
    try:
        got = harvest(FileMeta, [hv(filepath=f)], ignore_invalid=True)
        if got != expected:
            problems.append("harvest(ignore_invalid=True) differs for valid harvester output")
    except Exception as e:  # noqa
        problems.append(f"harvest(..., ignore_invalid=True) raised {type(e).__name__}: {e}")
finally:
    shutil.rmtree(d)

if problems:
    print("PROPERTY VIOLATED (operand mutated / merge of valid partials fails):")
    for x in problems:
        print(" -", x)
    sys.exit(1)
print("ok")
