import shim
import os, shutil, sys, tempfile, hashlib
from pathlib import Path
import h5py
from metador_core.ih5.container import IH5Record

def tree(rec):
    out = {"/": dict(rec.attrs.items())}
    rec.visititems(lambda n, node: out.__setitem__(node.name, (type(node).__name__, dict(node.attrs.items()))))
    return out

def dirstate(d):
    return {p.name: hashlib.sha256(p.read_bytes()).hexdigest() for p in sorted(Path(d).iterdir())}

d = tempfile.mkdtemp()
problems = []
try:
    rec = f"{d}/foo"
    with IH5Record(rec, "w") as r:
        r["a/b"] = 1
    with IH5Record(rec, "a") as r:
        r["a/c"] = 2
        before = tree(r)
    # two other files in the same directory. Neither has the documented shape of a
    # container of record 'foo' (foo.ih5 / foo.p<...>.ih5):
    with h5py.File(f"{d}/foo_raw.ih5", "w") as f:  # file written by some other tool
        f["x"] = 1
    shutil.copy(f"{d}/foo.ih5", f"{d}/foo.bak.ih5")  # safety copy made by the user
    st = dirstate(d)

    for other in ["foo_raw.ih5", "foo.bak.ih5"]:
        keep = [x for x in ("foo_raw.ih5", "foo.bak.ih5") if x != other]
        for k in keep:
            os.rename(f"{d}/{k}", f"{d}/{k}.hidden")
        for mode in ["r", "r+", "a"]:
            try:
                r = IH5Record(rec, mode)
                if tree(r) != before:
                    problems.append(f"mode {mode!r} next to {other}: different view")
                if mode != "r":
                    r.discard_patch()
                r.close()
            except Exception as e:
                problems.append(f"mode {mode!r} next to {other}: cannot reopen 'foo' by name: {type(e).__name__}: {str(e)[:90]}")
        for k in keep:
            os.rename(f"{d}/{k}.hidden", f"{d}/{k}")
    if dirstate(d) != st:
        problems.append("directory changed by (failed) opening")

    # 'w' must replace the record foo - not remove files that are no containers of it
    IH5Record(rec, "w").close()
    for other in ["foo_raw.ih5", "foo.bak.ih5"]:
        if not os.path.exists(f"{d}/{other}"):
            problems.append(f"IH5Record('foo', 'w') deleted the unrelated file {other}")
        elif dirstate(d)[other] != st[other]:
            problems.append(f"IH5Record('foo', 'w') changed the unrelated file {other}")
finally:
    shutil.rmtree(d)

if problems:
    print("PROPERTY VIOLATED:")
    for p in problems:
        print("  -", p)
    sys.exit(1)
print("ok")
