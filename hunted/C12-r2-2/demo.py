import shim  # noqa: F401  (must be first)
import sys

from metador_core.schema import MetadataSchema
from metador_core.schema.types import PintQuantity


class Measurement(MetadataSchema):
    """User-defined schema with a physical quantity field (documented field type)."""

    temperature: PintQuantity


failed = False
# the normal pint way to state a temperature (or a level in decibel)
for magnitude, unit in ((25.5, "degC"), (70, "degF"), (3, "dB")):
    inst = Measurement(temperature=PintQuantity(magnitude, unit))  # accepted as valid
    for fname, ser in (("json", lambda i: i.json()), ("yaml", lambda i: i.yaml()), ("bytes", bytes)):
        raw = ser(inst)
        try:
            back = Measurement.parse_raw(raw)
        except Exception as e:
            failed = True
            msg = str(e).replace("\n", " | ")[:160]
            print(f"VIOLATION [{magnitude} {unit}, {fname}]: own output {raw!r} cannot be parsed back: {msg}")
            continue
        if back != inst:
            failed = True
            print(f"VIOLATION [{magnitude} {unit}, {fname}]: {back!r} != {inst!r}")

sys.exit(1 if failed else 0)
