import shim  # noqa: F401
import os
import shutil
import sys
import tempfile

import h5py

from metador_core.ih5.container import IH5Record

problems = []
d = tempfile.mkdtemp()
try:
    # --- reference: the same history on one plain HDF5 file ---
    ref = h5py.File(os.path.join(d, "ref.h5"), "w")
    ref["x"] = 1
    ref["g/h/i"] = 5
    del ref["x"]
    del ref["g"]
    for path, kw in [("x", dict(data=object())), ("g", dict(data=5, compression="gzip")),
                     ("new/sub/ds", dict(data={"a": 1}))]:
        try:
            if len(kw) == 1:
                ref[path] = kw["data"]
            else:
                ref.create_dataset(path, **kw)
            raise SystemExit("harness: reference write unexpectedly succeeded")
        except (TypeError, ValueError):
            pass
    ref_keys = sorted(ref.keys())  # -> []
    ref.close()

    # --- IH5: same history, with one patch boundary before the deletes ---
    rec = IH5Record(os.path.join(d, "r"), "w")
    rec["x"] = 1
    rec["g/h/i"] = 5
    rec.commit_patch()
    rec.create_patch()
    del rec["x"]
    del rec["g"]
    assert "x" not in rec and "g" not in rec
    for path, kw in [("x", dict(data=object())), ("g", dict(data=5, compression="gzip")),
                     ("new/sub/ds", dict(data={"a": 1}))]:
        try:
            if len(kw) == 1:
                rec[path] = kw["data"]
            else:
                rec.create_dataset(path, **kw)
            raise SystemExit("harness: IH5 write unexpectedly succeeded")
        except (TypeError, ValueError) as e:
            print(f"write to {path!r} failed as expected: {type(e).__name__}: {e}")

    def check(r, when):
        print(f"{when}: root keys are {sorted(r.keys())}, reference tree has {ref_keys}")
        if "x" in r:
            problems.append(f"{when}: deleted dataset 'x' reappeared with value {r['x'][()]!r}")
        if "g" in r:
            problems.append(f"{when}: deleted group 'g' reappeared with children {list(r['g'].keys())}")
        if "new" in r:
            # secondary symptom of the same non-atomic create (not counted for the exit code)
            print(f"note: {when}: failed write left behind group 'new' {list(r['new'].keys())}")

    check(rec, "after failed writes")
    rec.close()
    rec = IH5Record(os.path.join(d, "r"), "r")
    check(rec, "after commit+reopen")
    rec.close()
finally:
    shutil.rmtree(d, ignore_errors=True)

if problems:
    print("PROPERTY VIOLATED:")
    for p in problems:
        print("  -", p)
    sys.exit(1)
print("ok")
