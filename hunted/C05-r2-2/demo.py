import shim  # noqa: F401  (must be first)
import shutil
import sys
import tempfile
import traceback
from pathlib import Path

import h5py
import numpy as np

from metador_core.ih5.container import IH5Record

# The way h5py documents to store numpy datetimes: opaque dtype.
ODT = h5py.opaque_dtype(np.dtype("M8[s]"))
STAMP = np.array("2020-01-01T12:00:00", dtype="M8[s]").astype(ODT)  # 0-dim -> scalar

tmp = Path(tempfile.mkdtemp())
problems = []
try:
    for kind in ("dataset", "attribute"):
        src = IH5Record(tmp / f"src-{kind}", "w")
        src["other"] = [1, 2, 3]
        if kind == "dataset":
            src["created"] = STAMP
            read = lambda r: r["created"][()]  # noqa: E731
        else:
            src.attrs["created"] = STAMP
            read = lambda r: r.attrs["created"]  # noqa: E731
        src.commit_patch()
        before = read(src)

        target = tmp / f"merged-{kind}"
        try:
            src.merge_files(target)
        except Exception as e:
            left = sorted(p.name for p in tmp.glob(f"merged-{kind}*"))
            msg = f"[scalar datetime64 {kind}] merge_files raised {type(e).__name__}: {e}"
            if left:
                junk = IH5Record(target, "r")
                msg += (
                    f"\n    left behind {left}: a committed record with foreign uuid "
                    f"(same record uuid as source: {junk.ih5_uuid == src.ih5_uuid}), keys {list(junk.keys())}"
                )
                junk.close()
            problems.append(msg)
            src.close()
            continue

        mrg = IH5Record(target, "r")
        after = read(mrg)
        if before != after:
            problems.append(f"[{kind}] value differs: {before!r} vs {after!r}")
        mrg.close()
        src.close()
except Exception:
    traceback.print_exc()
    problems.append("unexpected exception in demo")
finally:
    shutil.rmtree(tmp, ignore_errors=True)

if problems:
    print("PROPERTY VIOLATED: merging a valid record does not yield a merged container")
    print("\n".join(problems))
    sys.exit(1)
print("ok: record with scalar opaque (datetime64) values merged, values equal")
sys.exit(0)
