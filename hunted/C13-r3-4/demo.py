import shim  # noqa: F401  (numpy shim + worktree first on sys.path)
import sys

from pydantic import Extra, ValidationError

from metador_core.plugins import schemas
from metador_core.schema import MetadataSchema

# Schemas must not change pydantic Config settings other than title/extra/allow_mutation
# (the metaclass raises "... must not be set or changed!"), because settings such as
# min_anystr_length / allow_inf_nan / anystr_strip_whitespace decide what str/float fields
# accept. The metaclass only looks at the attributes written in the body of the inner
# Config class - settings that the inner class inherits from a base class go unnoticed.


class Parent(MetadataSchema):
    class Plugin:
        name = "demo.parent"
        version = (0, 1, 0)

    label: str
    ratio: float


def direct():
    class Direct(Parent):
        class Config:
            min_anystr_length = 0  # refused, as it should be

    return Direct


class ProjectDefaults:  # shared settings of some project, reused as base of Config classes
    extra = Extra.forbid
    min_anystr_length = 0
    allow_inf_nan = True


def main() -> int:
    try:
        direct()
    except TypeError as e:
        print("(the same setting written directly is refused:", e, ")")
    else:
        print("(unexpected: the directly written setting was not refused)")

    try:

        class Child(Parent):
            class Plugin:
                name = "demo.child"
                version = (0, 1, 0)

            class Config(ProjectDefaults):
                title = "Child"

        schemas.check_plugin("demo.child__0.1.0", Child)
    except Exception as e:
        print("OK: child schema refused:", str(e).splitlines()[0])
        return 0

    bad = False
    for raw in [dict(label="", ratio=0.5), dict(label="x", ratio=float("inf"))]:
        try:
            obj = Child.parse_obj(raw)
        except ValidationError as e:
            print(f"OK: child does not accept {raw}:", str(e).splitlines()[-1])
            continue
        ser = obj.json()
        try:
            Parent.parse_raw(ser)
            print("OK: parent accepts", ser)
        except Exception as e:
            print("VIOLATION: child (same field types as the parent, passed the plugin check)")
            print(f"  accepted {raw} and serialised it to: {ser}")
            print("  but the parent schema rejects it:", str(e).splitlines()[-1].strip())
            bad = True
    return 1 if bad else 0


if __name__ == "__main__":
    sys.exit(main())
