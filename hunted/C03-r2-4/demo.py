import shim
import json, os, shutil, sys, tempfile
from pathlib import Path
from metador_core.ih5.container import IH5MFRecord

d = tempfile.mkdtemp()
problems = []
try:
    rec = Path(d) / "foo"
    with IH5MFRecord(rec, "w") as r:
        r["a"] = 1
    for i in range(2):
        with IH5MFRecord(rec, "a") as r:
            r[f"b{i}"] = i
    with IH5MFRecord(rec, "r") as r:
        old_uuid = str(r.ih5_uuid)
    old_files = sorted(os.listdir(d))

    # 'w' replaces the whole record
    with IH5MFRecord(rec, "w") as r:
        r["fresh"] = 1
        new_uuid = str(r.ih5_uuid)
    for p in sorted(Path(d).iterdir()):
        if p.name.endswith(IH5MFRecord.MANIFEST_EXT):
            uuid = json.loads(p.read_text())["user_block"]["record_uuid"]
            if uuid != new_uuid:
                problems.append(
                    f"after IH5MFRecord('foo', 'w'): {p.name} of the replaced record "
                    f"({'old' if uuid == old_uuid else 'unknown'} record_uuid) is still there"
                )
    # the same leftovers make an "absent" record not really absent:
    IH5MFRecord.delete_files(rec)
    left = sorted(os.listdir(d))
    if left:
        problems.append(f"after delete_files('foo') the directory still holds {left} (before: {old_files})")
finally:
    shutil.rmtree(d)

if problems:
    print("PROPERTY VIOLATED:")
    for p in problems:
        print("  -", p)
    sys.exit(1)
print("ok")
