import shim  # noqa
import shutil, sys, tempfile
from pathlib import Path

import h5py

from metador_core.container import MetadorContainer
from metador_core.packer import PackerInfo
from metador_core.util.diff import DirDiff
from metador_core.util.hashsums import dir_hashsums

# The snapshot of the packed directory is kept in PackerInfo.source_dir (this is what
# PGPacker._finalize stores and what PGPacker.update compares against a fresh snapshot).
# The directory below is NOT changed between the two snapshots.
top = Path(tempfile.mkdtemp())
bad = []
try:
    d = top / "data"
    d.mkdir()
    (d / "report.txt ").write_text("trailing blank in the name")
    (d / " notes").mkdir()
    (d / " notes" / "n.txt").write_text("x")
    (d / "plain").write_text("y")
    (d / "plain ").write_text("z")  # differs from 'plain' only by the trailing blank

    snap = dir_hashsums(d)
    pinfo = PackerInfo.for_packer("core.generic")
    pinfo.source_dir = snap  # as in PGPacker._finalize
    with MetadorContainer(h5py.File(top / "c.h5", "w")) as mc:
        mc.meta["core.packerinfo"] = pinfo
    with MetadorContainer(h5py.File(top / "c.h5", "r")) as mc:
        stored = mc.meta["core.packerinfo"].source_dir

    fresh = dir_hashsums(d)  # same, unchanged directory
    assert fresh == snap
    diff = DirDiff.compare(stored, fresh)  # as in PGPacker.update
    print("names in directory :", sorted(fresh))
    print("names in stored snap:", sorted(stored))
    if not diff.is_empty:
        lst = [(str(p.relative_to(d)), diff.status(n).value) for p, n in diff.annotate(d).items() if n]
        print("diff of the unchanged directory:", lst)
        bad.append("unchanged directory compared with its stored snapshot reports changes")

    # a name consisting only of blanks cannot be stored at all
    (d / " ").write_text("blank name")
    try:
        pinfo.source_dir = dir_hashsums(d)
    except Exception as e:
        print("storing snapshot with a file named ' ' fails:", str(e).splitlines()[0], "...")
        bad.append("snapshot containing a file named ' ' is refused by PackerInfo")
finally:
    shutil.rmtree(top)

if bad:
    print("PROPERTY VIOLATED:")
    for b in bad:
        print("  -", b)
    sys.exit(1)
print("ok")
