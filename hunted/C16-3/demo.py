import shim  # noqa
import sys

from metador_core.plugins import harvesters, schemas, widgets
from metador_core.schema.plugins import PluginRef

problems = []

requests = [
    harvesters.PluginRef(name="core.file", version=(0, 1, 0)),
    widgets.PluginRef(name="core.file", version=(0, 1, 0)),
    PluginRef(group="no-such-group", name="core.file", version=(0, 0, 0)),
]
for req in requests:
    # by the property: which registered schema versions support this request?
    supporting = [r for r in schemas.keys() if r.supports(req)]
    expected = supporting[-1] if supporting else None  # -> None, the group differs

    got = schemas.get(req)
    got_ref = got.Plugin.ref() if got is not None else None
    same = (got_ref is None) if expected is None else (got_ref is not None and got_ref == expected)
    if not same:
        problems.append(
            f"schemas.get({req}) -> {got_ref}; no registered schema supports that reference "
            f"(group {req.group!r} != 'schema'), expected None"
        )
    if (req in schemas) != (expected is not None):
        problems.append(f"({req} in schemas) is {req in schemas}, expected {expected is not None}")
    try:
        item = schemas[req]
        if expected is None:
            problems.append(f"schemas[{req}] -> {item.Plugin.ref()}, expected KeyError")
    except KeyError:
        pass

# sanity: a reference of the right group is resolved
ok_req = schemas.PluginRef(name="core.file", version=(0, 1, 0))
assert schemas.get(ok_req) is not None and ok_req in schemas

if problems:
    print("VIOLATION: a plugin group resolves references that belong to a different group:")
    for p in problems:
        print("  -", p)
    sys.exit(1)
print("ok")
sys.exit(0)
