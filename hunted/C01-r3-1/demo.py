import shim  # noqa: F401  (must be first)

import os
import shutil
import sys
import tempfile

import numpy as np

from metador_core.ih5.container import IH5Record

# Values h5py refuses as attribute value only AFTER it removed the existing attribute
# (h5py's AttributeManager.create deletes the old attribute, then creates + writes):
BAD_VALUES = {
    "str with NUL": "a\x00b",  # "VLEN strings do not support embedded NULLs"
    "attribute > 64 KiB": np.zeros(70000),  # "object header message is too large"
}


def history(boundary_before_failed_op: bool, bad):
    """base: k=1 | patch: k=2, [boundary?], k=<bad> (fails, caught) -> return attrs of /g."""
    tmp = tempfile.mkdtemp()
    try:
        rec = IH5Record(os.path.join(tmp, "rec"), "w")
        rec.create_group("g")
        rec["g"].attrs["k"] = 1
        rec["g"].attrs["other"] = "x"
        rec.commit_patch()
        rec.create_patch()
        rec["g"].attrs["k"] = 2  # successful replacement of the value 1
        if boundary_before_failed_op:
            rec.commit_patch()
            rec.create_patch()
        try:
            rec["g"].attrs["k"] = bad
            raise SystemExit("probe is broken: the bad value was accepted")
        except (ValueError, OSError):
            pass  # the operation failed -> it is not part of the history
        ret = {k: v for k, v in rec["g"].attrs.items()}
        rec.close()
        # ... and the same after re-opening
        with IH5Record(os.path.join(tmp, "rec"), "r") as rec:
            assert ret == {k: v for k, v in rec["g"].attrs.items()}
        return ret
    finally:
        shutil.rmtree(tmp)


failed = False
for what, bad in BAD_VALUES.items():
    expected = {"k": 2, "other": "x"}  # successful operations: k=1, other=x, k=2
    for boundary in [True, False]:
        got = history(boundary, bad)
        ok = got == expected
        print(
            f"[{what}] boundary before the failed op: {boundary!s:5} -> "
            f"attrs = {got} {'(ok)' if ok else '<-- WRONG, expected ' + str(expected)}"
        )
        if got.get("k") == 1:
            print("    the REPLACED value 1 of the base container reappeared!")
        failed |= not ok

if failed:
    print("FAIL: result depends on the position of the patch boundary / old data reappears")
    sys.exit(1)
print("OK")
sys.exit(0)
