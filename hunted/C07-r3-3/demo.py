import shim  # noqa: F401  (must be first)
import os
import shutil
import sys
import tempfile

import h5py

from metador_core.container import MetadorContainer
from metador_core.plugins import schemas

File = schemas.get("core.file", (0, 1, 0))
Dir = schemas.get("core.dir", (0, 1, 0))


def fm(name):
    return File(filename=name, encodingFormat="text/plain", contentSize=3, sha256="a" * 64)


def attempt(mc, label, delete, expected):
    """Run a delete that is expected to fail; return complaints about lost metadata."""
    try:
        delete()
    except Exception as e:  # the caller catches the error and goes on
        err = f"{type(e).__name__}: {str(e)[:70]}"
    else:
        return []  # the delete worked (then the nodes are legitimately gone)
    out = []
    for path, schema, obj in expected:
        if path not in mc:
            out.append(f"{path}: node is gone although the delete failed")
            continue
        got = mc[path].meta.get(schema)
        if got != obj:
            out.append(f"{path}: node still exists, but its {schema} object is gone (get -> {got!r})")
    got_q = sorted(n.name for n in mc.metador.query("core.file"))
    exp_q = sorted("/" + p for p, s, _ in expected if s == "core.file")
    if got_q != exp_q:
        out.append(f"query('core.file') yields {got_q}, expected {exp_q}")
    if out:
        out.insert(0, f"{label} raised {err}; afterwards:")
    return out


bad = []
tmp = tempfile.mkdtemp()
try:
    # (1) the group addressed as "g/." (HDF5: "." is the group itself, mc["g/."] works)
    with MetadorContainer(h5py.File(os.path.join(tmp, "c1.h5"), "w")) as mc:
        g = mc.create_group("g")
        g["b"] = 5
        g.create_group("sub")["c"] = 1
        expected = [("g", "core.dir", Dir()), ("g/b", "core.file", fm("b")),
                    ("g/sub/c", "core.file", fm("c"))]
        for path, schema, obj in expected:
            mc[path].meta[schema] = obj
        assert mc["g/."].name == "/g"
        bad += attempt(mc, 'del mc["g/."]', lambda: mc.__delitem__("g/."), expected)

    # (2) a very deep (but valid) hierarchy: clean-up recursion hits the interpreter limit
    if True:
        with MetadorContainer(h5py.File(os.path.join(tmp, "c2.h5"), "w")) as mc:
            depth = 1000
            path = "/".join(["n"] * depth)
            mc.create_group(path)["ds"] = 1
            expected = [("n", "core.dir", Dir()), ("n/n", "core.dir", Dir()),
                        (path + "/ds", "core.file", fm("ds"))]
            for p, schema, obj in expected:
                mc.__wrapped__[p]  # exists
                mc[p].meta[schema] = obj
            # ("path in mc" of the wrapper recurses as well, so use the raw check here)
            try:
                mc.__delitem__("n")
                gone = True
            except RecursionError as e:
                gone = False
                err = f"RecursionError: {e}"
            if not gone:
                for p, schema, obj in expected:
                    if p in mc.__wrapped__ and mc[p].meta.get(schema) != obj:
                        bad.append(f'del mc["n"] ({depth} levels) raised {err}; {p[:20]}: node still '
                                   f"exists, but its {schema} object is gone")
finally:
    shutil.rmtree(tmp, ignore_errors=True)

if bad:
    print("VIOLATION: a failed delete wiped the metadata of nodes that still exist")
    print("\n".join("  " + b for b in bad))
    sys.exit(1)
print("ok: failed delete left the metadata in place")
sys.exit(0)
