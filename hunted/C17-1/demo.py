import shim  # noqa: F401  (must be first)
import hashlib
import shutil
import sys
import tempfile
from pathlib import Path

import h5py

from metador_core.container import MetadorContainer
from metador_core.ih5.container import IH5Record
from metador_core.packer.utils import pack_file

SRC = b"AAAA-source-file"  # file embedded in container A at /f
OTHER = b"a different file that happens to live at the same path in container B"


def read_bytes(ds):
    v = ds[()]
    return b"" if isinstance(v, h5py.Empty) else v.tobytes()


def problems(ds, expect: bytes, what: str):
    """Return list of complaints about an embedded file node."""
    out = []
    bs = read_bytes(ds)
    if bs != expect:
        out.append(f"{what}: bytes differ from the copied file")
    m = ds.meta.get("core.file")
    if m is None:
        out.append(f"{what}: copy has NO core.file metadata (source had it)")
        return out
    if m.contentSize != len(bs):
        out.append(f"{what}: contentSize={m.contentSize}, but node holds {len(bs)} bytes")
    if m.sha256 != hashlib.sha256(bs).hexdigest():
        out.append(f"{what}: sha256 in metadata is not the sha256 of the stored bytes")
    return out


def open_(kind, path):
    if kind == "h5":
        return MetadorContainer(h5py.File(f"{path}.h5", "w"))
    return MetadorContainer(IH5Record(path, "w"))


bad = []
d = Path(tempfile.mkdtemp())
try:
    (d / "f").write_bytes(SRC)
    (d / "o").mkdir()
    (d / "o" / "f").write_bytes(OTHER)
    (d / "h").write_bytes(b"hh")

    for kind in ("h5", "ih5"):
        A = open_(kind, d / f"A-{kind}")
        B = open_(kind, d / f"B-{kind}")
        pack_file(A, d / "f")  # A:/f  = SRC
        pack_file(A, d / "h")  # A:/h  = b"hh"
        pack_file(B, d / "o" / "f")  # B:/f  = OTHER (same path, different file)

        # copy embedded file nodes of A into B, passing the node object as source
        for src, dst, expect in (("f", "g", SRC), ("h", "h2", b"hh")):
            what = f"[{kind}] B.copy(A['{src}'], '{dst}')"
            try:
                B.copy(A[src], dst)
            except (ValueError, TypeError, NotImplementedError) as e:
                print(f"{what}: refused loudly ({type(e).__name__}: {e}) - acceptable")
                continue
            bad += problems(B[dst], expect, what)
        A.close()
        B.close()
finally:
    shutil.rmtree(d)

if bad:
    print("PROPERTY VIOLATED: copy of an embedded file does not carry its own file metadata:")
    for b in bad:
        print("  -", b)
    sys.exit(1)
print("ok: copies carry metadata matching their bytes")
sys.exit(0)
