import shim  # noqa: F401  (must be first)
import sys
from typing import List

from pydantic import Field
from typing_extensions import Annotated

from metador_core.plugin.util import register_in_group
from metador_core.plugins import schemas
from metador_core.schema import MetadataSchema
from metador_core.schema.types import NonEmptyStr

# Pydantic constraints attached the documented way ("you must use Annotated"),
# exactly like metador_core itself does (matsci.py: Field(min_items=1), ih5/record.py: Field(ge=0)).


class Sample(MetadataSchema):
    class Plugin:
        name = "hunt.sample"
        version = (0, 1, 0)

    tags: Annotated[List[NonEmptyStr], Field(min_items=1)]
    count: Annotated[int, Field(ge=0)]
    ident: Annotated[NonEmptyStr, Field(alias="@ident")]


class LaxSample(Sample):  # no @override(...) declared
    class Plugin:
        name = "hunt.laxsample"
        version = (0, 1, 0)

    tags: Annotated[List[NonEmptyStr], Field(min_items=0)]  # wider: allows []
    count: Annotated[int, Field(ge=-10)]  # wider: allows -10..-1
    ident: Annotated[NonEmptyStr, Field(alias="@key")]  # other key in the serialisation


register_in_group(schemas, Sample, violently=True)
try:
    register_in_group(schemas, LaxSample, violently=True)
except (TypeError, ValueError) as e:
    print("OK: child schema with widened field constraints was refused:", str(e)[:80])
    sys.exit(0)

print("child schema hunt.laxsample passed the plugin check without any @override")
Parent = schemas.get("hunt.sample", (0, 1, 0))
Child = schemas.get("hunt.laxsample", (0, 1, 0))

bad = 0
for kwargs in (
    dict(tags=[], count=1, ident="a"),
    dict(tags=["t"], count=-5, ident="a"),
    dict(tags=["t"], count=1, ident="a"),
):
    obj = Child(**kwargs)
    ser = obj.json()
    try:
        Parent.parse_raw(ser)
    except Exception as e:  # pydantic ValidationError
        bad += 1
        msg = str(e).replace("\n", " ")
        print(f"VIOLATION: child accepts {kwargs}, serialises to {ser},\n   but parent hunt.sample rejects it: {msg}")

sys.exit(1 if bad else 0)
