import shim  # noqa
import os, shutil, sys, tempfile
import h5py
import numpy as np
from metador_core.container import MetadorContainer
from metador_core.ih5.container import IH5Record

d = tempfile.mkdtemp()
bad = []
try:
    for drv in ("h5py", "ih5"):
        if drv == "h5py":
            raw = h5py.File(os.path.join(d, "c.h5"), "w")
        else:
            raw = IH5Record(os.path.join(d, "rec"), "w")
        mc = MetadorContainer(raw)
        mc["g/ds"] = np.array([115, 101, 99, 114, 101, 116], dtype="u1")  # b"secret"
        skel = mc["g"].restrict(skel_only=True)
        ds = skel["ds"]
        # sanity: the usual ways are refused
        for label, op in {"[()]": lambda: ds[()], "list()": lambda: list(ds)}.items():
            try:
                op()
                bad.append(f"{drv}: {label} not refused")
            except AttributeError:
                pass
        ops = {
            "bytes(ds)": lambda: bytes(ds),
            "list(reversed(ds))": lambda: [int(x) for x in reversed(ds)],
        }
        for label, op in ops.items():
            try:
                val = op()
            except Exception as e:
                print(f"ok: {drv}: {label} refused ({type(e).__name__})")
                continue
            bad.append(f"{drv}: {label} on a skel_only dataset node yields the contents: {val!r}")
        raw.close()
finally:
    shutil.rmtree(d, ignore_errors=True)

if bad:
    print("VIOLATION: skel_only dataset node yields dataset contents:")
    for b in bad:
        print("  -", b)
    sys.exit(1)
print("OK: skel_only dataset node did not yield contents")
sys.exit(0)
