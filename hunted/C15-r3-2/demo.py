import shim  # noqa
import os, shutil, sys, tempfile

import h5py
import numpy as np

from metador_core.container import MetadorContainer
from metador_core.container.wrappers import MetadorNode

d = tempfile.mkdtemp()
problems = []
try:
    mc = MetadorContainer(h5py.File(os.path.join(d, "c.h5"), "w"))
    mc["grp/data"] = np.arange(5)
    mc["other/scale"] = np.arange(5) * 10
    # everything is set up through the container interface itself (HDF5 dimension scales)
    mc["other/scale"].make_scale("t")
    mc["grp/data"].dims[0].attach_scale(mc["other/scale"])
    mc.flush()

    def snapshot():
        out = {}
        def visit(name, node):
            out[name] = {k: repr(v) for k, v in node.attrs.items()}
        mc.__wrapped__.visititems(visit)
        return out

    before = snapshot()
    node = mc["grp"].restrict(read_only=True, local_only=True, skel_only=True)
    ds = node["data"]

    # (a) mutation through the read_only node
    try:
        ds.dims[0].label = "hacked"
    except Exception:
        pass
    after = snapshot()
    if after != before:
        changed = {k for k in after if after[k] != before.get(k)}
        problems.append(f"read_only dataset: `ds.dims[0].label = ...` changed the container (attrs of {sorted(changed)})")

    # (b) navigation to an unrestricted raw node outside of the local_only group
    try:
        scale = ds.dims[0][0]
    except Exception:
        scale = None
    if scale is not None:
        if not isinstance(scale, MetadorNode):
            problems.append(f"`ds.dims[0][0]` yields an unwrapped {type(scale).__name__} '{scale.name}' (outside of local_only group /grp)")
            try:
                val = scale[()]
                problems.append(f"  ... skel_only: its contents can be read: {val!r}")
            except Exception:
                pass
            try:
                scale.file["created_via_ro_node"] = 1
                if "created_via_ro_node" in mc.__wrapped__:
                    problems.append("  ... read_only/local_only: `.file[...] = 1` on it created a root-level dataset")
            except Exception:
                pass
        else:
            for flag, v in node.acl.items():
                if v and not scale.acl[flag]:
                    problems.append(f"scale node lost flag {flag}")
    mc.close()
finally:
    shutil.rmtree(d)

if problems:
    print("VIOLATION: restrictions escaped through Dataset.dims:")
    for p in problems:
        print("  -", p)
    sys.exit(1)
print("ok: dims of a restricted dataset neither mutates nor escapes")
