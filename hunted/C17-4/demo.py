import shim  # noqa: F401  (must be first)
import shutil
import sys
import tempfile
from pathlib import Path

import h5py
from flask import Flask

from metador_core.container import MetadorContainer
from metador_core.container.provider import SimpleContainerProvider
from metador_core.ih5.container import IH5Record
from metador_core.packer.utils import pack_file
from metador_core.plugins import widgets
from metador_core.widget.server import WidgetServer

# embedded files: name -> content. The empty one is the interesting one.
FILES = {"empty.md": b"", "nul.md": b"\x00", "trail.md": b"# x\x00\x00", "text.md": b"# hello\n"}

bad = []
d = Path(tempfile.mkdtemp())
try:
    for n, bs in FILES.items():
        (d / n).write_bytes(bs)

    prov = SimpleContainerProvider()
    for kind in ("h5", "ih5"):
        if kind == "h5":
            mc = MetadorContainer(h5py.File(d / "c.h5", "w"))
        else:
            mc = MetadorContainer(IH5Record(d / "rec", "w"))
        for n in FILES:
            pack_file(mc, d / n)
        prov[kind] = mc  # remembers (driver, source) in order to re-open
        mc.close()

    # the library's own way to hand out embedded files: WidgetServer download endpoint
    ws = WidgetServer(prov, populate=False, flask_endpoint="/api")
    app = Flask("demo")
    app.register_blueprint(ws.get_flask_blueprint("api", __name__), url_prefix="/api")
    client = app.test_client()

    MarkdownWidget = widgets["core.file.text.md"]

    for kind in ("h5", "ih5"):
        for n, bs in FILES.items():
            # (1) download endpoint  GET /file/<container>/<path>
            r = client.get(f"/api/file/{kind}/{n}")
            if r.status_code != 200 or r.data != bs:
                bad.append(
                    f"[{kind}] GET /file/{kind}/{n} ({len(bs)} byte file): HTTP {r.status_code}, "
                    f"body equals file: {r.data == bs}"
                )
            # (2) Widget.file_data(): 'Return data at passed dataset node as bytes'
            mc = prov.get(kind)
            try:
                w = MarkdownWidget(mc[n], server=ws, container_id=kind)
                got = w.file_data()
                if got != bs:
                    bad.append(f"[{kind}] Widget.file_data() for {n}: returned {got!r}")
            except Exception as e:
                bad.append(
                    f"[{kind}] Widget.file_data() for {n} ({len(bs)} byte file): "
                    f"{type(e).__name__}: {e}"
                )
            finally:
                mc.close()
finally:
    shutil.rmtree(d)

if bad:
    print("PROPERTY VIOLATED: an embedded file cannot be read back through the library's readers:")
    for b in bad:
        print("  -", b)
    sys.exit(1)
print("ok: all embedded files (including the empty one) read back identically")
sys.exit(0)
