import shim  # noqa: F401  (numpy-2 shim, puts $WT/src first on sys.path)

import shutil
import sys
import tempfile
from uuid import UUID

import h5py

from metador_core.container import MetadorContainer
from metador_core.plugins import schemas


def file_meta():
    return schemas.get("core.file").parse_obj(
        {"id_": "x", "filename": "x", "contentSize": 3, "sha256": "sha256:" + "ab" * 32,
         "encodingFormat": "text/plain"}
    )


def toc_problems(path):
    """Inspect the closed container with plain h5py, return list of TOC/metadata mismatches."""
    probs = []
    with h5py.File(path, "r") as f:
        nodes = {}
        f.visititems(lambda n, o: nodes.__setitem__("/" + n, o))
        objs = {}  # path of metadata object -> (schema ep name, uuid)
        for p, o in nodes.items():
            if p.startswith("/metador_container"):
                continue
            last = p.split("/")[-1]
            if last.startswith("metador_meta_"):
                if len(o) == 0:
                    probs.append(f"empty bookkeeping group left behind: {p}")
                owner = p[: -len(last)] + last[len("metador_meta_"):]
                owner = owner.rstrip("/") or "/"
                if owner != "/" and owner not in nodes:
                    probs.append(f"metadata group {p} without its node {owner}")
                for k in o.keys():
                    ep, uuid = k.split("=")
                    objs[f"{p}/{k}"] = (ep, UUID(uuid))
        links = {}
        if "/metador_container/links" in nodes:
            if len(nodes["/metador_container/links"]) == 0:
                probs.append("empty links group")
            for ep, grp in nodes["/metador_container/links"].items():
                if len(grp) == 0:
                    probs.append(f"empty link group for {ep}")
                for uuid, ln in grp.items():
                    target = ln[()].decode("utf-8")
                    links[UUID(uuid)] = target
                    if objs.get(target) != (ep, UUID(uuid)):
                        probs.append(f"TOC link {ln.name} -> {target}: no such object")
        uuids = [u for _, u in objs.values()]
        for u in sorted(set(u for u in uuids if uuids.count(u) > 1)):
            probs.append(f"UUID {u} is carried by {uuids.count(u)} metadata objects")
        for p, (ep, uuid) in objs.items():
            if links.get(uuid) != p:
                probs.append(f"attached object without TOC link: {p}")
        used = {ep for ep, _ in objs.values()}
        stored = set(f["/metador_container/schemas"].keys()) if "/metador_container/schemas" in f else set()
        if used != stored:
            probs.append(f"schema records {sorted(stored)} != schemas in use {sorted(used)}")
        if ("/metador_container/packages" in f) != bool(used):
            probs.append("package records do not match schemas in use")
    return probs


DEPTH = 1100  # nesting depth of the group chain (python's default recursion limit is 1000)

tmp = tempfile.mkdtemp()
try:
    path = tmp + "/c.h5"
    mc = MetadorContainer(h5py.File(path, "w"))
    deep = mc.create_group("/".join(["g"] * DEPTH))  # /g/g/g/.../g
    deep.meta["core.dir"] = schemas.get("core.dir")()
    deep["d"] = 1
    deep["d"].meta["core.file"] = file_meta()
    mc.close()
    assert toc_problems(path) == []

    mc = MetadorContainer(h5py.File(path, "r+"))
    try:
        mc.copy("g", "h", without_meta=True)
        outcome = "copy succeeded"
    except Exception as e:
        outcome = f"copy raised {type(e).__name__}: {str(e)[:60]}"
    mc.close()

    probs = toc_problems(path)
    print(f"copy('g', 'h', without_meta=True) of a {DEPTH} levels deep group: {outcome}")
    if probs:
        print("VIOLATION: container bookkeeping out of sync afterwards:")
        for p in probs:
            print("  -", p if len(p) < 200 else p[:70] + " ... " + p[-110:])
        sys.exit(1)
    print("ok: TOC and attached metadata in sync")
    sys.exit(0)
finally:
    shutil.rmtree(tmp, ignore_errors=True)
