import shim  # noqa: F401  (must be first)

import shutil
import sys
import tempfile
from pathlib import Path

from metador_core.ih5.container import IH5MFRecord, IH5Record

# "An IH5MFRecord is a valid IH5Record (the manifest file then is simply ignored)".
# Merging such a record with the plain IH5Record class gives a single container
# that still claims the manifest of the newest patch (user block extension is
# inherited), but no manifest is written for it -> the library's own output is a
# one-file record that IH5MFRecord refuses to open, forever.

d = Path(tempfile.mkdtemp())
problems = []
try:
    with IH5MFRecord(d / "rec", "w") as r:
        r["a"] = 1
    with IH5MFRecord(d / "rec", "r+") as r:
        r["b"] = 2

    with IH5Record(d / "rec", "r") as r:  # plain class, documented to work
        merged = r.merge_files(d / "merged")
    print("files after merge:", sorted(p.name for p in d.iterdir()))

    with IH5Record(d / "merged", "r") as m:
        assert sorted(m.keys()) == ["a", "b"]
        print("user block extensions of merged.ih5:", m.ih5_meta[0].ub_exts)

    # the merged record is one untampered base container -> must open
    try:
        with IH5MFRecord(d / "merged", "r") as m:
            assert sorted(m.keys()) == ["a", "b"]
    except Exception as e:
        problems.append(
            "the merged record (one base container, untouched since the library "
            f"wrote it) is rejected by IH5MFRecord: {type(e).__name__}: {e}"
        )
    # ... and must be patchable as IH5MFRecord like any other IH5 record
    if not problems:
        with IH5MFRecord(d / "merged", "r+") as m:
            m["c"] = 3
        with IH5MFRecord(d / "merged", "r") as m:
            assert sorted(m.keys()) == ["a", "b", "c"]
finally:
    shutil.rmtree(d, ignore_errors=True)

if problems:
    print("PROPERTY VIOLATED:")
    for p in problems:
        print(" -", p)
    sys.exit(1)
print("ok")
sys.exit(0)
