import shim  # noqa: F401  (must be first)
import os
import shutil
import sys
import tempfile

import h5py
import numpy as np

from metador_core.container import MetadorContainer, MetadorNode
from metador_core.ih5.container import IH5Record

FILE = dict(id_="x", filename="x", encodingFormat="text/plain", contentSize=1,
            sha256="sha256:" + "0" * 64)


def visible(mc):
    out = []
    mc.visit(out.append)
    return sorted(out)


def run(label, raw):
    problems = []
    mc = MetadorContainer(raw)
    mc["g/x"] = np.arange(3)
    mc["g"].meta["core.file"] = FILE

    # a local-only view of the group (documented way to hand a sub-tree to other code)
    view = mc["g"].restrict(local_only=True)
    info = list(view.meta.values())[0]  # public: StoredMetadata of the attached object
    n = info.node
    if isinstance(n, MetadorNode) and "metador_" in n.name:
        print(label, f"meta.values() of a restricted node hands out a container node "
              f"({type(n).__name__}) for the bookkeeping entity {n.name}")
        # ... and the container interface accepts it like a user node:
        try:
            n.meta["core.file"] = FILE  # attach metadata TO a bookkeeping dataset
            problems.append("metadata could be attached to that bookkeeping dataset (written inside /g/metador_meta_)")
        except Exception as e:  # noqa: BLE001
            print(label, "attaching metadata to the bookkeeping node was refused:", repr(e))
        try:
            mc.copy(n, "leak")  # use it as copy source
            if "leak" in visible(mc):
                problems.append("bookkeeping dataset could be copied into the user tree as /leak")
                del mc["leak"]
        except Exception as e:  # noqa: BLE001
            print(label, "copy of the bookkeeping node was refused:", repr(e))

    # the user data must not be disturbed by any of this
    for what, op in [
        ("list metadata of /g", lambda: list(mc["g"].meta.keys())),
        ("query container", lambda: [x.name for x in mc.metador.query("core.file")]),
        ("delete /g", lambda: mc.__delitem__("g")),
    ]:
        try:
            op()
        except Exception as e:  # noqa: BLE001
            problems.append(f"afterwards '{what}' fails with {type(e).__name__}({e})")
    if "g" in visible(mc):
        problems.append("user group /g cannot be deleted any more")
    mc.close()
    return [f"[{label}] {p}" for p in problems]


tmp = tempfile.mkdtemp()
problems = []
try:
    problems += run("h5py", h5py.File(os.path.join(tmp, "c.h5"), "w"))
    problems += run("ih5", IH5Record(os.path.join(tmp, "rec"), "w"))
finally:
    shutil.rmtree(tmp, ignore_errors=True)

if problems:
    print("PROPERTY VIOLATED:")
    for p in problems:
        print(" -", p)
    sys.exit(1)
print("ok")
sys.exit(0)
