import shim  # noqa
import sys

from metador_core.plugin.interface import PluginGroup
from metador_core.plugin.util import check_implements_method, register_in_group


class DummyBase:
    def perform(self):
        ...


class PGDummy(PluginGroup):
    class Plugin:
        name = "dummy"
        version = (0, 1, 0)
        plugin_class = DummyBase

    def check_plugin(self, ep_name, plugin):
        check_implements_method(ep_name, plugin, DummyBase.perform)


def make(version, valid=True):
    class P(DummyBase):
        class Plugin:
            name = "test.plugin"

        if valid:

            def perform(self):
                ...

    P.Plugin.version = version
    P.__qualname__ = P.__name__ = f"P{'_'.join(map(str, version))}{'' if valid else '_invalid'}"
    return P


problems = []
pg = PGDummy({})
A, B, C = make((0, 1, 0)), make((0, 2, 0)), make((1, 0, 0))
for p in (C, A, B):
    register_in_group(pg, p, violently=True)
expected = [(0, 1, 0), (0, 2, 0), (1, 0, 0)]
assert [r.version for r in pg.versions("test.plugin")] == expected

# step 1: the same plugin is registered again (e.g. a notebook cell is run twice)
register_in_group(pg, A, violently=True)
listed = [r.version for r in pg.versions("test.plugin")]
print("after registering 0.1.0 a second time:", listed)
if listed != expected:
    problems.append(f"registering version 0.1.0 twice: versions() lists {listed}, expected {expected}")
if len(list(pg.keys())) != len(set(pg.keys())):
    problems.append(f"keys() contains the same reference more than once: {[r.version for r in pg.keys()]}")

# step 2: an invalid class for an already registered (name, version) is rejected - and the caller catches the error
Bad = make((0, 2, 0), valid=False)
try:
    register_in_group(pg, Bad, violently=True)
    problems.append("invalid plugin was accepted")
except TypeError as e:
    print("rejected as it should be:", e)
listed = [r.version for r in pg.versions("test.plugin")]
got = pg.get("test.plugin", (0, 2, 0))
print("after the rejected registration:", listed, "| get(0.2.0) ->", got)
if listed.count((0, 2, 0)) != 1:
    problems.append(f"after a rejected re-registration versions() lists {listed}")
if got is not B:
    problems.append(
        f"after a rejected re-registration get('test.plugin', (0,2,0)) hands out {got!r}, "
        f"the class that failed the checks, instead of the registered {B!r}"
    )

if problems:
    print("VIOLATION:")
    for p in problems:
        print("  -", p)
    sys.exit(1)
print("ok")
sys.exit(0)
