import shim  # noqa: F401  (must be first)
import os
import shutil
import sys
import tempfile

import h5py

from metador_core.container import MetadorContainer
from metador_core.plugins import schemas

FileMeta = schemas.get("core.file", (0, 1, 0))


def fm(name):
    return FileMeta(
        id_=name, filename=name, encodingFormat="text/plain", contentSize=3,
        sha256="sha256:" + "0" * 64,
    )


problems = []
tmp = tempfile.mkdtemp()
try:
    mc = MetadorContainer(h5py.File(os.path.join(tmp, "c.h5"), "w"))
    g = mc.create_group("g")
    g["d"] = [1, 2, 3]
    g["d"].meta["core.file"] = fm("d")
    before = sorted(n.name for n in mc.metador.query("core.file"))

    # value given as node object instead of data. Link-like values (h5py.HardLink, SoftLink, ...) are refused
    # by MetadorGroup.__setitem__ and an IH5Record refuses this form ("Hard links are not supported"),
    # so the call must either be refused or create an independent node.
    accepted = True
    try:
        mc["alias"] = mc["g/d"]
    except Exception as e:  # any refusal is fine
        accepted = False
        print("refused:", e)

    carrying = sorted(
        p for p in ("/alias", "/g/d") if p in mc and "core.file" in mc[p].meta
    )
    after = sorted(n.name for n in mc.metador.query("core.file"))
    after_g = sorted(n.name for n in mc["g"].metador.query("core.file"))
    print("accepted:", accepted, "| nodes carrying core.file:", carrying)
    print("query before:", before, "| query after:", after, "| query below /g after:", after_g)
    if after != carrying:
        problems.append(
            f"container query('core.file') = {after}, but the nodes carrying a core.file object are {carrying}"
        )
    if after_g != [p for p in carrying if p.startswith("/g/")]:
        problems.append(
            f"group query below /g = {after_g}, but below /g the nodes carrying core.file are "
            f"{[p for p in carrying if p.startswith('/g/')]}"
        )
    mc.close()
finally:
    shutil.rmtree(tmp, ignore_errors=True)

if problems:
    print("PROPERTY VIOLATED:")
    for p in problems:
        print("  -", p)
    sys.exit(1)
print("ok")
sys.exit(0)
