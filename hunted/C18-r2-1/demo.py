import shim  # noqa
import os, shutil, sys, tempfile
from pathlib import Path

from metador_core.util.diff import DirDiff
from metador_core.util.hashsums import dir_hashsums

# A link target containing ".." AFTER a component that is itself a symlink to a directory.
# The kernel follows the symlink first and applies ".." to the place it leads to;
# rel_symlink() uses os.path.normpath, which cancels "a/.." textually.
top = Path(tempfile.mkdtemp())
bad = []
try:
    # (A) two different trees -> equal snapshots -> empty diff
    d = top / "A"
    (d / "sub" / "deep").mkdir(parents=True)
    (d / "b").write_text("top b")
    (d / "sub" / "b").write_text("sub b")
    os.symlink("sub/deep", d / "a")  # in-directory link to a directory
    os.symlink("b", d / "l")  # l -> b        (the file A/b)
    before, content_before = dir_hashsums(d), (d / "l").read_text()
    os.unlink(d / "l")
    os.symlink("a/../b", d / "l")  # l -> a/../b  = sub/deep/../b = A/sub/b
    after, content_after = dir_hashsums(d), (d / "l").read_text()
    diff = DirDiff.compare(before, after)
    print(f"(A) l read {content_before!r} before and {content_after!r} after re-targeting")
    print(f"    recorded before: {before['l']!r}, after: {after['l']!r}; diff empty: {diff.is_empty}")
    if diff.is_empty or diff.get("l") is None:
        bad.append("(A) link l was re-targeted from A/b to A/sub/b, but the diff reports no change")
    elif after["l"] != "symlink:sub/b":
        bad.append(f"(A) new entry of l is {after['l']!r}, the link points to sub/b")

    # (B) a link that really leaves the directory is accepted (and recorded as a path inside)
    d = top / "B"
    (d / "sub").mkdir(parents=True)
    (top / "secret").write_text("outside")
    os.symlink("..", d / "sub" / "up")  # sub/up -> B   (inside)
    os.symlink("up/../secret", d / "sub" / "l")  # B/../secret = top/secret (OUTSIDE)
    real = os.path.realpath(d / "sub" / "l")
    print(f"(B) sub/l resolves to {real} (base is {d})")
    try:
        h = dir_hashsums(d)
        print(f"    accepted, recorded as {h['sub']['l']!r}")
        bad.append(f"(B) out-of-directory symlink accepted and recorded as {h['sub']['l']!r}")
    except ValueError as e:
        print("    rejected:", e)

    # (C) a link that stays inside is rejected as pointing outside
    d = top / "C"
    (d / "sub" / "deep").mkdir(parents=True)
    (d / "x").write_text("x")
    os.symlink("sub/deep", d / "a")
    os.symlink("a/../../x", d / "l")  # sub/deep/../../x = C/x (inside)
    print(f"(C) l resolves to {os.path.realpath(d / 'l')} (base is {d})")
    try:
        h = dir_hashsums(d)
        print(f"    accepted, recorded as {h['l']!r}")
        if h["l"] != "symlink:x":
            bad.append(f"(C) l recorded as {h['l']!r}, expected 'symlink:x'")
    except ValueError as e:
        print("    rejected:", e)
        bad.append("(C) in-directory symlink rejected as pointing outside")
finally:
    shutil.rmtree(top)

if bad:
    print("PROPERTY VIOLATED:")
    for b in bad:
        print("  -", b)
    sys.exit(1)
print("ok")
