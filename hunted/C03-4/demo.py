import shim  # noqa
import os, shutil, sys, tempfile
from pathlib import Path

from metador_core.ih5.container import IH5Record

d = tempfile.mkdtemp()
problems = []
try:
    other = Path(d) / "foo\n"  # documented as invalid (only A-Za-z0-9 and '-'), must be refused
    try:
        with IH5Record(other, "w") as o:
            o["other"] = 1
    except ValueError as e:
        print("name refused, as documented:", e)
        print("ok")
        sys.exit(0)
    problems.append(f"record name {other.name!r} was accepted; files now: {sorted(os.listdir(d))!r}")

    foo = Path(d) / "foo"
    # record 'foo' is absent: 'r' must fail with FileNotFoundError, 'a' must create a fresh record
    got = IH5Record.find_files(foo)
    if got:
        problems.append(f"find_files('foo') returns files of the other record: {[p.name for p in got]!r}")
    try:
        with IH5Record(foo, "r") as r:
            problems.append(f"IH5Record('foo','r') on an absent record opened {[p.name for p in r.ih5_files]!r} with keys {sorted(r.keys())}")
    except FileNotFoundError:
        pass
    with IH5Record(foo, "a") as r:
        if "other" in r:
            problems.append("IH5Record('foo','a') did not create 'foo' but continued the other record "
                            f"(files {[p.name for p in r.ih5_files]!r})")
        r["mine"] = 1
    # 'w' on foo must replace only foo
    with IH5Record(foo, "w") as r:
        r["mine"] = 2
    if not (Path(d) / "foo\n.ih5").is_file():
        problems.append("IH5Record('foo','w') deleted the base container of the other record")
    try:
        with IH5Record(foo, "r") as r:
            if sorted(r.keys()) != ["mine"]:
                problems.append(f"reopened 'foo' shows {sorted(r.keys())}")
    except Exception as e:
        problems.append(f"reopening 'foo' by name fails: {type(e).__name__}: {e}")
finally:
    shutil.rmtree(d)

print("VIOLATION: records with prefix-related names in one directory are mixed up:")
for x in problems:
    print("  -", x)
sys.exit(1)
