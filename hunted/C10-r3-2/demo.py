import shim  # noqa: F401  (must be first)
import shutil
import sys
import tempfile
from pathlib import Path

from metador_core.ih5.container import IH5MFRecord
from metador_core.ih5.manifest import IH5Manifest, IH5UBExtManifest
from metador_core.ih5.record import IH5UserBlock, hashsum_file

# merge_files() of an IH5MFRecord that was opened with an explicitly given manifest file
# (manifest_file=..., the way a stub-made patch + its manifest are attached to the real
# record) writes the LIVE manifest object instead of the committed manifest file.
# If the user meanwhile put something into record.manifest.manifest_exts (the documented
# way to prepare extensions for the next commit), the merged container records a
# manifest hashsum that does not match the manifest written next to it,
# and the merged record cannot be opened any more.

tmp = Path(tempfile.mkdtemp())
problems = []
try:
    # the real record
    with IH5MFRecord(tmp / "real", "w") as r:
        r["a/b"] = 1
        r.commit_patch(manifest_exts={"k": 1})
        real_files = r.ih5_files
        real_mf = Path(f"{real_files[-1]}mf.json")

    # a patch made "in thin air" on top of a stub, kept (with its manifest) elsewhere
    with IH5MFRecord.create_stub(tmp / "stub", real_mf) as stub:
        stub.create_patch()
        stub["a/c"] = 2
        stub.commit_patch()
        patch_file = stub.ih5_files[-1]
    upload = tmp / "upload"
    upload.mkdir()
    shutil.move(str(patch_file), upload / "patch.ih5")
    shutil.move(f"{patch_file}mf.json", upload / "patch-manifest.json")

    # attach the patch to the real record, then merge everything into one container
    files = real_files + [upload / "patch.ih5"]
    rec = IH5MFRecord(files, "r", manifest_file=upload / "patch-manifest.json")
    rec.manifest.manifest_exts["note"] = "prepared for the next patch"
    merged = rec.merge_files(tmp / "merged")
    rec.close()

    # the property: manifest on disk matches hash + UUID recorded in its container
    ext = IH5UBExtManifest.get(IH5UserBlock.load(merged))
    merged_mf = Path(f"{merged}mf.json")
    if ext is None or not merged_mf.is_file():
        problems.append("merged container has no manifest")
    else:
        if hashsum_file(merged_mf) != ext.manifest_hashsum:
            problems.append(
                f"manifest hashsum recorded in {merged.name}: {ext.manifest_hashsum}\n"
                f"    hashsum of {merged_mf.name} on disk: {hashsum_file(merged_mf)}"
            )
        if IH5Manifest.parse_file(merged_mf).manifest_uuid != ext.manifest_uuid:
            problems.append("manifest UUID differs")
    try:
        with IH5MFRecord(tmp / "merged", "r") as m:
            assert "a/c" in m and "a/b" in m
    except Exception as e:  # noqa
        problems.append(f"merged record cannot be opened: {type(e).__name__}: {e}")
finally:
    shutil.rmtree(tmp, ignore_errors=True)

if problems:
    print("VIOLATION: merged container and its manifest do not match")
    for p in problems:
        print("  " + p)
    sys.exit(1)
print("ok: merged container matches its manifest")
sys.exit(0)
