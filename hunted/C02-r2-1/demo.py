import shim  # noqa
import shutil
import sys
import tempfile
from pathlib import Path

from metador_core.ih5.container import IH5MFRecord

# A committed IH5MFRecord consists of the container AND its manifest sidecar
# (<container>mf.json). The sidecar is made to be kept/shipped separately from the
# (large) data container (stub creation works from the sidecar alone), so a directory
# that holds the sidecar of a committed container, but not the container, is normal.
#
# Property: nothing done later through the API changes a byte of a committed
# container or of its manifest sidecar - updates land exclusively in NEW files.

tmp = Path(tempfile.mkdtemp())
problems = []


def committed_record(work: Path, archive: Path):
    """Commit record 'rec', then move the data container into the archive.

    The sidecar stays in the working directory (like for stub-based patching)."""
    work.mkdir()
    archive.mkdir()
    with IH5MFRecord(work / "rec", "w") as r:
        r["data"] = [1, 2, 3]
        r.attrs["state"] = "as committed"
    shutil.move(str(work / "rec.ih5"), str(archive / "rec.ih5"))
    return (work / "rec.ih5mf.json").read_bytes()


def check(label: str, work: Path, archive: Path, sidecar_before: bytes, exc):
    now = (work / "rec.ih5mf.json").read_bytes()
    if now != sidecar_before:
        problems.append(f"{label}: manifest sidecar of the committed container was overwritten")
        # the files that existed after the commit are no valid record anymore:
        chk = work.parent / (work.name + "-chk")
        chk.mkdir()
        shutil.copy(archive / "rec.ih5", chk / "rec.ih5")
        shutil.copy(work / "rec.ih5mf.json", chk / "rec.ih5mf.json")
        try:
            IH5MFRecord(chk / "rec", "r").close()
        except Exception as e:
            problems.append(f"{label}:   -> committed container + its sidecar: {e}")
    else:
        print(f"{label}: sidecar untouched ({'refused: ' + repr(exc) if exc else 'ok'})")


try:
    # 1.-3.: open modes that create a record only if it does not exist yet
    for i, mode in enumerate(["a", "x", "w-"]):
        work, archive = tmp / f"work{i}", tmp / f"archive{i}"
        before = committed_record(work, archive)
        exc = None
        try:
            with IH5MFRecord(work / "rec", mode) as r:
                r["other"] = "unrelated"
        except Exception as e:  # refusing is fine (like create_stub does)
            exc = e
        check(f"IH5MFRecord(rec, '{mode}')", work, archive, before, exc)

    # 4.: merging another record into a fresh container of that name
    work, archive = tmp / "work9", tmp / "archive9"
    before = committed_record(work, archive)
    with IH5MFRecord(work / "src", "w") as r:
        r["x"] = 1
    exc = None
    src = IH5MFRecord(work / "src", "r")
    try:
        src.merge_files(work / "rec")
    except Exception as e:
        exc = e
    src.close()
    check("merge_files(rec)", work, archive, before, exc)
finally:
    shutil.rmtree(tmp)

if problems:
    print("PROPERTY VIOLATED:")
    for p in problems:
        print("  ", p)
    sys.exit(1)
print("ok")
