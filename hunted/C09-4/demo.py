import shim  # noqa
"""group.get(path[, default]) for a path that leads through a dataset: default on h5py, ValueError on IH5."""
import os, shutil, sys, tempfile
import h5py
from metador_core.container import MetadorContainer
from metador_core.ih5.container import IH5Record, IH5MFRecord

CHECKS = {
    'mc.get("g/ds/x")': lambda mc: mc.get("g/ds/x"),
    'mc.get("g/ds/x", 42)': lambda mc: mc.get("g/ds/x", 42),
    'mc.get("/g/ds/x/y", "dflt")': lambda mc: mc.get("/g/ds/x/y", "dflt"),
    'mc["g"].get("ds/x", 42)': lambda mc: mc["g"].get("ds/x", 42),
    'mc.get("g/nope/x", 42)  [control: really missing]': lambda mc: mc.get("g/nope/x", 42),
    '"g/ds/x" in mc            [control]': lambda mc: "g/ds/x" in mc,
}


def run(raw):
    mc = MetadorContainer(raw)
    mc["g/ds"] = 1
    res = {}
    for label, fn in CHECKS.items():
        try:
            res[label] = ("ok", fn(mc))
        except Exception as e:
            res[label] = ("raises", type(e).__name__ + ": " + str(e))
    return res


tmp = tempfile.mkdtemp()
try:
    f = h5py.File(os.path.join(tmp, "plain.h5"), "w")
    ref = run(f)
    f.close()
    bad = False
    for cls in (IH5Record, IH5MFRecord):
        r = cls(os.path.join(tmp, "rec" + cls.__name__), "w")
        got = run(r)
        r.close()
        for label in CHECKS:
            if ref[label] != got[label]:
                bad = True
                print(f"{cls.__name__}: {label}: h5py.File -> {ref[label]}, IH5 -> {got[label]}")
    if bad:
        print("VIOLATION: get() with a path through a dataset returns the default on h5py.File but raises on IH5")
        sys.exit(1)
    print("ok: same outcome on both drivers")
finally:
    shutil.rmtree(tmp)
