import shim  # noqa
import os, shutil, sys, tempfile
import h5py
import numpy as np
from metador_core.container import MetadorContainer

d = tempfile.mkdtemp()
bad = []
try:
    with MetadorContainer(h5py.File(os.path.join(d, "c.h5"), "w")) as mc:
        mc.create_dataset("g/ds", data=np.arange(6), maxshape=(None,))
        before = mc["g/ds"][()].tolist()

        starts = {
            "mc['g'].restrict(read_only=True)['ds']": lambda: mc["g"].restrict(read_only=True)["ds"],
            "mc['g/ds'].restrict(read_only=True)": lambda: mc["g/ds"].restrict(read_only=True),
            "ro.parent['g/ds'] (navigated)": lambda: mc["g"].restrict(read_only=True).parent["g/ds"],
        }
        for label, get in starts.items():
            ds = get()
            assert ds.acl[next(k for k in ds.acl if k.name == "read_only")]
            # sanity: the method form is refused
            try:
                ds.resize((2,))
                bad.append(f"{label}: resize() not refused")
            except AttributeError:
                pass
            # the documented h5py way to resize by assignment
            try:
                ds.shape = (2,)
                refused = False
            except Exception as e:
                refused = True
                print(f"ok: {label}: 'ds.shape = (2,)' refused ({type(e).__name__})")
            after = mc["g/ds"][()].tolist()
            if not refused or after != before:
                bad.append(
                    f"{label}: 'ds.shape = (2,)' on a read_only node "
                    f"{'was accepted' if not refused else 'raised'}; data before={before} after={after}"
                )
            mc["g/ds"].resize((6,))
            mc["g/ds"][...] = np.arange(6)
finally:
    shutil.rmtree(d, ignore_errors=True)

if bad:
    print("VIOLATION: read_only dataset node mutated (attribute assignment is passed to the raw node):")
    for b in bad:
        print("  -", b)
    sys.exit(1)
print("OK: read_only dataset could not be resized")
sys.exit(0)
