import shim  # noqa
import shutil
import sys
import tempfile
from pathlib import Path
from typing import Optional, Union

from metador_core.harvester import harvest
from metador_core.schema import MetadataSchema
from metador_core.schema.common import schemaorg
from metador_core.schema.core import check_types


class Base(MetadataSchema):
    name: Optional[str]


class Special(Base):
    code: str  # mandatory in the subclass


class Holder(MetadataSchema):
    item: Optional[Union[Special, Base]]  # same shape as schemaorg.Product.category


check_types(Holder)
check_types(schemaorg.Product)
problems = []

objs = {
    "generated schema": Holder(item=Base(name="x")),
    "installed schemaorg.Product": schemaorg.Product.parse_obj(
        {"name": "screw", "category": {"name": "hardware"}}
    ),
}
tmp = Path(tempfile.mkdtemp())
try:
    for label, obj in objs.items():
        cls = type(obj)
        P = cls.Partial
        ways = {
            "to_partial(obj)": lambda: P.to_partial(obj),
            "to_partial(obj.dict())": lambda: P.to_partial(obj.dict()),
            "parse_raw(obj.json())": lambda: P.parse_raw(obj.json()),
            "parse_raw(obj.yaml())": lambda: P.parse_raw(obj.yaml()),
            "empty.merge_with(obj.dict())": lambda: P().merge_with(obj.dict()),
        }
        for way, mk in ways.items():
            try:
                back = mk().from_partial()
                if back != obj or type(back) is not cls:
                    problems.append(f"{label}, {way}: got {back!r}")
            except Exception as e:  # noqa
                problems.append(
                    f"{label}, {way}: from_partial raised {type(e).__name__}: {' '.join(str(e).split())}"
                )
        # the library's own route: a metadata file as harvesting source
        f = tmp / "meta.yaml"
        f.write_text(obj.yaml())
        assert cls.parse_file(f) == obj  # the file is valid for the complete schema
        try:
            if harvest(cls, [f]) != obj:
                problems.append(f"{label}, harvest(file): different object")
        except Exception as e:  # noqa
            problems.append(
                f"{label}, harvest(cls, [file]): raised {type(e).__name__}: {' '.join(str(e).split())}"
            )
finally:
    shutil.rmtree(tmp)

if problems:
    print("PROPERTY VIOLATED (complete object -> partial -> complete object):")
    for p in problems:
        print(" -", p)
    sys.exit(1)
print("ok")
