import shim  # noqa: F401  (must be first)
import sys

from metador_core.plugins import schemas
from metador_core.schema import MetadataSchema
from metador_core.schema.decorators import add_const_fields
from metador_core.schema.types import Int


@add_const_fields({"kind": "sample"})
class Sample(MetadataSchema):
    """User-defined schema with a declared constant field."""

    weight: Int


failed = False

# constants are ignored on input (fine):
s = Sample(weight=1, kind="something else")
assert s.kind == "sample"

# ... but a (validated!) attribute assignment replaces the constant:
s.kind = "something else"
out = s.json_dict()
if out.get("kind") != "sample":
    failed = True
    print(f"VIOLATION [user schema]: constant field 'kind' is {out.get('kind')!r} in the output, declared constant is 'sample'")
for fname, raw in (("json", s.json()), ("yaml", s.yaml()), ("bytes", bytes(s))):
    back = Sample.parse_raw(raw)
    if back != s:
        failed = True
        print(f"VIOLATION [user schema, {fname}]: read back {back.json()} != original {s.json()}")

# same with the JSON-LD constants of an installed schema
Person = schemas.get("core.person", (0, 1, 0))
p = Person(name="Jane Doe")
setattr(p, "@type", "Organization")
out = p.json_dict()
if out.get("@type") != "Person":
    failed = True
    print(f"VIOLATION [core.person]: constant '@type' is {out.get('@type')!r} in the output, declared constant is 'Person'")
if Person.parse_raw(p.json()) != p:
    failed = True
    print(f"VIOLATION [core.person]: read back {Person.parse_raw(p.json()).json()} != original {p.json()}")

sys.exit(1 if failed else 0)
