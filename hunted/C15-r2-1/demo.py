import shim  # noqa
import os, shutil, sys, tempfile
import h5py
from metador_core.container import MetadorContainer

d = tempfile.mkdtemp()
bad = []
try:
    with MetadorContainer(h5py.File(os.path.join(d, "c.h5"), "w")) as mc:
        mc["top_secret"] = 42
        mc.create_group("g/sub")

        def outside(node):
            n = node.name
            return not (n == "/g" or n.startswith("/g/"))

        # sanity: the plain way up is refused
        L = mc["g"].restrict(local_only=True)
        try:
            L.parent
            bad.append("L.parent was not refused at all")
        except AttributeError:
            pass

        chains = {
            "L['.'].parent": lambda: L["."].parent,
            "L.get('.').parent": lambda: L.get(".").parent,
            "L.require_group('.').parent": lambda: L.require_group(".").parent,
            "L['sub']['.'].parent.parent": lambda: L["sub"]["."].parent.parent,
            "L['./sub/.'].parent.parent": lambda: L["./sub/."].parent.parent,
        }
        for label, chain in chains.items():
            try:
                node = chain()
            except Exception as e:  # refused -> fine
                print(f"ok: {label} refused ({type(e).__name__})")
                continue
            if outside(node):
                leaked = node["top_secret"][()] if "top_secret" in node else None
                bad.append(
                    f"{label} yields node '{node.name}' above the local_only node '/g' "
                    f"(acl={ {k.name: v for k, v in node.acl.items()} }), "
                    f"read /top_secret through it: {leaked}"
                )
            else:
                print(f"ok: {label} stays inside ({node.name})")
finally:
    shutil.rmtree(d, ignore_errors=True)

if bad:
    print("VIOLATION: local_only node escaped by navigating through '.':")
    for b in bad:
        print("  -", b)
    sys.exit(1)
print("OK: nothing above the local_only node was reachable")
sys.exit(0)
