import shim  # noqa
import os, shutil, sys, tempfile

import h5py
import numpy as np
from metador_core.container import MetadorContainer
from metador_core.plugins import schemas


def bib(name):
    BibMeta = schemas.get("core.bib", (0, 1, 0))
    Person = BibMeta.Fields.author.schemas.Person
    return BibMeta(name=name, abstract="x", dateCreated="2023-01-23",
                   author=[Person(name="Jane Doe")], creator=Person(name="Jane Doe"))


def names(grp):
    out = []
    grp.visit(out.append)
    return out


def user_ops(f, log):
    """The same user operations, applied to a container or to a plain h5py.File."""
    f["d"] = 1
    f["g/e"] = [1, 2]
    f["g/h/f"] = "txt"
    f["g/t"] = np.dtype("int32")  # h5py: assigning a dtype commits a named datatype
    for label, op in [
        ("move g/t -> g/t2", lambda: f.move("g/t", "g/t2")),
        ("del g/h", lambda: f.__delitem__("g/h")),
        ("del g", lambda: f.__delitem__("g")),
    ]:
        try:
            op()
            log.append((label, "ok"))
        except Exception as e:
            log.append((label, f"{type(e).__name__}: {e}"))


def refused_cleanly(d):
    """An acceptable behaviour: the container refuses named datatypes up front (like links)."""
    mc = MetadorContainer(h5py.File(os.path.join(d, "probe.h5"), "w"))
    try:
        mc["t"] = np.dtype("int32")
    except Exception:
        ok = "t" not in mc
        mc.close()
        return ok
    mc.close()
    return False


def main():
    d = tempfile.mkdtemp()
    bad = []
    try:
        if refused_cleanly(d):
            print("ok: named datatypes are refused by the container without effect")
            return
        plain = h5py.File(os.path.join(d, "plain.h5"), "w")
        plog = []
        user_ops(plain, plog)
        plain_tree = names(plain)
        plain.close()

        mc = MetadorContainer(h5py.File(os.path.join(d, "c.h5"), "w"))
        mlog = []
        # container: same ops; additionally some metadata is attached (must not matter for the tree)
        mc["k"] = 0
        mc["k"].meta["core.bib"] = bib("k")
        del mc["k"]
        user_ops(mc, mlog)
        mc_tree = names(mc)
        if mlog != plog:
            bad.append(f"operation outcomes differ:\n     plain     {plog}\n     container {mlog}")
        if mc_tree != plain_tree:
            bad.append(f"user-visible tree differs: plain {plain_tree} container {mc_tree}")

        # second part: the failed `del` had side effects, and queries break
        mc2 = MetadorContainer(h5py.File(os.path.join(d, "c2.h5"), "w"))
        mc2["g/e"] = 1
        mc2["g/x/y"] = 2
        mc2["g/zt"] = np.dtype("float64")
        for p in ["g", "g/e", "g/x"]:
            mc2[p].meta["core.bib"] = bib(p)
        before = {p: sorted(mc2[p].meta.keys()) for p in ["g", "g/e", "g/x"]}
        try:
            del mc2["g"]
            res = "ok"
        except Exception as e:
            res = f"{type(e).__name__}: {e}"
        if "g" in mc2:
            after = {p: sorted(mc2[p].meta.keys()) for p in ["g", "g/e", "g/x"]}
            if res != "ok" and after != before:
                bad.append(f"`del mc['g']` failed ({res}) but destroyed metadata: {before} -> {after}")
        try:
            list(mc2.metador.query("core.bib"))
        except Exception as e:
            bad.append(f"metador.query crashes once a named datatype exists: {type(e).__name__}: {e}")
        mc2.close()
        mc.close()
    finally:
        shutil.rmtree(d, ignore_errors=True)
    if bad:
        for b in bad:
            print("VIOLATION:", b)
        sys.exit(1)
    print("ok: container behaves like the plain tree")


main()
