import shim  # noqa: F401  (must be first)
import sys

from pydantic import Extra

from metador_core.plugin.util import register_in_group
from metador_core.plugins import schemas
from metador_core.schema import MetadataSchema
from metador_core.schema.decorators import add_const_fields
from metador_core.schema.ld import LDIdRef, ld
from metador_core.schema.types import Int


class Closed(MetadataSchema):
    """A schema that does not tolerate unknown fields (like ld.LDIdRef or plugins.PluginRef)."""

    class Plugin:
        name = "hunt.closed"
        version = (0, 1, 0)

    class Config:
        extra = Extra.forbid

    x: Int


# control: the library knows that new fields in the child break parent compatibility here
try:

    class ClosedPlus(Closed):
        y: Int

    print("control: child with a new ordinary field was NOT refused")
except TypeError as e:
    print("control: child with a new ordinary field is refused:", e)


try:

    @add_const_fields({"kind": "special"})  # adds a NEW (constant) field, always dumped
    class ClosedKind(Closed):
        class Plugin:
            name = "hunt.closedkind"
            version = (0, 1, 0)

    register_in_group(schemas, Closed, violently=True)
    register_in_group(schemas, ClosedKind, violently=True)
except (TypeError, ValueError) as e:
    print("OK: child adding a constant field to a parent that forbids extra fields was refused:", str(e)[:80])
    sys.exit(0)

print("child schema hunt.closedkind (new constant field 'kind') passed class creation and the plugin check")
bad = 0
obj = ClosedKind(x=1)
ser = obj.json()
try:
    Closed.parse_raw(ser)
except Exception as e:
    bad += 1
    msg = str(e).replace("\n", " ")
    print(f"VIOLATION: child accepts x=1, serialises to {ser},\n   but parent hunt.closed rejects it: {msg}")

# the same with the library's own closed schema and its own JSON-LD decorator: a typed @id reference
try:

    @ld(type="Dataset")
    class DatasetRef(LDIdRef):
        pass

    ser = DatasetRef(id_="#ds").json()
    try:
        LDIdRef.parse_raw(ser)
    except Exception as e:
        bad += 1
        msg = str(e).replace("\n", " ")
        print(f"VIOLATION: @ld(type=...) child of LDIdRef serialises to {ser},\n   but parent LDIdRef rejects it: {msg}")
except (TypeError, ValueError) as e:
    print("OK: @ld(type=...) on a child of LDIdRef was refused:", str(e)[:80])

sys.exit(1 if bad else 0)
