import shim  # noqa
import sys
from typing import List, Optional

from metador_core.schema import MetadataSchema


class A(MetadataSchema):  # schemas keep extra fields by default (Extra.allow)
    x: Optional[int]
    l: Optional[List[int]]


problems = []
P = A.Partial

# complete object with an extra field whose name starts with an underscore
a = A.parse_obj({"x": 0, "_comment": "keep me", "note": ""})
assert a.dict()["_comment"] == "keep me" and A.parse_raw(a.json()) == a
back = P.to_partial(a).from_partial()
if back != a:
    problems.append(f"complete -> partial -> complete differs: {a.dict()} -> {back.dict()}")

# identity law with a partial parsed from a dict
q = P.parse_obj({"l": [], "_comment": "keep me"})
assert q.dict()["_comment"] == "keep me"
e = P()
if e.merge_with(q) != q:
    problems.append(f"empty (+) q != q: {e.merge_with(q).dict()} vs {q.dict()}")
if q.merge_with(e) != q:
    problems.append(f"q (+) empty != q: {q.merge_with(e).dict()} vs {q.dict()}")

# conflicting values without overwrite permission must raise, with it the later one wins
q2 = P.parse_obj({"_comment": "other"})
try:
    r = q.merge_with(q2)
    problems.append(f"conflict on '_comment' did not raise, result keeps {r.dict().get('_comment')!r}, 'other' is lost")
except ValueError:
    pass
r = q.merge_with(q2, allow_overwrite=True)
if r.dict().get("_comment") != "other":
    problems.append(f"allow_overwrite: later value does not win: {r.dict().get('_comment')!r}")

# a JSON object may have an empty key; the partial accepts it, merge crashes
q3 = P.parse_obj({"": 1})
try:
    if e.merge_with(q3) != q3:
        problems.append("empty (+) {'': 1} != {'': 1}")
except Exception as ex:  # noqa
    problems.append(f"merge with extra field named '' raised {type(ex).__name__}: {ex}")

if problems:
    print("PROPERTY VIOLATED:")
    for p in problems:
        print(" -", p)
    sys.exit(1)
print("ok")
