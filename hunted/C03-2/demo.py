import shim  # noqa
import shutil, sys, tempfile
from pathlib import Path

from metador_core.ih5.container import IH5MFRecord

EXTS = {"k": "v"}


def run(reopen: bool):
    """Commit base with manifest extensions, start a patch, (optionally close+reopen), commit the patch."""
    d = tempfile.mkdtemp()
    out = {}
    try:
        p = Path(d) / "foo"
        r = IH5MFRecord(p, "w")
        r["a"] = 1
        r.commit_patch(manifest_exts=EXTS)  # last commit carries manifest extensions
        r.create_patch()
        r["b"] = 2
        out["live"] = r.manifest.manifest_exts  # manifest of the last commit
        if reopen:
            r.close(commit=False)  # uncommitted patch stays on disk
            with IH5MFRecord(p, "r") as q:
                try:
                    out["r"] = q.manifest.manifest_exts
                except Exception as e:
                    out["r"] = f"{type(e).__name__}: {e}"
            r = IH5MFRecord(p, "r+")  # continues the uncommitted patch
            assert len(r.ih5_files) == 2 and "b" in r
            try:
                out["r+"] = r.manifest.manifest_exts
            except Exception as e:
                out["r+"] = f"{type(e).__name__}: {e}"
        r.close()  # commits the patch
        with IH5MFRecord(p, "r") as q:
            out["final"] = q.manifest.manifest_exts
    finally:
        shutil.rmtree(d)
    return out


a = run(reopen=False)
b = run(reopen=True)
print("without close/reopen:", a)
print("with    close/reopen:", b)
problems = []
if b["r"] != EXTS:
    problems.append(f"reopened with 'r': .manifest gives {b['r']!r}, before close() it was {b['live']!r}")
if b["r+"] != EXTS:
    problems.append(f"reopened with 'r+': .manifest gives {b['r+']!r}, before close() it was {b['live']!r}")
if b["final"] != a["final"]:
    problems.append(f"after committing the continued patch manifest_exts == {b['final']!r}, but {a['final']!r} without the close/reopen in between")
if problems:
    print("VIOLATION: closing and reopening (continuing an uncommitted patch) does not reproduce the same record state:")
    for x in problems:
        print("  -", x)
    sys.exit(1)
print("ok")
