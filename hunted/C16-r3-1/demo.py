import shim  # noqa: F401

import sys

from metador_core.plugins import plugingroups

# The plugin group "plugingroup" has exactly one registered version: 0.1.0.
# Every request below is supported by that version, so every request must
# resolve to the same plugin (the object handed out for "plugingroup").
PG = plugingroups.PluginRef
requests = {
    "get('plugingroup')": lambda: plugingroups.get("plugingroup"),
    "['plugingroup']": lambda: plugingroups["plugingroup"],
    "get('plugingroup', (0,1,0))": lambda: plugingroups.get("plugingroup", (0, 1, 0)),
    "get('plugingroup', [0,1,0])": lambda: plugingroups.get("plugingroup", [0, 1, 0]),
    "get('plugingroup', (0,1,7))": lambda: plugingroups.get("plugingroup", (0, 1, 7)),
    "get('plugingroup', (0,0,0))": lambda: plugingroups.get("plugingroup", (0, 0, 0)),
    "get(('plugingroup', (0,0,3)))": lambda: plugingroups.get(("plugingroup", (0, 0, 3))),
    "get(PluginRef(plugingroup 0.0.1))": lambda: plugingroups.get(
        PG(name="plugingroup", version=(0, 0, 1))
    ),
}

problems = []
resolved = plugingroups.resolve("plugingroup")
print("registered:", [r.version for r in plugingroups.versions("plugingroup")])

results = {}
for label, req in requests.items():
    try:
        results[label] = req()
    except Exception as e:  # noqa: BLE001
        problems.append(f"{label} raised {e!r}")

ref_obj = results.get("get('plugingroup')")
for label, obj in results.items():
    print(f"{label:40s} -> {type(obj).__module__}.{type(obj).__name__}")
    if obj is not ref_obj:
        problems.append(
            f"{label} resolves to version {resolved.version} like the plain request, "
            f"but hands out a different object ({type(obj).__name__} instead of {type(ref_obj).__name__})"
        )

# Whatever object is handed out is a plugin group: an unversioned request for a
# registered plugin must give a result (or None), not crash.
for label, obj in results.items():
    if obj is None:
        continue
    for name in ("schema", "plugingroup"):
        try:
            obj.get(name)
        except Exception as e:  # noqa: BLE001
            problems.append(f"{label}.get({name!r}) raised {type(e).__name__}: {e}")

if problems:
    print("\nPROPERTY VIOLATED:")
    for p in problems:
        print(" -", p)
    sys.exit(1)
print("ok")
