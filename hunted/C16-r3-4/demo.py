import shim  # noqa: F401

import sys

from metador_core.harvester import Harvester
from metador_core.plugin.util import register_in_group
from metador_core.plugins import harvesters, schemas, widgets
from metador_core.widget import Widget

problems = []


class ChartWidget(Widget):
    """A widget class that happens to have a class attribute called `group`."""

    group = "charts"  # e.g. used by the widget author to arrange widgets in a menu

    class Plugin:
        name = "tt.coll.widg"
        version = (0, 1, 0)
        supports = [schemas.PluginRef(name="core.file", version=(0, 1, 0))]

    def show(self):
        return None


class NamedHarvester(Harvester):
    """A harvester class with human-readable `name` and `version` class attributes."""

    name = "My fancy harvester"
    version = "2023-01"

    class Plugin:
        name = "tt.coll.harv"
        version = (0, 1, 0)
        returns = schemas.PluginRef(name="core.file", version=(0, 1, 0))

    def run(self):
        return self.schema()


for grp, cls in ((widgets, ChartWidget), (harvesters, NamedHarvester)):
    register_in_group(grp, cls, violently=True)
    name, ver = cls.Plugin.name, cls.Plugin.version
    by_name = grp.get(name, ver)
    print(f"{grp.name}: versions {[r.version for r in grp.versions(name)]}, get(name, version) is cls: {by_name is cls},",
          f"is_plugin(cls): {grp.is_plugin(cls)}")
    # the same request, stated by passing the plugin class (documented key form)
    try:
        got = grp.get(cls)
        if got is not cls:
            problems.append(f"{grp.name}.get({cls.__name__}) -> {got!r}, but get({name!r}, {ver}) -> the class")
    except Exception as e:  # noqa: BLE001
        problems.append(f"{grp.name}.get({cls.__name__}) raised {type(e).__name__}: {str(e).splitlines()[-1]}")
    try:
        if cls not in grp:
            problems.append(f"{cls.__name__} in {grp.name} -> False, but ({name!r}, {ver}) in group -> {(name, ver) in grp}")
    except Exception as e:  # noqa: BLE001
        problems.append(f"{cls.__name__} in {grp.name} raised {type(e).__name__}: {str(e).splitlines()[-1]}")
    try:
        if grp[cls] is not cls:
            problems.append(f"{grp.name}[{cls.__name__}] is a different class")
    except Exception as e:  # noqa: BLE001
        problems.append(f"{grp.name}[{cls.__name__}] raised {type(e).__name__}: {str(e).splitlines()[-1]}")

if problems:
    print("\nPROPERTY VIOLATED (a request for a registered plugin does not resolve):")
    for p in problems:
        print(" -", p)
    sys.exit(1)
print("ok")
