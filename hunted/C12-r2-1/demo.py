import shim  # noqa: F401  (must be first)
import sys

from metador_core.plugins import schemas
from metador_core.schema.common import schemaorg

FileMeta = schemas.get("core.file", (0, 1, 0))
DirMeta = schemas.get("core.dir", (0, 1, 0))
Person = schemas.get("core.person", (0, 1, 0))  # subclass of schemaorg.Person

# (a) documented usage ("To state authors or contributors, use the core.person schema"):
#     CreativeWork.author is declared as List[LDOrRef[Union[schemaorg.Person, schemaorg.Organization]]]
file_meta = FileMeta(
    filename="a.png",
    encodingFormat="image/png",
    contentSize=1,
    sha256="ab",
    author=[Person(givenName="Jane", familyName="Doe")],
)

# (b) canonical schema.org usage: a PropertyValue whose value is a QuantitativeValue;
#     the field is declared with the parent class StructuredValue
dir_meta = DirMeta(
    variableMeasured=[
        schemaorg.PropertyValue(
            name="temperature",
            value=schemaorg.QuantitativeValue(value=5, unitText="K"),
        )
    ]
)

forms = {
    "json": lambda i: i.json(),
    "yaml": lambda i: i.yaml(),
    "bytes": lambda i: bytes(i),
}

failed = False
for label, inst in (("core.file/author", file_meta), ("core.dir/variableMeasured", dir_meta)):
    for fname, ser in forms.items():
        raw = ser(inst)
        back = type(inst).parse_raw(raw)
        if back != inst or back.json() != inst.json():
            failed = True
            print(f"VIOLATION [{label}, {fname}]: parsed instance differs from the original")
            print("   original :", inst.json())
            print("   read back:", back.json())

sys.exit(1 if failed else 0)
