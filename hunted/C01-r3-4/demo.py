import shim  # noqa: F401  (must be first)

import os
import shutil
import sys
import tempfile

import h5py
import numpy as np

from metador_core.ih5.container import IH5Record

# a scalar of a COMPOUND type with one uint8 field: not the (opaque) deletion marker np.void(b"\x7f"),
# which is the only value the IH5 documentation (PATCH_THEORY.md) excludes
flag_t = np.dtype([("level", "u1")])
values = {
    "level=126": np.array((126,), dtype=flag_t),
    "level=127": np.array((127,), dtype=flag_t),
    "level=127 (np.void scalar)": np.array((127,), dtype=flag_t)[()],
}


def history(t, patch=lambda: None):
    out = []
    t.create_group("g")
    patch()
    for i, (what, val) in enumerate(values.items()):
        for kind, op in [
            ("dataset", lambda: t.__setitem__(f"g/d{i}", val)),
            ("attribute", lambda: t["g"].attrs.__setitem__(f"a{i}", val)),
        ]:
            try:
                op()
                out.append((f"{kind} {what}", "ok"))
            except Exception as e:
                out.append((f"{kind} {what}", f"{type(e).__name__}: {e}"))
    # writing the field of an existing scalar
    t["g/w"] = np.array((1,), dtype=flag_t)
    try:
        t["g/w"]["level"] = 127
        out.append(("write field level=127", "ok"))
    except Exception as e:
        out.append(("write field level=127", f"{type(e).__name__}: {e}"))
    return out, sorted(t["g"].keys()), sorted(t["g"].attrs.keys()), t["g/w"][()].tolist()


tmp = tempfile.mkdtemp()
try:
    with h5py.File(os.path.join(tmp, "plain.h5"), "w") as ref:
        exp = history(ref)
    rec = IH5Record(os.path.join(tmp, "rec"), "w")

    def patch():
        rec.commit_patch()
        rec.create_patch()

    got = history(rec, patch)
    rec.close()
finally:
    shutil.rmtree(tmp)

bad = False
for (what, e), (_, g) in zip(exp[0], got[0]):
    bad |= e != g
    print(f"{what}: single tree: {e} | IH5: {g}{'' if e == g else '   <-- differs'}")
print("single tree:", exp[1:])
print("IH5 record :", got[1:])
if bad or exp[1:] != got[1:]:
    print("FAIL: a valid value (not the documented deletion marker) is refused by IH5")
    sys.exit(1)
print("OK")
sys.exit(0)
