import shim  # noqa: F401  (must be first)
import os
import shutil
import sys
import tempfile

import h5py

from metador_core.container import MetadorContainer
from metador_core.ih5.container import IH5Record
from metador_core.plugins import schemas
from metador_core.schema import MetadataSchema
from metador_core.schema.common import schemaorg

Person = schemas.get("core.person", (0, 1, 0))


class Unregistered(MetadataSchema):
    """A schema class that is not installed as a plugin (unknown to the plugin system)."""

    foo: int = 0


# both are `Type[MetadataSchema]` (the documented argument type), but no schema plugins:
unknown = {"user-defined Unregistered": Unregistered, "schemaorg.MediaObject": schemaorg.MediaObject}

bad = []
tmp = tempfile.mkdtemp()
try:
    for drv in ("h5py", "ih5"):
        if drv == "h5py":
            raw = h5py.File(os.path.join(tmp, "c.h5"), "w")
        else:
            raw = IH5Record(os.path.join(tmp, "c"), "w")
        with MetadorContainer(raw) as mc:
            mc["p"] = 1
            mc["q"] = 2
            mc["p"].meta["core.person"] = Person(name="Jane Doe")
            node = mc["p"]
            for label, cls in unknown.items():
                # the container level refuses it (ValueError) ...
                try:
                    list(mc.metador.query(cls))
                    bad.append(f"[{drv}] container query for {label} not refused")
                except ValueError:
                    pass
                # ... the node level must not claim that a (core.person!) node carries it
                try:
                    if cls in node.meta:
                        bad.append(f"[{drv}] `{label} in node.meta` is True for a node that only "
                                   f"carries {list(node.meta.keys())}")
                except (KeyError, ValueError, TypeError):
                    pass  # refusing is fine
                try:
                    res = list(node.meta.query(cls))
                    if res:
                        bad.append(f"[{drv}] node.meta.query({label}) yields "
                                   f"{[r.name for r in res]} (not descendants of it)")
                except (KeyError, ValueError, TypeError):
                    pass  # refusing is fine
                assert cls not in mc["q"].meta  # (only right for nodes without any metadata)
finally:
    shutil.rmtree(tmp, ignore_errors=True)

if bad:
    print("VIOLATION: node-level query for an unknown schema is neither refused nor exact")
    print("\n".join("  " + b for b in bad))
    sys.exit(1)
print("ok: unknown schema refused / not found")
sys.exit(0)
