import shim  # noqa
import hashlib, os, shutil, sys, tempfile
from pathlib import Path

from metador_core.ih5.container import IH5Record


def snap(d):
    return {p.name: hashlib.sha1(p.read_bytes()).hexdigest() for p in sorted(Path(d).iterdir())}


d = tempfile.mkdtemp()
problems = []
try:
    p = Path(d) / "foo"
    with IH5Record(p, "w") as w:
        w["g/z"] = 1
    before = snap(d)

    r = IH5Record(p, "r")  # strictly read-only
    assert r.mode == "r"
    # h5py contract: node.file is the file the node lives in, with the same mode
    for what, f in [("rec.file", r.file), ("rec['g'].file", r["g"].file), ("rec['g/z'].file", r["g/z"].file)]:
        if f.mode != "r":
            problems.append(f"{what}.mode == {f.mode!r} although the record was opened with 'r'")
    f = r["g"].file
    try:
        f.create_patch()
        f["new"] = 5
        del f["g"]
        f.commit_patch()
        problems.append("create_patch/write/delete/commit_patch through rec['g'].file succeeded on an 'r' record")
    except ValueError:
        pass  # expected: refused
    r.close()
    after = snap(d)
    if after != before:
        problems.append(f"files on disk changed through an 'r' handle: before={sorted(before)} after={sorted(after)}")
    with IH5Record(p, "r") as q:
        if sorted(q.keys()) != ["g"]:
            problems.append(f"reopened view is now {sorted(q.keys())}, was ['g']")
finally:
    shutil.rmtree(d)

if problems:
    print("VIOLATION: mode 'r' is not strictly read-only:")
    for x in problems:
        print("  -", x)
    sys.exit(1)
print("ok")
