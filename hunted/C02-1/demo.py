import shim  # noqa
import hashlib
import shutil
import sys
import tempfile
from pathlib import Path

from metador_core.ih5.container import IH5MFRecord


def sha(p: Path) -> str:
    return hashlib.sha256(p.read_bytes()).hexdigest()


def main() -> int:
    work = Path(tempfile.mkdtemp())
    remote = Path(tempfile.mkdtemp())
    try:
        # 1. create + commit a record with manifest sidecar
        with IH5MFRecord(work / "rec", "x") as r:
            r["a/b"] = [1, 2, 3]
            r.attrs["x"] = 2
        cont, sidecar = work / "rec.ih5", work / "rec.ih5mf.json"
        assert cont.is_file() and sidecar.is_file()
        before = sha(sidecar)

        # 2. the documented stub use case: the data container lives elsewhere
        #    (uploaded), only the manifest sidecar is kept locally.
        shutil.move(str(cont), str(remote / "rec.ih5"))

        # 3. create a stub for the record from its manifest, using the name of the
        #    record (so that patches get names compatible with the original record)
        try:
            stub = IH5MFRecord.create_stub(work / "rec", sidecar)
            stub.close()
        except Exception as e:  # refusing would be fine for the property
            print(f"create_stub refused: {type(e).__name__}: {e}")

        after = sha(sidecar) if sidecar.is_file() else None
        if after != before:
            print("VIOLATION: manifest sidecar of the committed base container was")
            print(f"  overwritten by IH5MFRecord.create_stub: {sidecar.name}")
            print(f"  sha256 before: {before}\n  sha256 after : {after}")
            # consequence: the original committed file set is not a valid record anymore
            (work / "rec.ih5").unlink()
            shutil.copy(str(remote / "rec.ih5"), str(cont))
            try:
                IH5MFRecord(work / "rec", "r").close()
                print("  (original container + sidecar still open fine)")
            except Exception as e:
                print(f"  original container + its sidecar now fail to open: {e}")
            return 1
        print("OK: sidecar unchanged")
        return 0
    finally:
        shutil.rmtree(work, ignore_errors=True)
        shutil.rmtree(remote, ignore_errors=True)


if __name__ == "__main__":
    sys.exit(main())
