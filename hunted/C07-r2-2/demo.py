import shim  # noqa: F401  (must be first)
import datetime as dt
import os
import shutil
import sys
import tempfile

import h5py

from metador_core.container import MetadorContainer
from metador_core.plugins import schemas

FileMeta = schemas.get("core.file", (0, 1, 0))

# local mean time of Amsterdam, as used until 1937 (zoneinfo "Europe/Amsterdam" gives
# exactly this offset for dates around 1900); any UTC offset with seconds behaves the same
LMT = dt.timezone(dt.timedelta(minutes=19, seconds=32))


def main() -> int:
    tmp = tempfile.mkdtemp()
    try:
        m = MetadorContainer(h5py.File(os.path.join(tmp, "c.h5"), "w"))
        m["rec"] = [1, 2, 3]
        try:
            obj = FileMeta(
                filename="rec.wav",
                encodingFormat="audio/wav",
                contentSize=3,
                sha256="a" * 64,
                startTime=dt.datetime(1900, 1, 1, 12, 0, tzinfo=LMT),
            )
            m["rec"].meta["core.file"] = obj
        except Exception as e:  # refusing the value is fine
            print(f"value refused ({type(e).__name__}) - ok")
            return 0

        print("stored:", obj.json())
        print("node lists:", list(m["rec"].meta.keys()),
              "query:", [n.name for n in m.metador.query("core.file")])
        try:
            back = m["rec"].meta["core.file"]
        except Exception as e:
            print(f"VIOLATION: the object was accepted and is listed, but cannot be returned: "
                  f"{type(e).__name__}: {str(e).splitlines()[0]} ...")
            return 1
        finally:
            m.close()
        if back != obj:
            print(f"VIOLATION: returned object differs: {back.startTime!r} != {obj.startTime!r}")
            return 1
        print("ok")
        return 0
    finally:
        shutil.rmtree(tmp, ignore_errors=True)


if __name__ == "__main__":
    sys.exit(main())
