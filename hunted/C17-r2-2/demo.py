import shim  # noqa: F401
import hashlib
import shutil
import sys
import tempfile
from pathlib import Path

import h5py

from metador_core.container import MetadorContainer
from metador_core.harvester import harvest
from metador_core.ih5.container import IH5Record
from metador_core.packer.utils import pack_file
from metador_core.plugins import harvesters, schemas

FileMeta = schemas.get("core.file", (0, 1, 0))
HrvFile = harvesters["core.file.generic"]

OLD = b"first version of the file\n"
NEW = b"second version\x00\x00"

problems = []
tmp = Path(tempfile.mkdtemp())
try:
    src = tmp / "data.bin"
    src.write_bytes(OLD)
    # the documented way to get (and extend) file metadata before packing,
    # see tests/examples/test_mixed_files_container.py / docs notebook 05
    meta = harvest(FileMeta, [HrvFile(filepath=src)])
    # ... the file changes before it is packed (or the object belongs to another file)
    src.write_bytes(NEW)

    for drv in ["hdf5", "ih5"]:
        if drv == "hdf5":
            mc = MetadorContainer(h5py.File(tmp / "c.h5", "w"))
        else:
            mc = MetadorContainer(IH5Record(tmp / "rec", "w"))
        try:
            ds = pack_file(mc, src, target="data", metadata=meta)
        except ValueError as e:
            print(f"[{drv}] refused loudly (fine): {e}")
            mc.close()
            continue
        raw = ds[()]
        stored = b"" if isinstance(raw, h5py.Empty) else raw.tobytes()
        fm = ds.meta["core.file"]
        if stored != NEW:
            problems.append(f"[{drv}] stored bytes differ from the source file")
        if fm.contentSize != len(stored):
            problems.append(
                f"[{drv}] attached contentSize={fm.contentSize}, embedded file has {len(stored)} bytes"
            )
        if fm.sha256 != hashlib.sha256(stored).hexdigest():
            problems.append(
                f"[{drv}] attached sha256={fm.sha256[:16]}.. but embedded bytes hash to "
                f"{hashlib.sha256(stored).hexdigest()[:16]}.."
            )
        mc.close()
finally:
    shutil.rmtree(tmp, ignore_errors=True)

if problems:
    print("PROPERTY VIOLATED: file metadata attached by pack_file does not describe the embedded file:")
    for p in problems:
        print("  -", p)
    sys.exit(1)
print("ok: size and sha256 of the attached file metadata equal those of the embedded file")
sys.exit(0)
