import shim  # noqa: F401  (must be first)
import os
import shutil
import sys
import tempfile

import h5py

from metador_core.container import MetadorContainer
from metador_core.plugins import schemas

DirMeta = schemas.get("core.dir", (0, 1, 0))
FileMeta = schemas.get("core.file", (0, 1, 0))


def main() -> int:
    tmp = tempfile.mkdtemp()
    try:
        m = MetadorContainer(h5py.File(os.path.join(tmp, "c.h5"), "w"))
        m["a/x"] = [1, 2, 3]
        dir_obj = DirMeta()
        file_obj = FileMeta(
            filename="x.txt", encodingFormat="text/plain", contentSize=3, sha256="a" * 64
        )
        m["a"].meta["core.dir"] = dir_obj
        m["a/x"].meta["core.file"] = file_obj

        # "a/." is a path that h5py resolves (m["a/."] is the group /a),
        # but HDF5 refuses to delete it -> the caller gets (and handles) a KeyError
        assert m["a/."].name == "/a"
        try:
            del m["a/."]
            outcome = "delete succeeded"
        except KeyError as e:
            outcome = f"delete refused: KeyError({e})"
        print(outcome)

        problems = []
        if "a" in m:  # nothing was deleted -> everything must still be there
            if "a/x" not in m:
                problems.append("/a/x vanished")
            else:
                got = m["a/x"].meta.get("core.file")
                if got != file_obj:
                    problems.append(f"/a/x lost its core.file object (got {got!r})")
            got = m["a"].meta.get("core.dir")
            if got != dir_obj:
                problems.append(f"/a lost its core.dir object (got {got!r})")
            q_dir = sorted(n.name for n in m.metador.query("core.dir"))
            q_file = sorted(n.name for n in m.metador.query("core.file"))
            if q_dir != ["/a"]:
                problems.append(f"query(core.dir) = {q_dir}, expected ['/a']")
            if q_file != ["/a/x"]:
                problems.append(f"query(core.file) = {q_file}, expected ['/a/x']")
        else:  # the delete went through -> nothing may be left
            left = [n.name for s in ("core.dir", "core.file") for n in m.metador.query(s)]
            if left:
                problems.append(f"deleted nodes still found by query: {left}")
        m.close()

        if problems:
            print("VIOLATION: the nodes were never deleted, but their metadata is gone:")
            for p in problems:
                print("  -", p)
            return 1
        print("ok")
        return 0
    finally:
        shutil.rmtree(tmp, ignore_errors=True)


if __name__ == "__main__":
    sys.exit(main())
