import shim  # noqa: F401  (must be first)
import os
import shutil
import sys
import tempfile

import numpy as np

from metador_core.container import MetadorContainer
from metador_core.ih5.container import IH5Record

FILE = dict(id_="x", filename="x", encodingFormat="text/plain", contentSize=1,
            sha256="sha256:" + "0" * 64)


def visible(mc):
    out = []
    mc.visit(out.append)
    return sorted(out)


def raw_paths(rec):
    out = []
    rec.visit(out.append)
    return sorted(out)


tmp = tempfile.mkdtemp()
problems = []
try:
    prefix = os.path.join(tmp, "rec")
    mc = MetadorContainer(IH5Record(prefix, "w"))
    mc["g/x"] = np.arange(3)
    mc["y"] = 5
    mc["g"].meta["core.file"] = FILE
    before = visible(mc)

    # moving the root group cannot work; a plain tree (and the h5py driver) refuse it
    # without any effect
    raised = None
    try:
        mc.move("/", "z")
    except Exception as e:  # noqa: BLE001
        raised = e
    after = visible(mc)
    print("move('/', 'z') raised:", repr(raised))
    print("visible tree before:", before)
    print("visible tree after :", after)
    if raised is None:
        problems.append("moving the root group did not raise")
    if after != before:
        problems.append(
            f"refused move('/', 'z') changed the user-visible tree: new nodes {sorted(set(after) - set(before))}"
        )
    mc.close()

    # look at the stored record with the plain IH5 interface: is there bookkeeping
    # below a user node now?
    with_raw = IH5Record(prefix, "r")
    leaked = [p for p in raw_paths(with_raw) if p.startswith("z/") and "metador_" in p]
    with_raw.close()
    if leaked:
        print("bookkeeping duplicated below user node 'z':", leaked[:4], "...")
        problems.append("container bookkeeping (TOC, metadata objects with the same UUIDs) was duplicated below /z")
finally:
    shutil.rmtree(tmp, ignore_errors=True)

if problems:
    print("PROPERTY VIOLATED:")
    for p in problems:
        print(" -", p)
    sys.exit(1)
print("ok")
sys.exit(0)
