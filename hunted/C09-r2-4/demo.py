import shim  # noqa: F401  (must be first)

import os
import shutil
import sys
import tempfile

import h5py

from metador_core.container import MetadorContainer
from metador_core.ih5.container import IH5MFRecord, IH5Record


def history(kind, tmp, wrap):
    if kind == "h5py.File":
        raw = h5py.File(os.path.join(tmp, f"plain{wrap}.h5"), "w")
    elif kind == "IH5Record":
        raw = IH5Record(os.path.join(tmp, f"rec{wrap}"), "w")
    else:
        raw = IH5MFRecord(os.path.join(tmp, f"mfrec{wrap}"), "w")
    c = MetadorContainer(raw) if wrap else raw
    c["a/b"] = 1
    c["d"] = 2
    log = []
    for src, dst in [("a", "a"), ("a", "/a"), ("/a", "a"), ("d", "/d"), ("a/b", "/a/b")]:
        try:
            c.move(src, dst)
            log.append((f"move({src!r}, {dst!r})", "ok"))
        except Exception as e:
            log.append((f"move({src!r}, {dst!r})", f"FAILED ({type(e).__name__}: {str(e)[:60]})"))
    raw.close()
    return log


def main():
    tmp = tempfile.mkdtemp()
    bad = False
    try:
        for wrap in (1, 0):
            results = {
                k: history(k, tmp, wrap) for k in ("h5py.File", "IH5Record", "IH5MFRecord")
            }
            ref = results["h5py.File"]
            for kind, log in results.items():
                for a, b in zip(ref, log):
                    if (a[1] == "ok") != (b[1] == "ok"):
                        bad = True
                        how = "MetadorContainer" if wrap else "raw driver"
                        print(f"[{how}] {a[0]}: h5py.File -> {a[1]} / {kind} -> {b[1]}")
    finally:
        shutil.rmtree(tmp)
    if bad:
        print("VIOLATION: the same move fails on plain HDF5 and succeeds on IH5")
        return 1
    print("OK: all drivers agree")
    return 0


if __name__ == "__main__":
    sys.exit(main())
