import shim  # noqa: F401  (must be first)
import os
import shutil
import sys
import tempfile
import textwrap

# ---- "install" a plugin package whose distribution name contains capital letters ----
# (a normal .dist-info directory on sys.path, created BEFORE metador_core is imported; names
#  like "PyYAML", "Flask" or "Metador_Foo" are perfectly legal distribution names)
DIST_NAME = os.environ.get("DIST_NAME", "FakeFam")
pkgdir = tempfile.mkdtemp()
with open(os.path.join(pkgdir, "fakefam_mod.py"), "w") as f:
    f.write(textwrap.dedent('''
        from metador_core.schema import MetadataSchema

        class Thing(MetadataSchema):
            class Plugin:
                name = "fam.thing"
                version = (0, 1, 0)
            a: int
    '''))
di = os.path.join(pkgdir, f"{DIST_NAME}-0.3.1.dist-info")
os.mkdir(di)
with open(os.path.join(di, "METADATA"), "w") as f:
    f.write(f"Metadata-Version: 2.1\nName: {DIST_NAME}\nVersion: 0.3.1\n")
with open(os.path.join(di, "entry_points.txt"), "w") as f:
    f.write("[metador_schema]\nfam.thing__0.1.0 = fakefam_mod:Thing\n")
open(os.path.join(di, "RECORD"), "w").close()
sys.path.insert(0, pkgdir)

import h5py  # noqa: E402

from metador_core.container import MetadorContainer  # noqa: E402
from metador_core.plugins import schemas  # noqa: E402

ref = schemas.PluginRef(name="fam.thing", version=(0, 1, 0))
env_provider = schemas.provider(ref)  # plugin system is fine with the package
print(f"plugin system: fam.thing 0.1.0 provided by {env_provider.name} {env_provider.version}")

tmp = tempfile.mkdtemp()
problems = []
try:
    path = os.path.join(tmp, "c.h5")
    mc = MetadorContainer(h5py.File(path, "w"))
    mc["d"] = [1, 2, 3]
    refused = None
    try:
        mc["d"].meta["fam.thing"] = dict(a=1)
    except Exception as e:  # caller catches the error and goes on
        refused = e
        print(f"attach raised {type(e).__name__}: {e}")
    mc.close()

    # freshly opened container
    try:
        mc2 = MetadorContainer(h5py.File(path, "r"))
    except Exception as e:
        problems.append(f"container cannot be opened any more after the failed attach: {type(e).__name__}: {e}")
        mc2 = None
        with h5py.File(path, "r") as raw:  # what is physically in the file
            objs = list(raw.get("metador_meta_d", {}))
            pk = list(raw.get("metador_container/packages", {}))
            sc = list(raw.get("metador_container/schemas", {}))
            ln = list(raw.get("metador_container/links", {}))
            problems.append(f"file content: objects at /d: {objs}; embedded schemas: {sc}; packages: {pk}; TOC links: {ln}")
    if mc2 is not None:
        stored = dict(mc2["d"].meta.items())
        if refused is not None and stored:
            problems.append(f"attach raised, but object is stored: {list(stored)}")
        for sname, sm in stored.items():
            ts = mc2.metador.schemas
            try:
                assert sm.schema in ts, "schema not listed"
                assert ts[sm.schema] == schemas.get(sm.schema.name, sm.schema.version).schema(), "json schema differs"
                assert ts.parent_path(sm.schema) == schemas.parent_path(sm.schema.name, sm.schema.version), "parents differ"
                assert ts.provider(sm.schema) == schemas.provider(sm.schema), "provider differs"
            except Exception as e:
                problems.append(f"description of stored {sname} object incomplete: {type(e).__name__}: {e}")
        if refused is not None and not stored:
            print("note: installed schema was refused, but cleanly (nothing stored)")
        mc2.close()
finally:
    shutil.rmtree(tmp, ignore_errors=True)
    shutil.rmtree(pkgdir, ignore_errors=True)

if problems:
    print("PROPERTY VIOLATED (object stored => schema, parents and providing package stored and reported):")
    for p in problems:
        print("  -", p)
    sys.exit(1)
print("ok")
sys.exit(0)
