import shim  # noqa: F401  (must be first)
import os
import shutil
import sys
import tempfile

import h5py

from metador_core.container import MetadorContainer
from metador_core.plugins import schemas

TableMeta = schemas.get("core.table", (0, 1, 0))

# unit of Manning's roughness coefficient; any exponent that needs more than
# 6 significant digits behaves the same (kg**(2/3), m**0.1234567, s**-1.0000001, ...)
UNIT = "s/m**(1/3)"


def main() -> int:
    tmp = tempfile.mkdtemp()
    try:
        m = MetadorContainer(h5py.File(os.path.join(tmp, "c.h5"), "w"))
        m["tab"] = [[1.0, 2.0], [3.0, 4.0]]
        try:
            obj = TableMeta(
                name="channel roughness",
                columns=[{"name": "depth", "unit": "m"}, {"name": "n", "unit": UNIT}],
            )
            m["tab"].meta["core.table"] = obj
        except Exception as e:  # refusing the value is fine
            print(f"value refused ({type(e).__name__}) - ok")
            return 0
        back = m["tab"].meta["core.table"]
        m.close()

        u_in, u_out = obj.columns[1].unit, back.columns[1].unit
        exp_in = dict(u_in._units)["meter"]
        exp_out = dict(u_out._units)["meter"]
        print("stored  :", repr(exp_in), "| JSON:", obj.json())
        print("returned:", repr(exp_out))
        if back != obj or u_in != u_out:
            print("VIOLATION: the returned core.table object is not equal to the stored one "
                  f"(unit {u_in!r} came back as a different unit, exponent {exp_in!r} -> {exp_out!r})")
            return 1
        print("ok")
        return 0
    finally:
        shutil.rmtree(tmp, ignore_errors=True)


if __name__ == "__main__":
    sys.exit(main())
