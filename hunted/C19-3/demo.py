import shim  # noqa: F401  (must be first)
import os
import shutil
import socket
import sys
import tempfile
from pathlib import Path

from metador_core.util.diff import DirDiff
from metador_core.util.hashsums import dir_hashsums

root = Path(tempfile.mkdtemp())
problems = []
try:
    A, B, C = root / "A", root / "B", root / "C"
    for d in (A, B, C):
        d.mkdir()
    (A / "p").mkdir()  # empty subdirectory
    os.mkfifo(B / "p")  # named pipe, NOT a subdirectory
    s = socket.socket(socket.AF_UNIX)
    s.bind(str(C / "p"))  # unix socket, NOT a subdirectory
    s.close()

    ha = dir_hashsums(A)
    for name, d in (("fifo", B), ("socket", C)):
        try:
            h = dir_hashsums(d)
        except ValueError as e:  # refusing special files would be fine as well
            print(name, "rejected:", e)
            continue
        print(f"empty dir: {ha}   {name}: {h}")
        if h == ha:
            problems.append(
                f"a directory containing the {name} 'p' gets the same tree as one containing the "
                f"empty subdirectory 'p': {h}"
            )
    # as a single edit (dir -> fifo) seen through DirDiff
    before = dir_hashsums(A)
    (A / "p").rmdir()
    os.mkfifo(A / "p")
    try:
        if DirDiff.compare(before, dir_hashsums(A)).is_empty:
            problems.append("replacing the empty directory 'p' by a fifo 'p' yields an empty DirDiff")
    except ValueError:
        pass
finally:
    shutil.rmtree(root, ignore_errors=True)

if problems:
    print("PROPERTY VIOLATED:")
    for p in problems:
        print("  -", p)
    sys.exit(1)
print("ok")
sys.exit(0)
