import shim  # noqa
import os, shutil, sys, tempfile

import h5py
from metador_core.container import MetadorContainer
from metador_core.ih5.container import IH5Record


def names(grp):
    out = []
    grp.visit(out.append)
    return out


def user_ops(f):
    """Same user operations for a plain h5py.File and for containers. Returns outcome log."""
    f["g/e"] = 2
    f["g/h/f"] = 1
    log = []
    for label, op in [
        # copy a child of group g up into the root group, destination given as group object
        ("g.copy('e', <root>)", lambda: f["g"].copy("e", f)),
        ("g/h.copy('f', <root>)", lambda: f["g/h"].copy("f", f["/"])),
    ]:
        try:
            op()
            log.append((label, "ok"))
        except Exception as e:
            log.append((label, f"{type(e).__name__}: {e}"))
    return log


def main():
    d = tempfile.mkdtemp()
    bad = []
    try:
        plain = h5py.File(os.path.join(d, "plain.h5"), "w")
        plog = user_ops(plain)
        ptree = names(plain)
        plain.close()
        for kind in ["h5py", "ih5"]:
            if kind == "h5py":
                mc = MetadorContainer(h5py.File(os.path.join(d, "c.h5"), "w"))
            else:
                mc = MetadorContainer(IH5Record(os.path.join(d, "c"), "w"))
            mlog = user_ops(mc)
            mtree = names(mc)
            mc.close()
            if mlog != plog or mtree != ptree:
                bad.append(f"[{kind}] outcomes {mlog}\n     tree {mtree}\n     plain tree {ptree} (plain outcomes {plog})")
    finally:
        shutil.rmtree(d, ignore_errors=True)
    if bad:
        for b in bad:
            print("VIOLATION:", b)
        sys.exit(1)
    print("ok: container trees equal the plain tree")


main()
