import shim  # noqa: F401
import os
import shutil
import sys
import tempfile

import numpy as np

from metador_core.ih5.container import IH5Record

problems = []
d = tempfile.mkdtemp()
try:
    # Reference (one plain tree): arr=[1,2,3] with attrs unit="m"; then arr[0]=99 and a new attr.
    # Result: arr=[99,2,3], attrs {unit: "m", note: "n"}  -- writing into a dataset never drops attributes.
    expected_attrs = {"unit": "m", "note": "n"}

    # --- scenario A: write into the dataset in a later patch (needs copy_into_patch) ---
    rec = IH5Record(os.path.join(d, "a"), "w")
    rec["arr"] = [1, 2, 3]
    rec["arr"].attrs["unit"] = "m"
    rec.commit_patch()
    rec.create_patch()
    rec["arr"].copy_into_patch()  # documented way to edit inside a value of an older container
    rec["arr"][0] = 99
    rec["arr"].attrs["note"] = "n"
    got_val = rec["arr"][()].tolist()
    got_attrs = {k: v for k, v in rec["arr"].attrs.items()}
    if got_val != [99, 2, 3]:
        problems.append(f"A: value is {got_val}, expected [99, 2, 3]")
    if got_attrs != expected_attrs:
        problems.append(f"A: attributes after copy_into_patch+write are {got_attrs}, expected {expected_attrs}")
    rec.close()

    # --- scenario B: attribute set first, then the write, both in the same later patch ---
    rec = IH5Record(os.path.join(d, "b"), "w")
    rec["arr"] = [1, 2, 3]
    rec["arr"].attrs["unit"] = "m"
    rec.commit_patch()
    rec.create_patch()
    rec["arr"].attrs["note"] = "n"
    try:
        rec["arr"].copy_into_patch()
        rec["arr"][0] = 99
        got_val = rec["arr"][()].tolist()
        got_attrs = {k: v for k, v in rec["arr"].attrs.items()}
        if got_val != [99, 2, 3] or got_attrs != expected_attrs:
            problems.append(f"B: got value {got_val} attrs {got_attrs}, expected [99, 2, 3] {expected_attrs}")
    except Exception as e:
        problems.append(f"B: copy_into_patch after setting an attribute in the same patch fails: {type(e).__name__}: {e}")
    rec.close()
finally:
    shutil.rmtree(d, ignore_errors=True)

if problems:
    print("PROPERTY VIOLATED:")
    for p in problems:
        print("  -", p)
    sys.exit(1)
print("ok")
