import shim  # noqa
import os, shutil, sys, tempfile

import h5py
from metador_core.container import MetadorContainer
from metador_core.ih5.container import IH5Record
from metador_core.plugins import schemas


def bib(name):
    BibMeta = schemas.get("core.bib", (0, 1, 0))
    Person = BibMeta.Fields.author.schemas.Person
    return BibMeta(name=name, abstract="x", dateCreated="2023-01-23",
                   author=[Person(name="Jane Doe")], creator=Person(name="Jane Doe"))


def mk(kind, d, name):
    if kind == "h5py":
        return MetadorContainer(h5py.File(os.path.join(d, name + ".h5"), "w"))
    return MetadorContainer(IH5Record(os.path.join(d, name), "w"))


def bibname(node):
    obj = node.meta.get("core.bib")
    return obj.name if obj is not None else None


def run(kind, d):
    bad = []
    a = mk(kind, d, "a")
    b = mk(kind, d, "b")
    # container A has its own, unrelated dataset at /d with metadata "A-d"
    a["d"] = 1
    a["d"].meta["core.bib"] = bib("A-d")
    # container B: /d and /q with their own metadata
    b["d"] = 5
    b["d"].meta["core.bib"] = bib("B-d")
    b["q"] = 7
    b["q"].meta["core.bib"] = bib("B-q")

    # copy with node objects as source (documented: source may be a Group/Dataset object)
    try:
        a.copy(b["d"], "dd")
        a.copy(b["q"], "qq")
    except Exception as e:
        # refusing foreign nodes without effect would be acceptable, too
        if "dd" in a or "qq" in a:
            bad.append(f"copy raised {type(e).__name__} but left nodes behind")
        a.close(); b.close()
        return bad

    if a["dd"][()] != 5 or a["qq"][()] != 7:
        bad.append("copied values wrong")
    # the copy must carry the metadata of ITS source (B-d / B-q); A's own /d must be untouched
    got = {"dd": bibname(a["dd"]), "qq": bibname(a["qq"]), "d": bibname(a["d"])}
    want = {"dd": "B-d", "qq": "B-q", "d": "A-d"}
    if got != want:
        bad.append(f"metadata attached to the copies: {got}, expected {want} "
                   "(copy of B:/d received the metadata of the unrelated node A:/d, copy of B:/q lost its metadata)")

    # destination given as a group object of the OTHER container: must end up there (as in h5py), not in A
    b.create_group("grp")
    tree_a = []
    a.visit(tree_a.append)
    try:
        a.copy("d", b["grp"])
    except Exception:
        pass  # a clean refusal is fine
    tree_a2, tree_b = [], []
    a.visit(tree_a2.append)
    b.visit(tree_b.append)
    if tree_a2 != tree_a:
        bad.append(f"a.copy('d', b['grp']) changed container A: {tree_a} -> {tree_a2}; B is {tree_b} "
                   "(plain trees: A unchanged, B gets grp/d)")
    a.close(); b.close()
    return bad


def main():
    d = tempfile.mkdtemp()
    failed = False
    try:
        for kind in ["h5py", "ih5"]:
            for msg in run(kind, d):
                failed = True
                print(f"[{kind}] VIOLATION: {msg}")
    finally:
        shutil.rmtree(d, ignore_errors=True)
    if failed:
        sys.exit(1)
    print("ok")


main()
