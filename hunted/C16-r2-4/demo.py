import shim
import sys

from metador_core.plugins import schemas
from metador_core.schema import MetadataSchema
from metador_core.plugin.util import register_in_group

NAME = "hunt.vers"


def mk(ver):
    class S(MetadataSchema):
        class Plugin:
            name = NAME
            version = ver

    return S


# register some versions in scrambled order
order = [(1, 2, 0), (0, 1, 5), (1, 10, 0), (0, 1, 0), (1, 2, 3), (2, 0, 0), (0, 3, 1)]
for v in order:
    register_in_group(schemas, mk(v), violently=True)
regs = schemas.versions(NAME)
assert [r.version for r in regs] == sorted(order)

problems = []
for req in [(1, 2, 1), (1, 3, 0), (0, 1, 9), (0, 0, 0), (2, 0, 5), (1, 10, 0), (1, 11, 0), (3, 0, 0)]:
    ref = schemas.PluginRef(name=NAME, version=req)
    sup = [r for r in regs if r.supports(ref)]
    want = max(sup).version if sup else None  # newest registered version supporting the request

    got_resolve = schemas.resolve(NAME, req)
    got_get = schemas.get(ref)
    assert (got_resolve.version if got_resolve else None) == want
    assert (got_get.Plugin.version if got_get else None) == want

    for how, key in [("schemas[ref]", ref), ("schemas[(name, version)]", (NAME, req))]:
        try:
            got = schemas[key].Plugin.version
        except KeyError:
            got = None
        if got != want:
            problems.append(f"request {req}: {how} -> {'KeyError' if got is None else got}, but get()/resolve() -> {want}")

if problems:
    print("VIOLATION: [] does not resolve a request to the newest registered version that supports it:")
    for p in problems:
        print("  -", p)
    sys.exit(1)
print("ok")
