import shim  # noqa
import hashlib
import shutil
import sys
import tempfile
from pathlib import Path

from metador_core.ih5.container import IH5MFRecord, IH5Record


def snap(d: Path):
    return {
        p.name: hashlib.sha256(p.read_bytes()).hexdigest()
        for p in sorted(d.iterdir())
        if p.is_file()
    }


def run(cls) -> int:
    d = Path(tempfile.mkdtemp())
    a = b = None
    try:
        with cls(d / "rec", "x") as r:
            r["base"] = 1

        a = cls(d / "rec", "r+")  # handle A: auto-creates patch rec.p1.ih5 (uncommitted)
        a["from_a"] = 1
        try:
            # handle B on the same record (e.g. another component of the program):
            # finds the uncommitted patch and silently re-opens it writable as well
            b = cls(d / "rec", "r+")
            b["from_b"] = 2
            b.commit_patch()  # patch 1 is now COMMITTED (hashsum in user block)
        except Exception as e:  # refusing a second writer would be fine
            print(f"second writer refused: {type(e).__name__}: {e}")
            return 0
        committed = snap(d)
        assert "rec.p1.ih5" in committed

        # handle A does not know about the commit and still writes into patch 1
        try:
            a["late"] = list(range(1000))
            a.attrs["late"] = "x"
            a.commit_patch()
        except Exception as e:  # refusing would be fine
            print(f"late write refused: {type(e).__name__}: {e}")

        ret, now = 0, snap(d)
        for name, h in committed.items():
            if now.get(name) != h:
                print(f"VIOLATION ({cls.__name__}): committed file {name} was modified")
                ret = 1
        return ret
    finally:
        for h in (a, b):
            try:
                h and h.close()
            except Exception:
                pass
        shutil.rmtree(d, ignore_errors=True)


if __name__ == "__main__":
    res = [run(IH5Record), run(IH5MFRecord)]
    if not any(res):
        print("OK: committed files untouched")
    sys.exit(1 if any(res) else 0)
