import shim  # noqa
import sys

from pydantic import ValidationError

from metador_core.plugins import schemas

FileMeta = schemas.get("core.file", (0, 1, 0))
jsonld = {  # e.g. read from a JSON-LD file
    "@id": "https://example.com/a.txt",
    "filename": "a.txt",
    "encodingFormat": "text/plain",
    "contentSize": 1,
    "sha256": "ab",
}

# the field `id_` (alias "@id") is stated by its alias (in the dict) and by its name (keyword)
try:
    obj = FileMeta(id_=42, **jsonld)
except ValidationError:
    print("ok: the invalid value for id_ is refused")
    sys.exit(0)

problems = []
if not isinstance(obj.id_, str):
    problems.append(
        f"accepted instance has id_ = {obj.id_!r} ({type(obj.id_).__name__}), the field type "
        "is Optional[NonEmptyStr] and the valid '@id' that was given is gone"
    )
for fname, ser in {"json": lambda o: o.json(), "yaml": lambda o: o.yaml(), "bytes": bytes}.items():
    text = ser(obj)
    try:
        back = FileMeta.parse_raw(text)
        if back != obj:
            problems.append(f"{fname}: round trip not equal")
    except Exception as e:
        problems.append(f"{fname}: own output {text[:60]!r}... cannot be parsed: {type(e).__name__}")

if problems:
    print("PROPERTY VIOLATED:")
    for p in problems:
        print("  -", p)
    sys.exit(1)
print("ok")
sys.exit(0)
