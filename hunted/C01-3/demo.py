import shim  # noqa: F401
import os
import shutil
import sys
import tempfile

import h5py

from metador_core.ih5.container import IH5Record

SHAPE = (2**40,)  # 8 TiB of float64; HDF5 allocates lazily, the file stays a few KB

problems = []
d = tempfile.mkdtemp()
try:
    # reference: perfectly fine on a plain HDF5 file
    ref = h5py.File(os.path.join(d, "ref.h5"), "w")
    ref["small"] = 1
    ref.create_dataset("big", shape=SHAPE, dtype="f8")
    assert sorted(ref.keys()) == ["big", "small"] and ref["small"][()] == 1
    assert ref["big"][5:8].tolist() == [0.0, 0.0, 0.0]
    ref.close()

    rec = IH5Record(os.path.join(d, "r"), "w")
    rec["small"] = 1
    rec.commit_patch()
    rec.create_patch()
    rec.create_dataset("big", shape=SHAPE, dtype="f8")  # succeeds

    def probe(label, fn, expected):
        try:
            got = fn()
            if got != expected:
                problems.append(f"{label}: got {got!r}, expected {expected!r}")
        except BaseException as e:  # MemoryError
            problems.append(f"{label}: raised {type(e).__name__}: {str(e)[:100]}")

    probe("list(rec.keys())", lambda: sorted(rec.keys()), ["big", "small"])
    probe("'small' in rec", lambda: "small" in rec, True)
    probe("rec['small'][()]", lambda: int(rec["small"][()]), 1)
    probe("rec['big'][5:8]", lambda: rec["big"][5:8].tolist(), [0.0, 0.0, 0.0])
    probe("rec['other'] = 2", lambda: rec.__setitem__("other", 2), None)
    rec.close()
    rec = IH5Record(os.path.join(d, "r"), "r")
    probe("after reopen: list(rec.keys())", lambda: sorted(set(rec.keys()) - {"other"}), ["big", "small"])
    rec.close()
finally:
    shutil.rmtree(d, ignore_errors=True)

if problems:
    print("PROPERTY VIOLATED: one large dataset makes the whole group unreadable/unwritable:")
    for p in problems:
        print("  -", p)
    sys.exit(1)
print("ok")
