import shim  # noqa: F401  (must be first)
import os
import shutil
import sys
import tempfile

import h5py

from metador_core.container import MetadorContainer
from metador_core.ih5.container import IH5Record
from metador_core.plugins import schemas

FileMeta = schemas.get("core.file", (0, 1, 0))


def fm(name):
    return FileMeta(
        id_=name, filename=name, encodingFormat="text/plain", contentSize=3,
        sha256="sha256:" + "0" * 64,
    )


def mk(kind, path):
    if kind == "h5py":
        return MetadorContainer(h5py.File(path + ".h5", "w"))
    return MetadorContainer(IH5Record(path, "w"))


problems = []
for kind in ("h5py", "ih5"):
    tmp = tempfile.mkdtemp()
    try:
        mc = mk(kind, os.path.join(tmp, "c"))
        mc["a"] = [1, 2, 3]
        node = mc["a"]

        meta = node.meta  # keep the metadata interface of the node around (nothing attached yet)
        node.meta["core.file"] = fm("FIRST")  # somebody attaches an object
        second_accepted = True
        try:
            meta["core.file"] = fm("SECOND")  # must be refused: the node already holds a core.file object
        except ValueError:
            second_accepted = False
        if second_accepted:
            problems.append(f"{kind}: a second core.file object was accepted for node /a (no ValueError)")

        # which object does the node "hold" now? (fresh handle)
        got = mc["a"].meta.get("core.file")
        print(f"{kind}: node /a now returns core.file @id={got.id_!r}")
        # consequence: deleting "the" core.file object of /a wipes both, but one TOC entry stays behind
        del mc["a"].meta["core.file"]
        left = sorted(r.name for r in mc.metador.schemas.keys())
        if left:
            problems.append(
                f"{kind}: after deleting the only metadata of the container its schema index still lists {left} "
                f"(entry of the surplus object was left behind)"
            )

        # same root cause, other direction: a handle taken before a deletion keeps answering
        mc["b"] = [1]
        mc["b"].meta["core.file"] = fm("B")
        old = mc["b"].meta
        del mc["b"].meta["core.file"]
        try:
            still_in = "core.file" in old
            still = old.get("core.file")
        except KeyError as e:  # IH5: low-level error of the vanished dataset
            still_in, still = True, f"KeyError({e})"
        if still_in or still is not None:
            problems.append(
                f"{kind}: after the core.file object of /b was deleted, an earlier obtained .meta still reports it: "
                f"in -> {still_in}, get -> {getattr(still, 'id_', still)!r}"
            )
        mc.close()
    finally:
        shutil.rmtree(tmp, ignore_errors=True)

if problems:
    print("PROPERTY VIOLATED:")
    for p in problems:
        print("  -", p)
    sys.exit(1)
print("ok")
sys.exit(0)
