import shim  # noqa
import sys
from typing import Any, Optional

from metador_core.schema import MetadataSchema
from metador_core.schema.core import check_types


class A(MetadataSchema):  # extra fields are allowed by default (BaseModelPlus)
    x: Optional[int]
    anyval: Any


check_types(A)
P = A.Partial
problems = []


def attempt(label, f, expect):
    """expect: a value -> result must have it; an exception class -> must raise exactly that."""
    try:
        r = f()
    except Exception as e:  # noqa
        if not (isinstance(expect, type) and type(e) is expect):
            problems.append(f"{label}: raised {type(e).__name__}: {e}")
        return
    if isinstance(expect, type):
        problems.append(f"{label}: expected {expect.__name__}, got {r!r}")
    elif r != expect:
        problems.append(f"{label}: expected {expect!r}, got {r!r}")


a = P.parse_obj({"x": 1, "tags": ["a"]})  # extra field, list valued
b = P.parse_obj({"tags": "b"})  # same extra field, scalar valued

# with overwrite permission the later value must win
attempt(
    "extra list . extra str (allow_overwrite=True)",
    lambda: a.merge_with(b, allow_overwrite=True).__dict__["tags"],
    "b",
)
# without it the documented ValueError must be raised
attempt("extra list . extra str (no overwrite)", lambda: a.merge_with(b), ValueError)
# the other direction works, so the operation is not even consistently defined
attempt(
    "extra str . extra list (allow_overwrite=True)",
    lambda: b.merge_with(a, allow_overwrite=True).__dict__["tags"],
    ["a"],
)
# same for a declared field of type Any
attempt(
    "Any field: list . dict (allow_overwrite=True)",
    lambda: P(anyval=[1]).merge_with(P(anyval={"k": 1}), allow_overwrite=True).anyval,
    {"k": 1},
)
# parsed from JSON, three operands: associativity (one side fails, the other would not need to)
j = [P.parse_raw(s) for s in ('{"t": "s"}', '{"t": [0]}', '{"t": false}')]
attempt(
    "(a.b).c from JSON (allow_overwrite=True)",
    lambda: j[0].merge_with(j[1], allow_overwrite=True).merge_with(j[2], allow_overwrite=True).__dict__["t"],
    False,
)

if problems:
    print("PROPERTY VIOLATED (later value does not win / wrong exception):")
    for p in problems:
        print(" -", p)
    sys.exit(1)
print("ok")
