import shim  # noqa
import os, shutil, sys, tempfile

import h5py
from metador_core.container import MetadorContainer
from metador_core.ih5.container import IH5Record
from metador_core.plugins import schemas


def bib(name):
    BibMeta = schemas.get("core.bib", (0, 1, 0))
    Person = BibMeta.Fields.author.schemas.Person
    return BibMeta(name=name, abstract="x", dateCreated="2023-01-23",
                   author=[Person(name="Jane Doe")], creator=Person(name="Jane Doe"))


def meta_state(mc):
    out = {"/": sorted(mc.meta.keys())}
    mc.visititems(lambda n, node: out.__setitem__(n, sorted(node.meta.keys())))
    return out


def tree(mc):
    out = []
    mc.visit(out.append)
    return out


def run(kind, d):
    if kind == "h5py":
        mc = MetadorContainer(h5py.File(os.path.join(d, "c.h5"), "w"))
    else:
        mc = MetadorContainer(IH5Record(os.path.join(d, "c"), "w"))
    mc["d"] = 1
    mc["g/e"] = [1, 2]
    mc.meta["core.bib"] = bib("root")
    mc["d"].meta["core.bib"] = bib("d")
    mc["g"].meta["core.bib"] = bib("g")
    mc["g/e"].meta["core.bib"] = bib("e")

    t0, m0 = tree(mc), meta_state(mc)
    q0 = sorted(n.name for n in mc.metador.query("core.bib"))
    # the root cannot be deleted: a plain h5py.File / IH5Record raises and nothing changes
    try:
        del mc["/"]
        raised = None
    except Exception as e:  # expected: the operation is refused
        raised = e
    t1, m1 = tree(mc), meta_state(mc)
    q1 = sorted(n.name for n in mc.metador.query("core.bib"))
    mc.close()

    bad = []
    if raised is None:
        bad.append("del mc['/'] did not raise")
    if t0 != t1:
        bad.append(f"tree changed: {t0} -> {t1}")
    if m0 != m1:
        bad.append(f"refused `del mc['/']` ({type(raised).__name__}) destroyed metadata:\n     before {m0}\n     after  {m1}")
    if q0 != q1:
        bad.append(f"query('core.bib') before {q0} after {q1}")
    return bad


def main():
    d = tempfile.mkdtemp()
    failed = False
    try:
        for kind in ["h5py", "ih5"]:
            for msg in run(kind, d):
                failed = True
                print(f"[{kind}] VIOLATION: {msg}")
    finally:
        shutil.rmtree(d, ignore_errors=True)
    if failed:
        sys.exit(1)
    print("ok: a refused deletion of the root leaves data and metadata untouched")


main()
