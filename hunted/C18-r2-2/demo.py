import shim  # noqa
import os, shutil, sys, tempfile
from pathlib import Path

from metador_core.util.hashsums import dir_hashsums

# The data directory is reachable under two names (one path component above it is a
# symlink, like /home -> /export/home or /tmp -> /private/tmp). A link inside the
# directory has an ABSOLUTE target spelled with the alias name. It points to a file in
# the same directory, so it is an in-directory symlink.
top = Path(tempfile.mkdtemp())
bad = []
try:
    real = top / "real"
    real.mkdir()
    (real / "f").write_text("f")
    os.symlink("real", top / "alias")  # top/alias -> top/real
    os.symlink(str(top / "alias" / "f"), real / "l")  # l -> <top>/alias/f  == real/f
    assert os.path.realpath(real / "l") == os.path.realpath(real / "f")
    for base in (top / "alias", real):
        try:
            h = dir_hashsums(base)
            print(f"dir_hashsums({base}) -> {h}")
            if h.get("l") != "symlink:f":
                bad.append(f"base {base.name}: l recorded as {h.get('l')!r}, expected 'symlink:f'")
        except ValueError as e:
            print(f"dir_hashsums({base}) raised ValueError: {e}")
            bad.append(f"base {base.name}: in-directory symlink l -> {os.readlink(real / 'l')} rejected")
finally:
    shutil.rmtree(top)

if bad:
    print("PROPERTY VIOLATED (no snapshot can be taken of a valid tree with an in-directory symlink):")
    for b in bad:
        print("  -", b)
    sys.exit(1)
print("ok")
