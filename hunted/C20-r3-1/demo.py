import shim  # noqa: F401  (numpy-2 shim, puts $WT/src first)

"""A dict naming an aliased field BOTH by alias and by field name gets past validation.

node.meta["core.file"] = {..., "@id": "a.txt", "id_": <garbage>} is accepted, the garbage
is stored under "@id": the stored object violates the embedded JSON Schema (and cannot
be read back any more).
"""
import json
import shutil
import sys
import tempfile

import h5py
import jsonschema
from pydantic import ValidationError

from metador_core.container import MetadorContainer

good = dict(filename="a.txt", encodingFormat="text/plain", contentSize=1, sha256="ab")
bad = {**good, "@id": "a.txt", "id_": ["not", "a", "string"]}

problems = []
d = tempfile.mkdtemp()
try:
    with MetadorContainer(h5py.File(d + "/x.h5", "w")) as mc:
        mc["f"] = 1
        try:
            mc["f"].meta["core.file"] = bad
            print("attach: accepted")
        except (ValidationError, ValueError, TypeError) as e:
            print("attach: refused (fine):", type(e).__name__)

    with MetadorContainer(h5py.File(d + "/x.h5", "r")) as mc:
        for name, obj in mc["f"].meta.items():
            raw = json.loads(obj.node[()])
            print("stored:", raw)
            js = mc.metador.schemas[obj.schema]
            errs = list(jsonschema.Draft7Validator(js).iter_errors(raw))
            for e in errs:
                problems.append(
                    f"stored {name} object violates embedded JSON Schema at "
                    f"{list(e.absolute_path)}: {e.message}"
                )
            try:
                mc["f"].meta.get(name)
            except ValidationError as e:
                problems.append(f"stored {name} object cannot be read back: {e.errors()[0]}")
finally:
    shutil.rmtree(d, ignore_errors=True)

if problems:
    print("PROPERTY VIOLATED:")
    for p in problems:
        print(" -", p)
    sys.exit(1)
print("ok")
