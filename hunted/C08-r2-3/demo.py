import shim  # noqa: F401  (must be first)
import os
import re
import shutil
import sys
import tempfile

import h5py
import numpy as np

from metador_core.container import MetadorContainer

FILE = dict(id_="x", filename="x", encodingFormat="text/plain", contentSize=1,
            sha256="sha256:" + "0" * 64)

tmp = tempfile.mkdtemp()
problems = []
try:
    mc = MetadorContainer(h5py.File(os.path.join(tmp, "c.h5"), "w"))

    def check(node, what):
        for fn in (repr, str, format):
            txt = fn(node)
            m = re.search(r"\((\d+) members\)", txt)
            if m and int(m.group(1)) != len(node):
                problems.append(
                    f"{what}: {fn.__name__}() says {txt!r}, but len() == {len(node)} "
                    f"and keys() == {list(node.keys())}"
                )
                return

    # fresh, empty container: the user has created nothing
    check(mc["/"], "root group of an empty container")

    mc["g/x"] = np.arange(3)
    check(mc["g"], "group with one dataset, no metadata")  # fine: 1 member
    mc["g/x"].meta["core.file"] = FILE
    mc["g"].meta["core.file"] = FILE
    # attaching metadata changes the number of members the user is shown
    check(mc["g"], "group with one dataset after attaching metadata")
    mc.close()
finally:
    shutil.rmtree(tmp, ignore_errors=True)

if problems:
    print("PROPERTY VIOLATED (bookkeeping nodes are counted in the text form of a container group):")
    for p in problems:
        print(" -", p)
    sys.exit(1)
print("ok")
sys.exit(0)
