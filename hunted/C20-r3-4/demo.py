import shim  # noqa: F401  (numpy-2 shim, puts $WT/src first)

"""nan / inf in an extra (undeclared) field or inside a list there is accepted and
written as the bare words NaN / Infinity: the stored metadata object is no JSON
document, so it cannot be checked against the embedded JSON Schema by a JSON tool.
(Declared float fields refuse nan/inf: Config.allow_inf_nan = False "for JSON compat".)
"""
import json
import shutil
import sys
import tempfile

import h5py
import jsonschema
from pydantic import ValidationError

from metador_core.container import MetadorContainer


def strict_json(raw: bytes):
    def refuse(const):
        raise ValueError(f"'{const}' is not JSON")

    return json.loads(raw, parse_constant=refuse)


good = dict(filename="a.txt", encodingFormat="text/plain", contentSize=1, sha256="ab")
problems = []
d = tempfile.mkdtemp()
try:
    with MetadorContainer(h5py.File(d + "/x.h5", "w")) as mc:
        mc["f"] = 1
        try:
            mc["f"].meta["core.file"] = {**good, "temperature": float("nan"), "range": [0.5, float("inf")]}
            print("attach: accepted")
        except (ValidationError, ValueError) as e:
            print("attach: refused (fine):", type(e).__name__)

    with MetadorContainer(h5py.File(d + "/x.h5", "r")) as mc:
        for name, obj in mc["f"].meta.items():
            raw = obj.node[()]
            print("stored:", raw)
            try:
                dat = strict_json(raw)
            except ValueError as e:
                problems.append(f"stored {name} object is not JSON ({e}): {raw!r}")
                continue
            for e in jsonschema.Draft7Validator(mc.metador.schemas[obj.schema]).iter_errors(dat):
                problems.append(f"stored {name} object invalid: {e.message}")
finally:
    shutil.rmtree(d, ignore_errors=True)

if problems:
    print("PROPERTY VIOLATED:")
    for p in problems:
        print(" -", p)
    sys.exit(1)
print("ok")
