import shim  # noqa: F401  (must be first)
import sys

from metador_core.plugins import schemas

Person = schemas.get("core.person", (0, 1, 0))
TableMeta = schemas.get("core.table", (0, 1, 0))

NEL = "\x85"  # U+0085 NEXT LINE: an ordinary (if rare) character, e.g. in text converted from Latin-1 / EBCDIC sources

cases = [
    ("core.person description", Person(name="Jane Doe", description=f"first line{NEL}second line")),
    ("core.table column name", TableMeta(name="t", columns=[dict(name=f"a{NEL}b", unit="m")])),
    ("core.person extra field name", Person(name="Jane Doe", **{f"note{NEL}1": "x"})),
]

failed = False
for label, inst in cases:
    # JSON and bytes are fine ...
    assert type(inst).parse_raw(inst.json()) == inst
    assert type(inst).parse_raw(bytes(inst)) == inst
    # ... the YAML form is not
    raw = inst.yaml()
    try:
        back = type(inst).parse_raw(raw)
    except Exception as e:
        failed = True
        print(f"VIOLATION [{label}]: YAML form cannot be parsed: {e!r}")
        continue
    if back != inst:
        failed = True
        print(f"VIOLATION [{label}]: instance read back from its YAML form differs")
        print("   yaml     :", repr(raw))
        print("   original :", inst.json())
        print("   read back:", back.json())

sys.exit(1 if failed else 0)
