import shim  # noqa
import sys
from typing import Optional

from metador_core.schema import MetadataSchema


class A(MetadataSchema):  # extra fields are allowed and kept by default
    x: Optional[int]


P = A.Partial
problems = []

for key in ("cls", "_fields_set"):
    obj = A.parse_obj({"x": 1, key: ["v"]})  # a perfectly valid complete object
    assert obj.__dict__[key] == ["v"]
    # (the same data parsed directly as partial is fine)
    assert P.parse_obj({"x": 1, key: ["v"]}).from_partial() == obj

    try:
        back = P.to_partial(obj).from_partial()
        if back != obj:
            problems.append(
                f"extra field {key!r}: to_partial/from_partial gives {back.dict()!r} instead of {obj.dict()!r}"
            )
    except Exception as e:  # noqa
        problems.append(f"extra field {key!r}: to_partial raised {type(e).__name__}: {e}")

    try:
        merged = P().merge_with(obj)  # empty . obj
        if merged.__dict__.get(key) != ["v"]:
            problems.append(f"extra field {key!r}: value lost in empty.merge_with(obj): {merged!r}")
    except Exception as e:  # noqa
        problems.append(f"extra field {key!r}: empty.merge_with(obj) raised {type(e).__name__}: {e}")

    try:
        merged = P().merge_with({"x": 1, key: ["v"]}, ignore_invalid=True)  # all valid
        if merged.__dict__.get(key) != ["v"]:
            problems.append(f"extra field {key!r}: value lost with ignore_invalid: {merged!r}")
    except Exception as e:  # noqa
        problems.append(
            f"extra field {key!r}: merge_with(dict, ignore_invalid=True) raised {type(e).__name__}: {e}"
        )

if problems:
    print("PROPERTY VIOLATED (complete -> partial -> complete / no value dropped):")
    for p in problems:
        print(" -", p)
    sys.exit(1)
print("ok")
