import shim  # noqa: F401
import hashlib
import shutil
import sys
import tempfile
from pathlib import Path

import h5py

from metador_core.container import MetadorContainer
from metador_core.ih5.container import IH5Record
from metador_core.packer.utils import pack_file

FILES = {"empty.bin": b"", "trail.bin": b"abc\x00\x00", "high.bin": bytes(range(256))}


def open_new(tmp, drv, name):
    if drv == "hdf5":
        return MetadorContainer(h5py.File(tmp / f"{name}.h5", "w"))
    return MetadorContainer(IH5Record(tmp / name, "w"))


problems = []
tmp = Path(tempfile.mkdtemp())
try:
    for fname, content in FILES.items():
        (tmp / fname).write_bytes(content)

    n = 0
    for src_drv in ["hdf5", "ih5"]:
        for dst_drv in ["hdf5", "ih5"]:
            n += 1
            src = open_new(tmp, src_drv, f"src{n}")
            dst = open_new(tmp, dst_drv, f"dst{n}")
            for fname in FILES:
                pack_file(src, tmp / fname)
            for fname, content in FILES.items():
                tag = f"copy {src_drv} -> {dst_drv} of '{fname}'"
                try:
                    dst.copy(src[fname], fname)  # source given as node object
                    raw = dst[fname][()]
                    got = b"" if isinstance(raw, h5py.Empty) else raw.tobytes()
                    fm = dst[fname].meta["core.file"]
                    if (
                        got != content
                        or fm.contentSize != len(content)
                        or fm.sha256 != hashlib.sha256(content).hexdigest()
                    ):
                        problems.append(f"{tag}: wrong bytes or metadata")
                except Exception as e:
                    problems.append(f"{tag}: raised {type(e).__name__}: {e}")
            src.close()
            dst.close()
finally:
    shutil.rmtree(tmp, ignore_errors=True)

if problems:
    print("PROPERTY VIOLATED: embedded files do not survive a copy between the drivers:")
    for p in problems:
        print("  -", p)
    sys.exit(1)
print("ok: copies between all driver combinations keep bytes and file metadata")
sys.exit(0)
