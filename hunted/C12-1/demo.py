import shim  # noqa: F401  (must be first)
import sys

from metador_core.plugins import schemas

# Installed schema core.file, free-text field `description` (any text field behaves the same).
FileMeta = schemas.get("core.file", (0, 1, 0))

texts = {
    "two sentences": (
        "Measured at the beamline during the spring campaign; sample was annealed at "
        "450 C.  See the lab notebook for details."
    ),
    "long token then two spaces": "a" * 76 + "  " + "b" * 10,
}

failed = False
for label, text in texts.items():
    obj = FileMeta(
        filename="data.csv",
        encodingFormat="text/csv",
        contentSize=1,
        sha256="ab",
        description=text,
    )
    # control: JSON and bytes forms are fine
    assert FileMeta.parse_raw(obj.json()) == obj
    assert FileMeta.parse_raw(bytes(obj)) == obj

    back = FileMeta.parse_raw(obj.yaml())
    if back != obj:
        failed = True
        print(f"[{label}] YAML round trip changed the instance:")
        print("   original description:", repr(obj.description))
        print("   after yaml()+parse  :", repr(back.description))

if failed:
    print("FAIL: parsing the YAML form does not give an instance equal to the original")
    sys.exit(1)
print("ok")
