import shim  # noqa
"""move(source, dest) where both paths name the SAME node, once relative and once absolute
(both canonical): h5py refuses (destination exists), IH5 silently reports success."""
import os, shutil, sys, tempfile
import h5py
import numpy as np
from metador_core.container import MetadorContainer
from metador_core.ih5.container import IH5MFRecord, IH5Record

tmp = tempfile.mkdtemp()


def open_raw(kind):
    if kind == "h5py.File":
        return h5py.File(os.path.join(tmp, "plain.h5"), "w")
    cls = IH5Record if kind == "IH5Record" else IH5MFRecord
    return cls(os.path.join(tmp, kind), "w")


STEPS = [
    ("c.move('d', '/d')", lambda c: c.move("d", "/d")),
    ("c.move('/g', 'g')", lambda c: c.move("/g", "g")),
    ("raw.move('d', '/d')", lambda c: c.__wrapped__.move("d", "/d")),
    ("c.move('d', 'd')   (control)", lambda c: c.move("d", "d")),
]


def run(kind, boundary):
    raw = open_raw(kind + ("b" if boundary else ""))
    c = MetadorContainer(raw)
    c["d"] = np.arange(3)
    c["g/x"] = 1
    if boundary and kind != "h5py.File":
        raw.commit_patch()
        raw.create_patch()
    out = []
    for label, step in STEPS:
        try:
            step(c)
            out.append("ok")
        except Exception as e:  # noqa
            out.append("FAILS")
    raw.close()
    return out


try:
    ref = run("h5py.File", False)
    bad = False
    for kind in ("IH5Record", "IH5MFRecord"):
        for boundary in (False, True):
            got = run(kind, boundary)
            for (label, _), a, b in zip(STEPS, ref, got):
                if a != b:
                    bad = True
                    print(f"[{kind}, patch boundary={boundary}] {label}: h5py.File -> {a}, {kind} -> {b}")
    if bad:
        print("VIOLATION: the same move fails on HDF5 and succeeds on IH5")
        sys.exit(1)
    print("ok: same behaviour on all drivers")
    sys.exit(0)
finally:
    shutil.rmtree(tmp, ignore_errors=True)
