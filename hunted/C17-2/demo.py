import shim  # noqa: F401  (must be first)
import shutil
import sys
import tempfile
from pathlib import Path

import h5py
import numpy as np

from metador_core.container import MetadorContainer
from metador_core.ih5.container import IH5Record

MARK = b"\x7f"  # the one byte string reserved as IH5 deletion marker (as opaque scalar)

# different documented argument forms of create_dataset / require_dataset that all
# ask for "an opaque (void) scalar holding the single byte 0x7f"
FORMS = {
    "data=b'\\x7f', dtype='V1'": dict(data=MARK, dtype="V1"),
    "data=np.uint8(127), dtype='V1'": dict(data=np.uint8(127), dtype="V1"),
    "data=np.array([b'\\x7f'], 'V1'), shape=()": dict(
        data=np.array([MARK], dtype="V1"), shape=()
    ),
    "data=bytearray(b'\\x7f'), dtype='V1', shape=()": dict(
        data=bytearray(MARK), dtype="V1", shape=()
    ),
}


def stored_raw(files, path):
    """Look into the newest container file with plain h5py (read-only inspection)."""
    f = files[-1]
    with h5py.File(f, "r") as h:
        if path in h and isinstance(h[path], h5py.Dataset):
            v = h[path][()]
            return v.tobytes() if hasattr(v, "tobytes") else v
    return None


bad = []
d = Path(tempfile.mkdtemp())
try:
    for wrap in (False, True):  # raw IH5Record and MetadorContainer on top of it
        for meth in ("create_dataset", "require_dataset"):
            for i, (label, kw) in enumerate(FORMS.items()):
                what = f"{'MetadorContainer(IH5Record)' if wrap else 'IH5Record'}.{meth}('x', {label})"
                rec = IH5Record(d / f"r{int(wrap)}{meth[0]}{i}", "w")
                node = MetadorContainer(rec) if wrap else rec
                node["sentinel"] = np.void(b"ok")
                try:
                    getattr(node, meth)("x", **kw)
                except Exception as e:  # loud rejection is what the property demands
                    print(f"{what}: rejected ({type(e).__name__}) - fine")
                    rec.close()
                    continue
                visible = "x" in node
                files = list(rec.ih5_files)
                rec.close()
                raw = stored_raw(files, "/x")
                if raw == MARK or not visible:
                    bad.append(
                        f"{what}: no error; HDF5 file now holds {raw!r} at /x; "
                        f"'x' in record -> {visible}"
                    )
finally:
    shutil.rmtree(d)

if bad:
    print("PROPERTY VIOLATED: the IH5 deletion marker value was stored silently:")
    for b in bad:
        print("  -", b)
    sys.exit(1)
print("ok: every form of the marker value was rejected loudly")
sys.exit(0)
