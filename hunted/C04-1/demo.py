import shim  # noqa: F401  (must be first)

import gc
import shutil
import sys
import tempfile
from pathlib import Path

import numpy as np

from metador_core.ih5.container import IH5Record

# A writer prepares a patch; meanwhile a second, read-only IH5Record of the same
# record is opened (and closed again) in the same process. Then the writer commits.
# From that moment the record is "one base + one committed patch" and must stay
# byte-for-byte what was committed: writes without create_patch() must be refused,
# and the file set must open.

tmp = Path(tempfile.mkdtemp())
problems = []
try:
    p = tmp / "rec"
    w = IH5Record(p, "w")
    w["a"] = np.arange(10)
    w.commit_patch()  # committed base
    w.create_patch()
    w["b"] = 1  # uncommitted patch p1

    reader = None
    try:
        reader = IH5Record(p, "r")  # read-only look at the record
        assert reader.mode == "r"
        _ = reader["a"][()]
    except Exception as e:  # refusing a second view would be acceptable
        print("second view refused:", type(e).__name__, e)
    if reader is not None:
        try:
            reader.close()
        except Exception as e:
            # symptom only (its files stay open); not counted as violation by itself
            print(f"note: close() of the read-only record raised {type(e).__name__}: {e}")

    w.commit_patch()  # p1 is committed now (hashsum written into its user block)
    committed = {f.name: f.read_bytes() for f in tmp.glob("*.ih5")}

    # the committed record must be immutable until create_patch() is called
    try:
        w["late"] = 2
        problems.append(
            "writer: dataset assignment accepted after commit_patch() without create_patch()"
        )
    except (ValueError, KeyError):
        pass
    if reader is not None:
        try:
            reader.attrs["evil"] = 1
            problems.append("record opened with mode 'r' accepted an attribute write")
        except (ValueError, KeyError):
            pass

    # nothing is uncommitted from the user's point of view -> commit=False is harmless
    try:
        w.close(commit=False)
    except Exception as e:
        problems.append(f"writer close raised {type(e).__name__}: {e}")
    del w, reader
    gc.collect()

    now = {f.name: f.read_bytes() for f in tmp.glob("*.ih5")}
    changed = [n for n in committed if committed[n][1024:] != now.get(n, b"")[1024:]]
    try:
        chk = IH5Record(p, "r")
        keys = sorted(chk.keys())
        chk.close()
        if changed:
            problems.append(
                f"payload of committed container(s) {changed} changed after commit, "
                f"but the record still opens (keys={keys})"
            )
    except Exception as e:
        problems.append(
            f"record produced by a valid history is rejected: {type(e).__name__}: {e}"
            + (f" (payload of {changed} was altered after commit)" if changed else "")
        )
finally:
    shutil.rmtree(tmp, ignore_errors=True)

if problems:
    print("PROPERTY VIOLATED:")
    for x in problems:
        print(" -", x)
    sys.exit(1)
print("ok: committed containers stayed untouched and the record opens")
sys.exit(0)
