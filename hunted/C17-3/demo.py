import shim  # noqa: F401  (must be first)
import hashlib
import shutil
import sys
import tempfile
from pathlib import Path

import h5py
import numpy as np

from metador_core.container import MetadorContainer
from metador_core.ih5.container import IH5Record
from metador_core.packer.utils import pack_file

MARK = np.void(b"\x7f")  # IH5 deletion marker value

bad = []
d = Path(tempfile.mkdtemp())
try:
    # ---- (a) plain IH5 record: overwrite the content of a 1-byte dataset in place
    for in_patch in (False, True):
        rec = IH5Record(d / f"a{int(in_patch)}", "w")
        rec["keep"] = np.void(b"zz")
        if in_patch:
            rec.commit_patch()
            rec.create_patch()
        ds = rec.create_dataset("x", data=np.void(b"\x00"))
        where = "patch" if in_patch else "base container"
        try:
            ds[()] = MARK  # the dataset-level assignment of the h5py-like interface
        except Exception as e:
            print(f"(a) {where}: ds[()] = marker rejected ({type(e).__name__}) - fine")
        else:
            if "x" not in rec:
                bad.append(
                    f"(a) {where}: ds[()] = np.void(b'\\x7f') raised nothing, the marker was "
                    f"written and node 'x' vanished: keys={list(rec.keys())}"
                )
        rec.close()

    # ---- (b) the same with an embedded 1-byte file in a MetadorContainer on IH5
    (d / "one").write_bytes(b"A")
    rec = IH5Record(d / "b", "w")
    mc = MetadorContainer(rec)
    node = pack_file(mc, d / "one")
    assert node[()].tobytes() == b"A" and node.meta["core.file"].contentSize == 1
    try:
        node[()] = MARK
    except Exception as e:
        print(f"(b) node[()] = marker rejected ({type(e).__name__}) - fine")
    else:
        if "one" not in mc:
            left = [k for k in rec.keys()]
            bad.append(
                "(b) embedded file: node[()] = np.void(b'\\x7f') raised nothing; file node "
                f"'one' vanished from the container (raw keys left: {left}) - its "
                "core.file metadata is orphaned"
            )
    mc.close()
finally:
    shutil.rmtree(d)

if bad:
    print("PROPERTY VIOLATED: deletion marker stored silently through Dataset.__setitem__:")
    for b in bad:
        print("  -", b)
    sys.exit(1)
print("ok: marker value rejected by dataset assignment")
sys.exit(0)
