import shim  # noqa
import os, shutil, sys, tempfile

import h5py
import numpy as np

from metador_core.container import MetadorContainer
from metador_core.container.wrappers import MetadorNode

d = tempfile.mkdtemp()
problems = []
try:
    fn = os.path.join(d, "c.h5")
    # a perfectly valid HDF5 file with a committed ("named") datatype inside a group
    with h5py.File(fn, "w") as f:
        f["grp/data"] = np.arange(5)
        f["grp/mytype"] = np.dtype("<i4")
        f["other/secret"] = b"top secret"

    mc = MetadorContainer(h5py.File(fn, "r+"))
    node = mc["grp"].restrict(read_only=True, local_only=True, skel_only=True)

    reached = {}
    for how, f in {
        "node['mytype']": lambda: node["mytype"],
        "node.get('mytype')": lambda: node.get("mytype"),
        "dict(node.items())['mytype']": lambda: dict(node.items())["mytype"],
        "node.visititems(...)": lambda: node.visititems(lambda n, o: o if n == "mytype" else None),
    }.items():
        try:
            obj = f()
        except Exception:
            continue  # refused / hidden -> fine
        if obj is None:
            continue
        if not isinstance(obj, MetadorNode):
            reached[how] = obj
            problems.append(f"{how} yields an unwrapped {type(obj).__module__}.{type(obj).__name__}")

    if reached:
        raw = next(iter(reached.values()))
        try:
            par = raw.parent
            problems.append(f"  its .parent is a raw {type(par).__name__} '{par.name}' without restrictions")
            par["written_via_ro"] = 1
            if "grp/written_via_ro" in mc.__wrapped__:
                problems.append("  read_only escaped: created /grp/written_via_ro")
            raw.attrs["a"] = 1
            if "a" in mc.__wrapped__["grp/mytype"].attrs:
                problems.append("  read_only escaped: attribute set on /grp/mytype")
            val = raw.file["other/secret"][()]
            problems.append(f"  local_only+skel_only escaped: read /other/secret = {val!r}")
        except Exception as e:
            problems.append(f"  (navigation from it failed: {e!r})")
    mc.close()
finally:
    shutil.rmtree(d)

if problems:
    print("VIOLATION: a named datatype inside a restricted group is handed out raw:")
    for p in problems:
        print("  -", p)
    sys.exit(1)
print("ok: nothing unrestricted is reachable")
