import shim  # noqa: F401  (must be first)

import sys
from typing import Dict, List

from metador_core.plugins import schemas
from metador_core.schema import MetadataSchema

violations = []


def trial(label, make, inputs):
    try:
        P, C = make()
        schemas.check_plugin("demo.child", C)  # what is done when a plugin is loaded
    except Exception as e:  # refused -> this is what the property wants
        print(f"refused (fine): {label}: {type(e).__name__}: {str(e).strip().splitlines()[0]}")
        return
    print(f"{label}: accepted by check_plugin; child field is now: {C.__fields__['x']!r}")
    for inp in inputs:
        try:
            obj = C.parse_obj(inp)
        except Exception:
            continue
        ser = obj.json()
        try:
            P.parse_raw(ser)
        except Exception as e:
            msg = str(e).replace("\n", " ")
            violations.append(label)
            print(f"VIOLATION: child accepts {inp!r}, serialises to {ser}; parent rejects: {msg}")


def case_list():
    class P(MetadataSchema):
        x: List[str]
        """A list of keywords."""

    class C(P):
        x = "misc"  # looks like "just a new default", no annotation -> no override detected

    return P, C


def case_dict():
    class P(MetadataSchema):
        x: Dict[str, int]

    class C(P):
        x = 0

    return P, C


trial("parent x: List[str], child `x = 'misc'`", case_list, [{}, {"x": "abc"}, {"x": ["abc"]}])
trial("parent x: Dict[str, int], child `x = 0`", case_dict, [{}, {"x": 5}, {"x": {"a": 5}}])

if violations:
    print("\nA child that re-assigns an inherited field without annotation silently changes the "
          "field from a collection to a scalar; the override check does not see it.")
    sys.exit(1)
print("ok")
