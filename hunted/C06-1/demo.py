import shim  # noqa: F401  (numpy-2 shim + puts $WT/src first on sys.path)
import os, shutil, sys, tempfile

import h5py

from metador_core.container import MetadorContainer
from metador_core.ih5.container import IH5Record

# ---------------------------------------------------------------------------
# Independent on-disk audit (works on a plain h5py.File or a raw IH5Record, no library internals):
# returns a list of violations of "TOC and attached metadata are in exact one-to-one sync".
TOC = "/metador_container"


def audit(raw):
    nodes = {}
    raw.visititems(lambda _, n: nodes.__setitem__(n.name, n))
    probs, objs = [], {}
    for p, n in nodes.items():
        if p == TOC or p.startswith(TOC + "/"):
            continue
        segs = p.split("/")
        internal = [i for i, s in enumerate(segs) if s.startswith("metador_")]
        if not internal:
            continue  # ordinary user node
        i = internal[0]
        if not segs[i].startswith("metador_meta_"):
            probs.append(f"internal bookkeeping node outside of the TOC: {p}")
        elif i == len(segs) - 1:  # metadata directory of a node
            owner = segs[i][len("metador_meta_"):]
            owner_path = "/".join(segs[:i] + ([owner] if owner else [])) or "/"
            if owner_path not in raw:
                probs.append(f"metadata dir {p} belongs to non-existing node {owner_path}")
            if len(n) == 0:
                probs.append(f"empty metadata dir {p}")
        elif i == len(segs) - 2:  # metadata object <schema>__<ver>=<uuid>
            ep, uuid = segs[-1].split("=")
            objs[p] = (uuid, ep)
        else:
            probs.append(f"unexpected node inside metadata dir: {p}")
    links = {}
    if TOC + "/links" in raw:
        for ep, grp in raw[TOC + "/links"].items():
            if len(grp) == 0:
                probs.append(f"empty TOC link group for {ep}")
            for uuid, ln in grp.items():
                links[uuid] = (ln[()].decode("utf-8"), ep)
    seen = {}
    for p, (uuid, ep) in objs.items():
        if uuid in seen:
            probs.append(f"UUID {uuid} used twice: {p} and {seen[uuid]}")
        seen[uuid] = p
        if uuid not in links:
            probs.append(f"attached object {p} has no TOC link")
        elif links[uuid] != (p, ep):
            probs.append(f"TOC link of {p} points to {links[uuid]}")
    for uuid, (tgt, ep) in links.items():
        if tgt not in objs:
            probs.append(f"TOC link {ep}/{uuid} -> {tgt} is dangling")
    used = {ep for _, ep in objs.values()}
    stored = set(raw[TOC + "/schemas"].keys()) if TOC + "/schemas" in raw else set()
    if used != stored:
        probs.append(f"schemas in use {sorted(used)} != schema records {sorted(stored)}")
    pkgs = set(raw[TOC + "/packages"].keys()) if TOC + "/packages" in raw else set()
    if bool(pkgs) != bool(used):
        probs.append(f"package records {sorted(pkgs)} but schemas in use {sorted(used)}")
    for sub in ("links", "schemas", "packages"):
        if f"{TOC}/{sub}" in raw and len(raw[f"{TOC}/{sub}"]) == 0:
            probs.append(f"empty bookkeeping group {TOC}/{sub}")
    return probs
# ---------------------------------------------------------------------------

PERSON = {"name": "Jane Doe"}


def main():
    d = tempfile.mkdtemp()
    try:
        prefix = os.path.join(d, "rec")
        rec = IH5Record(prefix, "w")
        mc = MetadorContainer(rec)
        mc["a"] = 1
        rec.commit_patch()  # base container: one dataset, no metadata

        # (MetadorContainer does not forward the patch methods; should a repaired version
        # offer them on the container itself, prefer those)
        discard_patch = getattr(mc, "discard_patch", None) or rec.discard_patch
        create_patch = getattr(mc, "create_patch", None) or rec.create_patch

        create_patch()
        mc["a"].meta["core.person"] = PERSON  # first use of the schema -> schema+package record
        discard_patch()  # the user changes their mind: everything of this patch is gone

        create_patch()
        try:
            mc["a"].meta["core.person"] = PERSON  # attach (again) in a new patch
        except Exception as e:  # a refusal would be fine too, as long as everything stays in sync
            print("second attach refused:", type(e).__name__, e)
        in_mem = sorted(str(s) for s in mc.metador.schemas.keys())
        rec.commit_patch()
        mc.close()

        raw = IH5Record(prefix, "r")
        problems = audit(raw)
        raw.close()
        mc2 = MetadorContainer(IH5Record(prefix, "r"))
        after_reopen = sorted(str(s) for s in mc2.metador.schemas.keys())
        attached = list(mc2["a"].meta.keys())
        mc2.close()
        if in_mem != after_reopen:
            problems.append(
                f"mc.metador.schemas before close: {in_mem}, after reopen: {after_reopen} "
                f"(attached at /a: {attached})"
            )
        if problems:
            print("VIOLATION after attach / discard_patch / create_patch / attach:")
            for p in problems:
                print("  -", p)
            return 1
        print("ok: TOC in sync")
        return 0
    finally:
        shutil.rmtree(d, ignore_errors=True)


sys.exit(main())
