import shim  # noqa: F401  (must be first)
import os
import shutil
import sys
import tempfile

import h5py
import numpy as np

from metador_core.ih5.container import IH5Record

# History (the same on the plain tree and on the record, except for the patch boundary
# and the IH5-only step copy_into_patch() that IH5 requires before writing into a
# dataset that lives in an older container):
#   d = [1,2,3]; d.attrs["unit"] = "m"; e = [1,2,3]; e.attrs["unit"] = "s"
#   ---- commit + create_patch ----
#   d[0] = 99
#   e.attrs["note"] = "x"; e[0] = 7


def view(root):
    return {
        k: (root[k][()].tolist(), {a: v for a, v in root[k].attrs.items()})
        for k in ("d", "e")
    }


tmp = tempfile.mkdtemp()
problems = []
try:
    # reference: a single plain HDF5 tree
    ref = h5py.File(os.path.join(tmp, "ref.h5"), "w")
    ref["d"] = [1, 2, 3]
    ref["d"].attrs["unit"] = "m"
    ref["e"] = [1, 2, 3]
    ref["e"].attrs["unit"] = "s"
    ref["d"][0] = 99
    ref["e"].attrs["note"] = "x"
    ref["e"][0] = 7
    want = view(ref)
    ref.close()

    rec = IH5Record(os.path.join(tmp, "rec"), "w")
    rec["d"] = [1, 2, 3]
    rec["d"].attrs["unit"] = "m"
    rec["e"] = [1, 2, 3]
    rec["e"].attrs["unit"] = "s"
    rec.commit_patch()
    rec.create_patch()  # <- the only difference: a patch boundary

    rec["d"].copy_into_patch()  # documented way to edit a dataset of an older container
    rec["d"][0] = 99

    rec["e"].attrs["note"] = "x"
    try:
        rec["e"].copy_into_patch()
        rec["e"][0] = 7
    except Exception as e:
        problems.append(
            f"copy_into_patch() after setting an attribute in the same patch failed: "
            f"{type(e).__name__}: {e}"
        )

    got = view(rec)
    rec.close()
    with IH5Record(os.path.join(tmp, "rec"), "r") as rec:
        got2 = view(rec)

    for name, g in (("live record", got), ("reopened record", got2)):
        for k in want:
            if g[k] != want[k]:
                problems.append(f"{name}: /{k} is {g[k]}, single tree has {want[k]}")
finally:
    shutil.rmtree(tmp)

if problems:
    print("IH5 overlay is not transparent around copy_into_patch():")
    for p in problems:
        print("  -", p)
    sys.exit(1)
print("ok")
