import shim  # noqa: F401
import shutil
import sys
import tempfile
from pathlib import Path

from metador_core.ih5.container import IH5Record

# A record whose newest patch was written but NOT committed (close(commit=False), or a
# writer that died) and that is then opened read-only must not be mergeable: the patch
# is still "uncommitted changes" (no hashsum, will be continued by the next r+/a open).

d = Path(tempfile.mkdtemp())
problems = []
try:
    r = IH5Record(d / "src", "w")
    r["a"] = 1
    r.commit_patch()
    r.create_patch()
    r["b"] = 2
    r.close(commit=False)  # documented: leaves the patch container uncommitted

    with IH5Record(d / "src", "r") as ro:
        last = ro.ih5_meta[-1]
        assert last.hdf5_hashsum is None  # the newest container really is uncommitted
        try:
            merged = ro.merge_files(d / "mrg")
        except ValueError as e:
            print("OK, merge refused:", e)
            merged = None

    if merged is not None:
        problems.append(
            "merge_files() of a record with an uncommitted patch was NOT refused (mode 'r')"
        )
        with IH5Record(d / "mrg", "r") as m:
            mub = m.ih5_meta[0]
            print("merged container claims patch_uuid", mub.patch_uuid, "hashsum", mub.hdf5_hashsum)
            print("uncommitted source patch has   ", last.patch_uuid, "hashsum", last.hdf5_hashsum)

        # the source patch is still open for changes: continue + commit it, add a follow-up
        with IH5Record(d / "src", "r+") as rw:  # re-opens the incomplete patch writable
            rw["c"] = 3
            rw.commit_patch()  # patch state <patch_uuid> of the source is now {a,b,c}
            rw.create_patch()
            rw["c"].attrs["k"] = 1
            rw.commit_patch()
            files = rw.ih5_files
            src_view = {k: type(v).__name__ for k, v in rw.items()}
        # the follow-up patch is accepted on top of the merged container, other result
        with IH5Record([d / "mrg.ih5", files[-1]], "r") as x:
            mrg_view = {k: type(v).__name__ for k, v in x.items()}
        print("source + follow-up patch:", src_view)
        print("merged + follow-up patch:", mrg_view)
        if src_view != mrg_view:
            problems.append(
                "same patch_uuid, different content: follow-up patch gives a different tree"
            )
finally:
    shutil.rmtree(d)

for p in problems:
    print("VIOLATION:", p)
sys.exit(1 if problems else 0)
