import shim
import os, shutil, sys, tempfile
from metador_core.ih5.container import IH5Record, IH5MFRecord

d = tempfile.mkdtemp()
problems = []
try:
    name_max = os.pathconf(d, "PC_NAME_MAX")  # usually 255
    # a valid record name: the container 'NAME.ih5' fits into a file name,
    # its manifest 'NAME.ih5mf.json' (7 characters longer) does not
    name = "n" * (name_max - len(".ih5") - 3)
    assert IH5Record._is_valid_record_name(name)
    rec = f"{d}/{name}"

    created = True
    try:
        r = IH5MFRecord(rec, "w")
    except Exception:
        created = False  # refusing such a name right away would be fine
    if created:
        r["a/b"] = 1
        r.attrs["k"] = "v"
        before = sorted(r.keys()), dict(r.attrs.items())
        close_error = None
        try:
            r.close()
        except Exception as e:
            close_error = f"{type(e).__name__}: {str(e)[:60]}..."
            r.close(commit=False)  # just release the files
        # whatever close() reported: the files on disk are what is left to the user
        try:
            r = IH5MFRecord(rec, "r")
            if (sorted(r.keys()), dict(r.attrs.items())) != before:
                problems.append("reopened record shows a different view")
            r.close()
        except Exception as e:
            with IH5Record(rec, "r") as plain:
                committed = plain.ih5_meta[-1].hdf5_hashsum is not None
            problems.append(
                f"close() -> {close_error}; the container {'was committed' if committed else 'is uncommitted'} "
                f"and its user block points to a manifest that was never written, the record cannot be "
                f"reopened as IH5MFRecord in any mode: {type(e).__name__}: ...{str(e)[-60:]}"
            )
            for mode in ("r+", "a"):
                try:
                    IH5MFRecord(rec, mode).close(commit=False)
                except Exception:
                    continue
                problems.pop()
                break
finally:
    shutil.rmtree(d)

if problems:
    print("PROPERTY VIOLATED:")
    for p in problems:
        print("  -", p)
    sys.exit(1)
print("ok")
