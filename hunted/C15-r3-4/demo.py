import shim  # noqa
import os, shutil, sys, tempfile

import h5py

from metador_core.container import MetadorContainer

d = tempfile.mkdtemp()
problems = []
try:
    mc = MetadorContainer(h5py.File(os.path.join(d, "c.h5"), "w"))
    mc["grp/data"] = 1
    mc["grp"].attrs["pin"] = 4711
    mc["grp/data"].attrs["pin"] = 815

    for path in ["grp", "grp/data"]:
        real = mc[path].attrs["pin"]
        skel = mc[path].restrict(skel_only=True)
        attrs = skel.attrs
        # sanity: direct ways are refused
        for name, f in {"[]": lambda: attrs["pin"], "get": lambda: attrs.get("pin"),
                        "values": lambda: list(attrs.values()), "items": lambda: dict(attrs.items())}.items():
            try:
                f()
                problems.append(f"{path}: attrs.{name} was not refused")
            except AttributeError:
                pass

        # comparison is forwarded to the raw AttributeManager (Mapping.__eq__ compares the values)
        try:
            yes, no = attrs == {"pin": real}, attrs == {"pin": real + 1}
            if yes is True and no is False:
                problems.append(f"{path}: `skel.attrs == {{'pin': x}}` is answered from the attribute value")
        except Exception:
            pass

        class Spy:
            seen = []
            def __eq__(self, other):
                Spy.seen.append(other)
                return True
        try:
            attrs == {"pin": Spy()}
            attrs != {"pin": Spy()}
        except Exception:
            pass
        if any(v == real for v in Spy.seen):
            problems.append(f"{path}: the comparison hands the attribute value to the other operand: {Spy.seen!r}")
    mc.close()
finally:
    shutil.rmtree(d)

if problems:
    print("VIOLATION: skel_only attribute set yields attribute values through ==:")
    for p in problems:
        print("  -", p)
    sys.exit(1)
print("ok: attribute values of a skel_only node stay hidden")
