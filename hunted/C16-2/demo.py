import shim  # noqa
import sys

import importlib_metadata

from metador_core.plugin.interface import PluginGroup
from metador_core.plugin.types import EPName, from_ep_name, to_ep_name
from metador_core.plugin.util import check_implements_method

problems = []

# ---- (a) entry-point name -> (name, version) -> entry-point name must not lose anything
candidates = [
    "test.plugin__1.0.0",
    "test.plugin__0.10.0",
    "test.plugin__01.0.0",
    "test.plugin__1.00.0",
    "test.plugin__1.2.003",
    "aa-bb.cc_dd__00.0.0",
]
for s in candidates:
    try:
        ep_name = EPName(s)
    except TypeError:
        continue  # not a valid entry point name -> nothing to convert (fine)
    name, version = from_ep_name(ep_name)
    back = to_ep_name(name, version)
    if back != ep_name:
        problems.append(
            f"valid entry point name {s!r} -> {(name, version)!r} -> {str(back)!r} (lost the original name)"
        )


# ---- (b) consequence inside a plugin group
class DummyBase:
    def perform(self):
        ...


class PGDummy(PluginGroup):
    class Plugin:
        name = "dummy"
        version = (0, 1, 0)
        plugin_class = DummyBase

    def check_plugin(self, ep_name, plugin):
        check_implements_method(ep_name, plugin, DummyBase.perform)


class PluginOld(DummyBase):
    class Plugin:
        name = "test.plugin"
        version = (0, 9, 0)

    def perform(self):
        ...


class PluginNew(DummyBase):
    class Plugin:
        name = "test.plugin"
        version = (1, 0, 0)

    def perform(self):
        ...


class FakeDist:
    name = "foo"
    version = "1.2.3"


def ep(obj, ep_name):
    return importlib_metadata.EntryPoint(
        ep_name, f"{obj.__module__}:{obj.__qualname__}", "metador_dummy"
    )._for(FakeDist)


eps = {
    "test.plugin__0.9.0": ep(PluginOld, "test.plugin__0.9.0"),
    "test.plugin__01.0.0": ep(PluginNew, "test.plugin__01.0.0"),
}
try:
    pg = PGDummy(eps)
except (ValueError, TypeError) as e:
    print("group rejected the entry point name:", e)
    pg = None

if pg is not None:
    listed = [r.version for r in pg.versions("test.plugin")]
    ref = pg.resolve("test.plugin", (1, 0, 0))
    got = pg.get("test.plugin", (1, 0, 0))
    print("listed versions:", listed, "| resolve(1.0.0) ->", ref, "| get(1.0.0) ->", got)
    if ref is not None and got is None:
        problems.append(
            f"group lists {listed} and resolves (1,0,0) to {ref}, but get('test.plugin', (1,0,0)) returns None"
        )
    if "test.plugin" in pg:
        try:
            item = pg["test.plugin"]
        except KeyError:
            item = "KeyError"
        if item is None:
            problems.append(
                "'test.plugin' in group is True, but group['test.plugin'] silently returns None"
            )

if problems:
    print("VIOLATION:")
    for p in problems:
        print("  -", p)
    sys.exit(1)
print("ok")
sys.exit(0)
