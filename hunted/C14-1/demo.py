import shim  # noqa
import shutil
import sys
import tempfile
from pathlib import Path

from metador_core.harvester import harvest, metadata_loader
from metador_core.plugins import harvesters, schemas
from metador_core.schema.common import schemaorg as so

FileMeta = schemas.get("core.file", (0, 1, 0))
ImageFileMeta = schemas.get("core.imagefile", (0, 1, 0))
problems = []


def attempt(label, func, expected):
    try:
        got = func()
    except Exception as e:  # noqa
        msg = str(e).replace("\n", " | ")[:160]
        problems.append(f"{label}: raised {type(e).__name__}: {msg}")
        return
    if got != expected:
        problems.append(f"{label}: got {got.json()} expected {expected.json()}")


# (a) complete object -> JSON/dict/YAML -> partial -> back
p = so.Person(name="Bob", affiliation=so.Organization(name="FZJ", address="Juelich"))
assert so.Person.parse_raw(p.json()) == p  # the complete model round-trips fine
P = so.Person.Partial
attempt("Person via to_partial", lambda: P.to_partial(p).from_partial(), p)
attempt("Person via JSON", lambda: P.parse_raw(p.json()).from_partial(), p)
attempt("Person via dict", lambda: P.parse_obj(p.dict()).from_partial(), p)
attempt("Person via YAML", lambda: P.parse_raw(p.yaml()).from_partial(), p)
# (b) identity law: empty (+) dict-operand
attempt("empty.merge_with(dict)", lambda: P().merge_with(p.dict()).from_partial(), p)

# (c) parent-class partial merged into child-class empty partial (cast goes via dict)
f = FileMeta(
    filename="a.png", encodingFormat="image/png", contentSize=0, sha256="00",
    author=[so.Person(name="Jane")],
)
fp = FileMeta.Partial.to_partial(f)
attempt(
    "ImageFileMeta.Partial() (+) FileMeta partial == FileMeta partial",
    lambda: FileMeta.Partial.to_partial(
        ImageFileMeta.Partial().merge_with(fp)
    ).from_partial(),
    f,
)

# (d) the real-world path: sidecar YAML with an author, harvested + merged
d = Path(tempfile.mkdtemp())
try:
    data = d / "a.txt"
    data.write_text("hello")
    (d / "a.txt_meta.yaml").write_text("author:\n  - name: Jane Doe\n")
    hv = harvesters["core.file.generic"]
    loader = metadata_loader(FileMeta, use_sidecar=True)
    try:
        r = harvest(FileMeta, [hv(filepath=data), loader(filepath=data)])
        if [a.name for a in r.author] != ["Jane Doe"] or not isinstance(r.author[0], so.Person):
            problems.append(f"harvest: author wrong: {r.author!r}")
    except Exception as e:  # noqa
        msg = str(e).replace("\n", " | ")[:160]
        problems.append(f"harvest with sidecar author: raised {type(e).__name__}: {msg}")
finally:
    shutil.rmtree(d)

if problems:
    print("PROPERTY VIOLATED (partial -> complete round trip / identity law):")
    for x in problems:
        print(" -", x)
    sys.exit(1)
print("ok")
