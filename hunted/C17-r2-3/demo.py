import shim  # noqa: F401
import hashlib
import shutil
import sys
import tempfile
from pathlib import Path

import h5py

from metador_core.container import MetadorContainer
from metador_core.packer.utils import pack_file

# NOTE: needs about 5 GiB of RAM and (only if embedding works) 2 GiB of disk space.
SIZE = 2**31  # 2 GiB: one byte more than the largest size that works (2**31 - 1)

problems = []
tmp = Path(tempfile.mkdtemp())
try:
    src = tmp / "big.bin"
    with open(src, "wb") as f:  # sparse file: zeros with a non-zero head and trailing NULs
        f.write(b"HEAD\xff")
        f.truncate(SIZE)

    mc = MetadorContainer(h5py.File(tmp / "c.h5", "w"))
    try:
        ds = pack_file(mc, src)
    except Exception as e:
        problems.append(
            f"pack_file of a {SIZE} byte file raised {type(e).__name__}: {e} "
            f"(nothing embedded: {'big.bin' not in mc})"
        )
    else:
        sha = hashlib.sha256()
        with open(src, "rb") as f:
            while chunk := f.read(2**24):
                sha.update(chunk)
        got = ds[()].tobytes()
        meta = ds.meta["core.file"]
        if len(got) != SIZE or hashlib.sha256(got).hexdigest() != sha.hexdigest():
            problems.append("bytes read back differ from the source file")
        if meta.contentSize != SIZE or meta.sha256 != sha.hexdigest():
            problems.append(f"metadata wrong: {meta.contentSize} {meta.sha256}")
    mc.close()
finally:
    shutil.rmtree(tmp, ignore_errors=True)

if problems:
    print("PROPERTY VIOLATED (file of 'any length' cannot be embedded):")
    for p in problems:
        print("  -", p)
    sys.exit(1)
print("ok: 2 GiB file embedded with exact bytes, size and sha256")
sys.exit(0)
