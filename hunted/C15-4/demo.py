import shim  # noqa: F401
import os, shutil, sys, tempfile
import h5py, numpy as np
from metador_core.container import MetadorContainer
from metador_core.container.interface import NodeAcl
from metador_core.ih5.container import IH5Record

problems = []
d = tempfile.mkdtemp()
try:
    for drv in ("h5py", "ih5"):
        if drv == "h5py":
            mc = MetadorContainer(h5py.File(os.path.join(d, "a.h5"), "w"))
        else:
            mc = MetadorContainer(IH5Record(os.path.join(d, "rec"), "w"))
        mc["g/sub/ds"] = np.arange(5)
        mc["g/sub/ds"].attrs["a"] = 7

        for flag in ("read_only", "skel_only"):
            # a (writable) local_only view of /g, e.g. handed to some component
            loc = mc["g"].restrict(local_only=True)
            for child_path in ("sub", "sub/ds"):
                # a child of it gets restricted further
                child = loc[child_path].restrict(**{flag: True})
                assert child.acl[NodeAcl[flag]]
                # navigation primitive `parent` from the restricted child
                try:
                    par = child.parent
                except AttributeError:
                    continue
                if not par.acl[NodeAcl[flag]]:
                    problems.append(f"[{drv}] <local_only g>[{child_path!r}].restrict({flag}=True).parent "
                                    f"= {par.name} is not {flag}: "
                                    f"{ {k.name: v for k, v in par.acl.items()} }")
                if flag == "read_only":
                    try:
                        par["sub/ds"][0] = 99
                        par["sub/new"] = 1
                    except Exception:
                        pass
                    if mc["g/sub/ds"][0] == 99 or "g/sub/new" in mc:
                        problems.append(f"[{drv}] container mutated starting from read_only node {child.name} "
                                        f"via .parent (ds[0]={mc['g/sub/ds'][0]}, new={'g/sub/new' in mc})")
                        mc["g/sub/ds"][0] = 0
                        if "g/sub/new" in mc:
                            del mc["g/sub/new"]
                else:
                    try:
                        got = par["sub/ds"][()]
                        att = par["sub/ds"].attrs["a"]
                        problems.append(f"[{drv}] skel_only node {child.name} yields data {list(got)} and attr {att} via .parent")
                    except AttributeError:
                        pass
        mc.close()
finally:
    shutil.rmtree(d)

if problems:
    print("PROPERTY VIOLATED:")
    for p in problems:
        print(" -", p)
    sys.exit(1)
print("ok")
