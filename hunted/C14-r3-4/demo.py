import shim  # noqa: F401  (must be first)
import sys

from metador_core.schema.common.schemaorg import Product

# installed schema class, field  material: Optional[Union[URL, Text, Product]]
# (one model class at this position, so no "unrelated sibling classes" are involved)
P = Product.Partial
problems = []


def assoc(label, a, b, c, show):
    kw = dict(allow_overwrite=True)  # the later value wins - no merge below may raise
    left = a.merge_with(b, **kw).merge_with(c, **kw)
    right = a.merge_with(b.merge_with(c, **kw), **kw)
    if left != right:
        problems.append(f"{label}: (a+b)+c = {show(left)}   but   a+(b+c) = {show(right)}")


# 1. typed field holding a nested object / a plain string / a nested object
assoc(
    "Product.material",
    P.parse_obj({"material": {"name": "steel"}}),
    P.parse_obj({"material": "wood"}),
    P.parse_obj({"material": {"description": "hard"}}),
    lambda r: r.material.dict(exclude={"@context", "@type"}),
)

# 2. the same with lists (here in an extra field, which metador schemas keep by default)
assoc(
    "extra field 'tags'",
    P.parse_obj({"tags": [1]}),
    P.parse_obj({"tags": 2}),
    P.parse_obj({"tags": [3]}),
    lambda r: r.dict()["tags"],
)

if problems:
    print("PROPERTY VIOLATED (merge with allow_overwrite=True is not associative):")
    for p in problems:
        print("  -", p)
    sys.exit(1)
print("ok")
