import shim  # noqa: F401  (must be first)

import shutil
import sys
import tempfile
from pathlib import Path

from metador_core.ih5.container import IH5MFRecord, IH5Record
from metador_core.ih5.manifest import IH5Manifest

# Merging a record that has no manifest (yet) through IH5MFRecord.merge_files
# leaves a manifest file next to the merged container that describes a
# DIFFERENT (throw-away) record, and the merged file set is accepted anyway.

d = Path(tempfile.mkdtemp())
problems = []
try:
    # a plain IH5 record (documented: may be opened as IH5MFRecord at any time)
    with IH5Record(d / "rec", "w") as r:
        r["a"] = 1
    with IH5Record(d / "rec", "r+") as r:
        r["b"] = 2

    with IH5MFRecord(d / "rec", "r") as r:
        orig_record_uuid = r.ih5_uuid
        merged_file = r.merge_files(d / "merged")

    mf_path = Path(f"{merged_file}mf.json")  # canonical manifest of merged.ih5
    print("files after merge:", sorted(p.name for p in d.iterdir()))

    # open the merged file set as IH5MFRecord
    try:
        m = IH5MFRecord(d / "merged", "r")
    except Exception as e:  # refusing the set would be fine wrt. the property
        print("merged set refused:", type(e).__name__, e)
        m = None

    if m is not None:
        cont_ub = m.ih5_meta[-1]
        m.close()
        if cont_ub.record_uuid != orig_record_uuid:
            problems.append("merged container lost the record_uuid of the record")
        if mf_path.is_file():
            mf = IH5Manifest.parse_file(mf_path)
            if (
                mf.user_block.record_uuid != cont_ub.record_uuid
                or mf.user_block.patch_uuid != cont_ub.patch_uuid
                or mf.user_block.patch_index != cont_ub.patch_index
            ):
                problems.append(
                    "file set {merged.ih5, merged.ih5mf.json} was ACCEPTED although the "
                    "manifest does not belong to the container:\n"
                    f"   container: record_uuid={cont_ub.record_uuid} "
                    f"patch_uuid={cont_ub.patch_uuid} patch_index={cont_ub.patch_index}\n"
                    f"   manifest : record_uuid={mf.user_block.record_uuid} "
                    f"patch_uuid={mf.user_block.patch_uuid} "
                    f"patch_index={mf.user_block.patch_index}"
                )

            # consequence: the manifest is what tools use to patch "in thin air"
            sd = d / "stubdir"
            sd.mkdir()
            stub = IH5MFRecord.create_stub(sd / "merged", mf_path)
            stub.create_patch()
            stub["c"] = 3
            stub.commit_patch()
            patch = stub.ih5_files[-1]
            stub.close()
            shutil.copy(patch, d / patch.name)
            try:
                with IH5Record(d / "merged", "r") as chk:
                    assert sorted(chk.keys()) == ["a", "b", "c"]
            except Exception as e:
                problems.append(
                    "a patch made on a stub of merged.ih5mf.json does not fit "
                    f"merged.ih5: {type(e).__name__}: {e}"
                )
finally:
    shutil.rmtree(d, ignore_errors=True)

if problems:
    print("PROPERTY VIOLATED:")
    for p in problems:
        print(" -", p)
    sys.exit(1)
print("ok")
sys.exit(0)
