import shim  # noqa: F401  (must be first)
import os
import shutil
import sys
import tempfile

import h5py

from metador_core.container import MetadorContainer
from metador_core.plugins import schemas

FILE = dict(filename="x.png", encodingFormat="image/png", contentSize=1, sha256="ab")
IMG = dict(FILE, width=10, height=20)

tmp = tempfile.mkdtemp()
problems = []
try:
    path = os.path.join(tmp, "c.h5")
    with MetadorContainer(h5py.File(path, "w")) as mc:
        mc["d"] = [1, 2, 3]
        mc["d"].meta["core.imagefile"] = IMG

    with MetadorContainer(h5py.File(path, "r")) as mc:  # freshly opened
        ts = mc.metador.schemas  # dict-like: keys/values/items/[]/get/in/len
        used = schemas.PluginRef(name="core.imagefile", version=(0, 1, 0))
        unused = schemas.PluginRef(name="core.table", version=(0, 1, 0))
        parent_only = schemas.PluginRef(name="core.file", version=(0, 1, 0))  # only in the parent chain

        expected = schemas.get("core.imagefile", (0, 1, 0)).schema()
        assert used in ts and ts[used] == expected and dict(ts.items())[used] == expected

        got = ts.get(used)
        if got != expected:
            problems.append(f"metador.schemas.get(<used schema>) reports {got!r} although metador.schemas[<used schema>] is the embedded JSON Schema")
        for label, ref in (("unused schema", unused), ("schema only used as parent", parent_only)):
            try:
                got = ts.get(ref)
                if got is not None:
                    problems.append(f"metador.schemas.get(<{label}>) returned {got!r}")
            except BaseException as e:
                problems.append(f"metador.schemas.get(<{label}>) raised {type(e).__name__} instead of returning None")
finally:
    shutil.rmtree(tmp, ignore_errors=True)

if problems:
    print("PROPERTY VIOLATED (embedded description is what a freshly opened container reports):")
    for p in problems:
        print("  -", p)
    sys.exit(1)
print("ok")
sys.exit(0)
