import shim  # noqa: F401  (numpy shim + worktree first on sys.path)
import sys
from typing import Optional

from pydantic import ValidationError

from metador_core.plugins import schemas
from metador_core.schema.common import ImageFileMeta, Pixels
from metador_core.schema.types import Str

# A nested schema with a custom Parser (library class Pixels: only the unit "px" is valid)
# is subclassed in the documented way to narrow a field ("use a subclass of a schema").


class NotedPixels(Pixels):
    """Pixels with an optional note (no Parser of its own)."""

    note: Optional[Str]


class NotedImageMeta(ImageFileMeta):  # child of the installed schema core.imagefile
    class Plugin:
        name = "demo.notedimage"
        version = (0, 1, 0)

    width: NotedPixels  # parent: width: Pixels


def main() -> int:
    try:
        schemas.check_plugin("demo.notedimage__0.1.0", NotedImageMeta)
    except Exception as e:
        print("OK: plugin check refuses the child schema:", str(e).splitlines()[0])
        return 0

    raw = dict(
        filename="a.png",
        encodingFormat="image/png",
        contentSize=1,
        sha256="ab",
        height=1,
        width={"value": 5, "unitText": "furlong"},
    )
    try:
        child = NotedImageMeta.parse_obj(raw)
    except ValidationError as e:
        print("OK: child does not accept a width in furlong:", str(e).splitlines()[-1])
        return 0

    ser = child.json()
    for ref in schemas.parent_path("core.imagefile", (0, 1, 0))[::-1]:
        parent = schemas.get(ref.name, ref.version)
        try:
            parent.parse_raw(ser)
        except Exception as e:
            print("VIOLATION: the child schema passed the plugin check (no override declared),")
            print("  accepted:", raw)
            print("  serialised it to:", ser)
            print(f"  but ancestor schema {ref.name} rejects that:")
            print("   ", str(e).replace("\n", "\n    "))
            return 1
    print("OK: all ancestors accept the instance")
    return 0


if __name__ == "__main__":
    sys.exit(main())
