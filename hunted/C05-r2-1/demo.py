import shim  # noqa: F401  (must be first)
import shutil
import sys
import tempfile
import traceback
from pathlib import Path

import numpy as np

from metador_core.ih5.container import IH5Record

# An attribute holding an ARRAY of byte strings (variable length, i.e. dtype=object),
# one of them with a non-ASCII character. Stored without complaint, committed fine.
AUTHORS = np.array(["Müller".encode("utf-8"), b"Meier"], dtype=object)

tmp = Path(tempfile.mkdtemp())
problems = []
try:
    for where in ("root", "group", "dataset"):
        src = IH5Record(tmp / f"src-{where}", "w")
        src["g/d"] = 1
        node = {"root": src, "group": src["g"], "dataset": src["g/d"]}[where]
        node.attrs["authors"] = AUTHORS
        src.commit_patch()
        before = list(node.attrs["authors"])

        target = tmp / f"merged-{where}"
        try:
            src.merge_files(target)
        except Exception as e:
            left = sorted(p.name for p in tmp.glob(f"merged-{where}*"))
            problems.append(
                f"[{where} attribute] merge_files raised {type(e).__name__}: {e}\n"
                f"    (source is a valid committed record; files left behind at target: {left})"
            )
            src.close()
            continue

        mrg = IH5Record(target, "r")
        mnode = {"root": mrg, "group": mrg["g"], "dataset": mrg["g/d"]}[where]
        after = list(mnode.attrs["authors"])
        if before != after:
            problems.append(f"[{where} attribute] value differs: {before} vs {after}")
        mrg.close()
        src.close()
except Exception:
    traceback.print_exc()
    problems.append("unexpected exception in demo")
finally:
    shutil.rmtree(tmp, ignore_errors=True)

if problems:
    print("PROPERTY VIOLATED: merging a valid record does not yield a merged container")
    print("\n".join(problems))
    sys.exit(1)
print("ok: record with byte-string array attribute merged, values equal")
sys.exit(0)
