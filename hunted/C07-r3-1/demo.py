import shim  # noqa: F401  (must be first)
import os
import shutil
import sys
import tempfile

import h5py

from metador_core.container import MetadorContainer
from metador_core.ih5.container import IH5Record
from metador_core.plugins import schemas

Dash = schemas.get("core.dashboard", (0, 1, 0))
# nested model of the installed schema; `priority: Optional[DashboardPriority] = 1`
WidgetConf = Dash.__fields__["widgets"].type_

# a valid instance of the installed schema core.dashboard: "no priority given"
obj = Dash(widgets=[WidgetConf(priority=None, group=2)])
assert obj.widgets[0].priority is None  # accepted by validation (also on assignment)

bad = []
tmp = tempfile.mkdtemp()
try:
    for drv in ("h5py", "ih5"):
        if drv == "h5py":
            raw = h5py.File(os.path.join(tmp, "c.h5"), "w")
        else:
            raw = IH5Record(os.path.join(tmp, "c"), "w")
        with MetadorContainer(raw) as mc:
            mc["data"] = [1, 2, 3]
            node = mc["data"]
            node.meta["core.dashboard"] = obj
            back = node.meta["core.dashboard"]
            if back != obj:
                bad.append(
                    f"[{drv}] stored   : {obj.json()}\n"
                    f"[{drv}] returned : {back.json()}\n"
                    f"[{drv}] priority stored={obj.widgets[0].priority!r} "
                    f"returned={back.widgets[0].priority!r}"
                )
finally:
    shutil.rmtree(tmp, ignore_errors=True)

if bad:
    print("VIOLATION: metadata object does not come back equal to the stored object")
    print("\n".join(bad))
    sys.exit(1)
print("ok: object came back as stored")
sys.exit(0)
