import shim  # noqa: F401  (must be first)
import os
import shutil
import sys
import tempfile

import h5py

from metador_core.ih5.container import IH5Record

# Keys are documented as "printable ASCII" (the only other exclusion is '@').
# The space character (0x20) is printable ASCII (str.isprintable, C isprint, ISO 646),
# and e.g. file names packed into containers contain it all the time.
# History:  set "my data" = 1; create_group "raw files/run 1"; attrs["created by"] = "me"
#           ---- commit + create_patch ----
#           set "raw files/run 1/log 2.txt" = 2; del "my data"


def history(root, boundary):
    res = []

    def step(what, op):
        try:
            res.append((what, "ok", op()))
        except Exception as e:
            res.append((what, f"{type(e).__name__}: {e}", None))

    def setitem(key, val):
        root[key] = val

    step('set "my data"', lambda: setitem("my data", 1))
    step('create_group "raw files/run 1"', lambda: root.create_group("raw files/run 1").name)
    step('attrs["created by"]', lambda: root.attrs.__setitem__("created by", "me"))
    boundary()
    step('set "raw files/run 1/log 2.txt"', lambda: setitem("raw files/run 1/log 2.txt", 2))
    step('"my data" in root', lambda: "my data" in root)
    step('get("no such key", 5)', lambda: root.get("no such key", 5))
    step('del "my data"', lambda: root.__delitem__("my data"))
    names = []
    root.visit(names.append)
    return res, sorted(names), sorted(root.attrs.keys())


tmp = tempfile.mkdtemp()
problems = []
try:
    with h5py.File(os.path.join(tmp, "ref.h5"), "w") as ref:
        want = history(ref, lambda: None)

    rec = IH5Record(os.path.join(tmp, "rec"), "w")

    def boundary():
        rec.commit_patch()
        rec.create_patch()

    got = history(rec, boundary)
    rec.close()

    for (what, w, wv), (_, g, gv) in zip(want[0], got[0]):
        if (w, wv) != (g, gv):
            problems.append(f"{what}: single tree -> {w} {wv!r}; IH5 record -> {g} {gv!r}")
    if want[1:] != got[1:]:
        problems.append(f"final tree: single tree {want[1:]}, IH5 record {got[1:]}")
finally:
    shutil.rmtree(tmp)

if problems:
    print("Keys with the printable ASCII character ' ' behave differently on IH5:")
    for p in problems:
        print("  -", p)
    sys.exit(1)
print("ok")
