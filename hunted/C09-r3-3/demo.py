import shim  # noqa
"""A dataset node passed as *value source* - create_dataset(name, data=node) and
attrs[key] = node - copies the values on plain HDF5 (no link is made), but is refused on IH5
as 'hard link'."""
import os, shutil, sys, tempfile
import h5py
import numpy as np
from metador_core.container import MetadorContainer
from metador_core.ih5.container import IH5MFRecord, IH5Record

tmp = tempfile.mkdtemp()


def open_raw(kind):
    if kind == "h5py.File":
        return h5py.File(os.path.join(tmp, "plain.h5"), "w")
    cls = IH5Record if kind == "IH5Record" else IH5MFRecord
    return cls(os.path.join(tmp, kind), "w")


STEPS = [
    ("c.create_dataset('e', data=c['d'])", lambda c: c.create_dataset("e", data=c["d"])),
    ("c['g'].create_dataset('f', data=c['d'], dtype='f4')", lambda c: c["g"].create_dataset("f", data=c["d"], dtype="f4")),
    ("c['g'].attrs['a'] = c['d']", lambda c: c["g"].attrs.__setitem__("a", c["d"])),
    ("raw.create_dataset('r', data=raw['d'])", lambda c: c.__wrapped__.create_dataset("r", data=c.__wrapped__["d"])),
]


def state(c):
    ret = {}
    for k in ("d", "e", "g/f", "r"):
        ret[k] = c[k][()].tolist() if k in c else None
    ret["g@a"] = c["g"].attrs["a"].tolist() if "a" in c["g"].attrs else None
    return ret


def run(kind, boundary):
    raw = open_raw(kind + ("b" if boundary else ""))
    c = MetadorContainer(raw)
    c["d"] = np.arange(3)
    c.create_group("g")
    if boundary and kind != "h5py.File":
        raw.commit_patch()
        raw.create_patch()
    out = []
    for label, step in STEPS:
        try:
            step(c)
            out.append("ok")
        except Exception as e:  # noqa
            out.append(f"FAILS ({type(e).__name__}: {e})")
    st = state(c)
    raw.close()
    return out, st


try:
    ref, ref_st = run("h5py.File", False)
    bad = False
    for kind in ("IH5Record", "IH5MFRecord"):
        for boundary in (False, True):
            got, got_st = run(kind, boundary)
            for (label, _), a, b in zip(STEPS, ref, got):
                if a != b:
                    bad = True
                    print(f"[{kind}, patch boundary={boundary}] {label}:\n     h5py.File -> {a}\n     {kind} -> {b}")
            if got_st != ref_st:
                bad = True
                print(f"[{kind}, patch boundary={boundary}] resulting data differ:\n     h5py.File -> {ref_st}\n     {kind} -> {got_st}")
    if bad:
        print("VIOLATION: same operations succeed on HDF5 and fail on IH5")
        sys.exit(1)
    print("ok: same behaviour on all drivers")
    sys.exit(0)
finally:
    shutil.rmtree(tmp, ignore_errors=True)
