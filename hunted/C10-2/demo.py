import shim
import shutil, sys, tempfile
from pathlib import Path
from metador_core.ih5.container import IH5MFRecord

# A stub created from a record's latest manifest must expose exactly the same paths / node kinds
# as the real record. IH5Group.create_group() is the only entry point that does not run the key
# guard: it accepts names that every other accessor (rec[name], `in`, get, require_group,
# create_dataset, copy, move, merge_files) refuses - names with a space, non-ASCII names, names
# containing '@'. A record holding such a group commits fine and writes a manifest listing the
# path, but no stub can be made from that manifest.

def skel(rec):
    out = {"/": ("group", tuple(sorted(rec.attrs.keys())))}
    def f(_, node):
        out[node.name] = ("dataset" if hasattr(node, "ndim") else "group", tuple(sorted(node.attrs.keys())))
    rec.visititems(f)
    return out

problems = []
for name in ["raw data", "Messung-ä", "run@2"]:
    d = tempfile.mkdtemp()
    try:
        p = Path(d) / "real"
        r = IH5MFRecord(p, "w")
        r["x"] = 1
        try:
            r.create_group(name)
        except ValueError:
            # consistent behaviour: the name is refused like everywhere else -> nothing to check
            r.close()
            continue
        r.commit_patch()
        real_skel = skel(r)
        mf = Path(str(r.ih5_files[-1]) + "mf.json")
        r.close()
        try:
            stub = IH5MFRecord.create_stub(Path(d) / "stub", mf)
        except Exception as e:
            problems.append(f"create_group({name!r}) accepted, record committed (paths {sorted(real_skel)}), "
                            f"but create_stub from its manifest fails: {type(e).__name__}: {e}")
            continue
        if skel(stub) != real_skel:
            problems.append(f"{name!r}: stub skeleton {skel(stub)} != real {real_skel}")
        stub.close()
    finally:
        shutil.rmtree(d)

if problems:
    print("PROPERTY VIOLATED:")
    for x in problems:
        print(" -", x)
    sys.exit(1)
print("ok")
