import shim
import json, shutil, sys, tempfile
from pathlib import Path
from metador_core.ih5.container import IH5MFRecord

# Manifest extensions must persist until overridden.
# Here a patch is started, left uncommitted (close(commit=False) - same on-disk state as a
# process dying after create_patch()), then the record is reopened "r+" and the patch committed.

def mf_exts(rec):
    mf = Path(str(rec.ih5_files[-1]) + "mf.json")
    return json.loads(mf.read_text())["manifest_exts"]

problems = []
d = tempfile.mkdtemp()
try:
    p = Path(d) / "real"
    EXTS = {"packer": {"name": "x", "v": [1, 2, 3]}}
    r = IH5MFRecord(p, "w")
    r["a"] = 1
    r.commit_patch(manifest_exts=EXTS)          # patch 0, extensions attached
    r.create_patch()
    r["b"] = 2
    r.close(commit=False)                       # patch 1 started, not committed

    # read-only view: the manifest of the latest *committed* patch exists on disk ...
    r = IH5MFRecord(p, "r")
    try:
        if r.manifest.manifest_exts != EXTS:
            problems.append(f"'r' mode: manifest exts {r.manifest.manifest_exts!r} != {EXTS!r}")
    except ValueError as e:
        problems.append(f"'r' mode: manifest of latest committed patch not loaded: {e}")
    r.close()

    # continue the patch and commit; exts were never overridden
    r = IH5MFRecord(p, "r+")
    r["c"] = 3
    r.commit_patch()
    got = mf_exts(r)
    r.close()
    if got != EXTS:
        problems.append(f"after reopening+committing the pending patch, manifest_exts on disk = {got!r}, expected {EXTS!r} (never overridden)")

    # reference: same thing without interruption keeps them
    q = Path(d) / "ref"
    r = IH5MFRecord(q, "w"); r["a"] = 1; r.commit_patch(manifest_exts=EXTS)
    r.create_patch(); r["b"] = 2; r["c"] = 3; r.commit_patch()
    ref = mf_exts(r); r.close()
    assert ref == EXTS, ref
finally:
    shutil.rmtree(d)

if problems:
    print("PROPERTY VIOLATED:")
    for x in problems:
        print(" -", x)
    sys.exit(1)
print("ok")
