import shim  # noqa: F401  (must be first)
import os
import shutil
import sys
import tempfile

import h5py

from metador_core.container import MetadorContainer
from metador_core.plugins import schemas

FileMeta = schemas.get("core.file", (0, 1, 0))
ImageFileMeta = schemas.get("core.imagefile", (0, 1, 0))


def main() -> int:
    tmp = tempfile.mkdtemp()
    try:
        m = MetadorContainer(h5py.File(os.path.join(tmp, "c.h5"), "w"))
        m["img"] = [1, 2, 3]
        m["other"] = [4, 5, 6]
        m["img"].meta["core.imagefile"] = ImageFileMeta(
            filename="i.png", encodingFormat="image/png", contentSize=3,
            sha256="a" * 64, width=10, height=20,
        )

        # three documented ways to name the schema core.file 0.1.0 in a query
        refs = {
            "schemas.PluginRef(...)": schemas.PluginRef(name="core.file", version=(0, 1, 0)),
            "FileMeta.Plugin.ref()": FileMeta.Plugin.ref(),
            "next(meta.query())": next(iter(m["img"].meta.query("core.file"))),  # what query() itself hands out
        }
        problems = []
        for label, ref in refs.items():
            # the other entry points accept the reference ...
            assert [n.name for n in m.metador.query(ref)] == ["/img"]
            assert m["img"].meta.get(ref) is not None
            # ... so the membership test must simply answer
            for node, expected in (("img", True), ("other", False)):
                try:
                    got = ref in m[node].meta
                except Exception as e:
                    problems.append(f"{label} in m[{node!r}].meta raised {type(e).__name__}: {e}")
                    continue
                if got != expected:
                    problems.append(f"{label} in m[{node!r}].meta = {got}, expected {expected}")
        m.close()
        if problems:
            print("VIOLATION: node-level query by schema reference does not answer:")
            for p in problems:
                print("  -", p)
            return 1
        print("ok")
        return 0
    finally:
        shutil.rmtree(tmp, ignore_errors=True)


if __name__ == "__main__":
    sys.exit(main())
