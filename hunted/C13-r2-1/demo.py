import shim  # noqa: F401  (must be first)

import enum
import sys
from typing import List, Optional

from phantom.interval import Inclusive
from phantom.re import FullMatch
from typing_extensions import Literal

from metador_core.plugins import schemas
from metador_core.schema import MetadataSchema

# ---- field types from the documented grammar (phantom types, Literal, enum, List, Optional)


class Code(FullMatch, pattern=r"[a-z]*"):
    """Phantom string type (lower case code) - happens to match the empty string."""


class Status(str, enum.Enum):
    unknown = ""
    done = "done"


class NonNegative(float, Inclusive, low=0):
    """Phantom float type [0, inf]."""


def make(parent_type, child_type):
    class P(MetadataSchema):
        x: parent_type

    class C(P):
        x: child_type

    return P, C


CASES = [
    # (parent hint, child hint, value accepted by the child)
    (str, Code, ""),
    (Optional[str], Optional[Literal["", "draft", "final"]], ""),
    (List[str], List[Literal["", "a"]], ["a", ""]),
    (List[str], List[Status], [Status.unknown]),
    (List[str], List[Code], [""]),
    (float, NonNegative, float("inf")),
]

violations = []
for p_hint, c_hint, value in CASES:
    label = f"parent x: {p_hint}   child x: {c_hint}"
    try:
        P, C = make(p_hint, c_hint)
        schemas.check_plugin("demo.child", C)  # what is done when a plugin is loaded
    except Exception as e:  # refused -> this is what the property wants
        print(f"refused (fine): {label}: {type(e).__name__}")
        continue
    try:
        obj = C(x=value)
    except Exception:
        print(f"child rejects the value (fine): {label}")
        continue
    ser = obj.json()
    try:
        P.parse_raw(ser)
        print(f"parent accepts (fine): {label}")
    except Exception as e:
        msg = str(e).replace("\n", " ")
        violations.append(label)
        print(f"VIOLATION: {label}\n   override passed check_plugin without @override,")
        print(f"   child accepts {value!r} and serialises to {ser},\n   parent rejects: {msg}")

if violations:
    print(f"\n{len(violations)} undeclared field overrides were accepted although the "
          "child admits a value the parent schema rejects")
    sys.exit(1)
print("ok")
