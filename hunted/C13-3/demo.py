from __future__ import annotations

import shim  # noqa: F401  (must be first)
import sys
from typing import Optional

from metador_core.plugin.util import register_in_group
from metador_core.plugins import schemas
from metador_core.schema import MetadataSchema
from metador_core.schema.types import Int, Str

# Two parent plugins (Node, Holder) and two mutually referencing child plugins (BadNode, BadHolder).
# The same four classes are defined twice (suffix 1 = control run, suffix 2 = the sequence).


class Node1(MetadataSchema):
    class Plugin:
        name = "hunt.node-one"
        version = (0, 1, 0)

    v: Int


class Holder1(MetadataSchema):
    class Plugin:
        name = "hunt.holder-one"
        version = (0, 1, 0)

    a: Node1


class BadNode1(Node1):
    class Plugin:
        name = "hunt.badnode-one"
        version = (0, 1, 0)

    v: Str  # undeclared override, NOT a subtype of Int -> must be refused
    back: Optional[BadHolder1]  # refers back to the holder (recursive schema)


class BadHolder1(Holder1):
    class Plugin:
        name = "hunt.badholder-one"
        version = (0, 1, 0)

    a: BadNode1  # narrows Node -> BadNode, but BadNode is not a valid Node


class Node2(MetadataSchema):
    class Plugin:
        name = "hunt.node-two"
        version = (0, 1, 0)

    v: Int


class Holder2(MetadataSchema):
    class Plugin:
        name = "hunt.holder-two"
        version = (0, 1, 0)

    a: Node2


class BadNode2(Node2):
    class Plugin:
        name = "hunt.badnode-two"
        version = (0, 1, 0)

    v: Str
    back: Optional[BadHolder2]


class BadHolder2(Holder2):
    class Plugin:
        name = "hunt.badholder-two"
        version = (0, 1, 0)

    a: BadNode2


BadNode1.update_forward_refs()
BadNode2.update_forward_refs()
for cls in (Node1, Holder1, Node2, Holder2):
    register_in_group(schemas, cls, violently=True)


def accepted(cls) -> bool:
    try:
        register_in_group(schemas, cls, violently=True)
        return True
    except TypeError:
        return False


# control: registering the holder child directly -> refused (its field type BadNode is an invalid child of Node)
ctl = accepted(BadHolder1)
print("control  : badholder registered on its own            -> accepted =", ctl)

# same schemas, but first the (failing) attempt to load badnode, caught by the caller, then badholder
first = accepted(BadNode2)
print("sequence : 1. badnode                                  -> accepted =", first)
second = accepted(BadHolder2)
print("           2. badholder (after the refusal of badnode) -> accepted =", second)

if not second:
    print("OK: badholder refused in both orders")
    sys.exit(0)

obj = BadHolder2(a={"v": "text"})
ser = obj.json()
try:
    Holder2.parse_raw(ser)
    print("parent accepts", ser)
    sys.exit(0)
except Exception as e:
    msg = str(e).replace("\n", " ")
    print(f"VIOLATION: plugin {BadHolder2.Plugin.name} passed the check although the identical schema was refused in the control run;")
    print(f"   it accepts a={{'v': 'text'}}, serialises to {ser}, but parent {Holder2.Plugin.name} rejects it: {msg}")
    sys.exit(1)
