import shim  # noqa
"""Keys that contain a blank (printable ASCII, no '@', canonical path) are accepted by the
plain-HDF5 driver and refused by both IH5 drivers - for groups, datasets, attributes,
for membership tests / get() with default, and for pack_file() of 'my file.txt'."""
import os, shutil, sys, tempfile
import h5py
from metador_core.container import MetadorContainer
from metador_core.ih5.container import IH5MFRecord, IH5Record
from metador_core.packer.utils import pack_file

tmp = tempfile.mkdtemp()
src = os.path.join(tmp, "my file.txt")
with open(src, "w") as f:
    f.write("hello")


def open_raw(kind):
    if kind == "h5py.File":
        return h5py.File(os.path.join(tmp, "plain.h5"), "w")
    cls = IH5Record if kind == "IH5Record" else IH5MFRecord
    return cls(os.path.join(tmp, kind), "w")


STEPS = [
    ("create_group('raw data')", lambda c: c.create_group("raw data")),
    ("c['raw data/run 1'] = [1,2,3]", lambda c: c.__setitem__("raw data/run 1", [1, 2, 3])),
    ("c.attrs['sample id'] = 7", lambda c: c.attrs.__setitem__("sample id", 7)),
    ("'no such key' in c", lambda c: "no such key" in c),
    ("c.get('no such key', 5)", lambda c: c.get("no such key", 5)),
    ("pack_file(c, '.../my file.txt')", lambda c: pack_file(c, src).name),
    ("sorted(c.keys())", lambda c: sorted(c.keys())),
]


def run(kind):
    raw = open_raw(kind)
    c = MetadorContainer(raw)
    out = []
    for label, step in STEPS:
        try:
            r = step(c)
            out.append(("ok", r if isinstance(r, (bool, int, str, list)) else None))
        except Exception as e:  # noqa
            out.append(("FAILS", f"{type(e).__name__}: {e}"))
    raw.close()
    return out


try:
    ref = run("h5py.File")
    bad = False
    for kind in ("IH5Record", "IH5MFRecord"):
        got = run(kind)
        for (label, _), a, b in zip(STEPS, ref, got):
            if a != b:
                bad = True
                print(f"[{kind}] step {label}:\n     h5py.File -> {a}\n     {kind} -> {b}")
    if bad:
        print("VIOLATION: same operations with printable-ASCII keys succeed on HDF5 and fail on IH5")
        sys.exit(1)
    print("ok: same behaviour on all drivers")
    sys.exit(0)
finally:
    shutil.rmtree(tmp, ignore_errors=True)
