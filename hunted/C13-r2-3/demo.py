import shim  # noqa: F401  (must be first)

import enum
import sys
from typing import List, Set

from typing_extensions import Literal

from metador_core.plugins import schemas
from metador_core.schema import MetadataSchema
from metador_core.schema.decorators import add_const_fields

violations = []


class Kind(str, enum.Enum):
    a = "a"
    b = "b"


def trial(label, make, inputs):
    try:
        P, C = make()
        schemas.check_plugin("demo.child", C)  # what is done when a plugin is loaded
    except Exception as e:  # refused -> this is what the property wants
        print(f"refused (fine): {label}: {type(e).__name__}: {str(e).strip().splitlines()[0]}")
        return
    print(f"{label}: accepted (no override=True needed)")
    for inp in inputs:
        try:
            obj = C.parse_obj(inp)
        except Exception:
            continue
        ser = obj.json()
        try:
            P.parse_raw(ser)
        except Exception as e:
            msg = str(e).replace("\n", " ")
            violations.append(label)
            print(f"VIOLATION: child accepts {inp!r}, serialises to {ser}; parent rejects: {msg}")


def case_list_literal():
    class P(MetadataSchema):
        kinds: List[Literal["a", "b"]]

    # the "marked subclass" pattern: silently allowed for Literal/enum fields if the value fits
    @add_const_fields({"kinds": "a"})
    class C(P):
        pass

    return P, C


def case_set_enum():
    class P(MetadataSchema):
        kinds: Set[Kind]

    @add_const_fields({"kinds": Kind.a})
    class C(P):
        pass

    return P, C


trial("parent kinds: List[Literal['a','b']], child const kinds='a'", case_list_literal,
      [{}, {"kinds": ["b"]}])
trial("parent kinds: Set[Kind], child const kinds=Kind.a", case_set_enum, [{}, {"kinds": ["b"]}])

if violations:
    print("\nadd_const_fields specialised a collection-of-Literal/enum field with a single value "
          "without override=True; every child instance is invalid for the parent.")
    sys.exit(1)
print("ok")
