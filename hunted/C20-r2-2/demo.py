import shim  # noqa: F401  (must be first)

"""core.imagefile accepts width=True (and width=float('nan')): the Pixels/NumValue parser
passes any int/float through `construct()` without validation.  The stored object does
not validate against the embedded JSON Schema (value: true is not integer/number; NaN is
not JSON at all) and cannot be parsed back by the same schema."""
import json
import os
import shutil
import sys
import tempfile

import h5py
import jsonschema

from metador_core.container import MetadorContainer
from metador_core.ih5.container import IH5Record

FILE = dict(filename="a.png", encodingFormat="image/png", contentSize=5, sha256="ab" * 32)


def strict_json(raw: bytes):
    def bad(c):
        raise ValueError(f"not JSON: {c}")

    return json.loads(raw, parse_constant=bad)


problems = []
tmp = tempfile.mkdtemp()
try:
    for drv in ("h5", "ih5"):
        for label, width in [("True", True), ("nan", float("nan"))]:
            path = os.path.join(tmp, f"c{drv}{label}")
            raw = h5py.File(path, "w") if drv == "h5" else IH5Record(path, "w")
            mc = MetadorContainer(raw)
            mc["img"] = [[0, 1], [1, 0]]
            try:
                mc["img"].meta["core.imagefile"] = dict(FILE, width=width, height=2)
            except Exception as e:  # a refusal would be fine
                print(f"[{drv}] width={label} rejected: {type(e).__name__}")
            for name, obj in mc["img"].meta.items():
                dat = obj.node[()]
                js = mc.metador.schemas[obj.schema]
                try:
                    jsonschema.validate(strict_json(dat), js)
                except Exception as e:
                    msg = str(e).split("\n")[0]
                    problems.append(
                        f"[{drv}] width={label}: stored {name} object does not validate "
                        f"against the embedded JSON Schema: {msg}\n      stored: {dat!r}"
                    )
                try:
                    mc["img"].meta.get(name)
                except Exception as e:
                    problems.append(
                        f"[{drv}] width={label}: stored {name} object cannot be read back: {type(e).__name__}"
                    )
            mc.close()
finally:
    shutil.rmtree(tmp, ignore_errors=True)

if problems:
    print("PROPERTY VIOLATED:")
    for p in problems:
        print("  -", p)
    sys.exit(1)
print("ok")
