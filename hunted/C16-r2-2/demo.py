import shim
import sys

from metador_core.plugins import schemas
from metador_core.schema import MetadataSchema
from metador_core.plugin.util import register_in_group

NAME, VER = "core.table", (0, 1, 0)  # installed schema plugin, not loaded yet in a fresh process
assert [r.version for r in schemas.versions(NAME)] == [VER]


class Refused:  # not a MetadataSchema -> must fail the checks of the schema group
    class Plugin:
        name = NAME
        version = VER


try:
    register_in_group(schemas, Refused, violently=True)
except TypeError as e:
    print("registration refused, as it should be:", str(e).split("\n")[0][:90])
else:
    print("unexpected: registration of a non-schema was accepted")
    sys.exit(1)

# the caller caught the exception and goes on. The group still lists core.table 0.1.0 ...
assert [r.version for r in schemas.versions(NAME)] == [VER]
assert schemas.resolve(NAME, VER) is not None

problems = []
try:
    got = schemas.get(NAME, VER)
except Exception as e:  # noqa
    got = None
    problems.append(f"schemas.get({NAME!r}, {VER}) raised {type(e).__name__}: {e}")
else:
    if got is Refused:
        problems.append(
            f"schemas.get({NAME!r}, {VER}) hands out the refused class {got!r} instead of the installed plugin"
        )
    elif got is None or not (isinstance(got, type) and issubclass(got, MetadataSchema)):
        problems.append(f"schemas.get({NAME!r}, {VER}) -> {got!r}, installed plugin is lost")

if problems:
    print("VIOLATION: a listed version no longer resolves to the registered plugin:")
    for p in problems:
        print("  -", p)
    sys.exit(1)
print("ok")
