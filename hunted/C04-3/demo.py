import shim  # noqa: F401  (must be first)

import shutil
import sys
import tempfile
from pathlib import Path

from metador_core.ih5.container import IH5Record

# Two records created through the public API in one directory. Record names are
# validated ("A-Za-z0-9-" only), so files of one record can never be mistaken for files
# of another one - except that the validation lets a trailing newline through.

tmp = Path(tempfile.mkdtemp())
problems = []
try:
    good = tmp / "data"
    with IH5Record(good, "w") as r:
        r["a"] = 1
    with IH5Record(good, "r") as r:  # valid, opens
        assert r["a"][()] == 1

    other = tmp / "data\n"
    try:
        with IH5Record(other, "w") as r:  # should be refused: invalid record name
            r["b"] = 2
        created = True
    except ValueError:
        created = False

    if created:
        try:
            with IH5Record(good, "r") as r:
                assert r["a"][()] == 1
        except Exception as e:
            problems.append(
                "record 'data' (untouched, coherent) is rejected because the sibling record "
                f"{other.name!r} was accepted as a valid name: {type(e).__name__}: {str(e)!r}"
            )
        recs = sorted(p.name for p in IH5Record.list_records(tmp))
        if recs != sorted(["data", "data\n"]):
            problems.append(f"list_records reports {recs} for two records")
finally:
    shutil.rmtree(tmp, ignore_errors=True)

if problems:
    print("PROPERTY VIOLATED:")
    for x in problems:
        print(" -", x)
    sys.exit(1)
print("ok")
sys.exit(0)
