import shim  # noqa: F401  (must be first)

import shutil
import sys
import tempfile
from pathlib import Path

from metador_core.ih5.container import IH5Record

# Mode "w" means "create, truncate if it exists". After the base of an old record got
# lost, re-creating the record with "w" must give a record that opens.

tmp = Path(tempfile.mkdtemp())
problems = []
try:
    p = tmp / "rec"
    with IH5Record(p, "w") as r:
        r["old"] = 1
        r.commit_patch()
        r.create_patch()
        r["old2"] = 2
    (tmp / "rec.ih5").unlink()  # base container lost
    try:
        IH5Record(p, "r").close()
        problems.append("baseless set was accepted")
    except ValueError:
        pass  # correct: missing base is rejected

    with IH5Record(p, "w") as r:  # start over, overwrite whatever is there
        r["new"] = 1
        r.commit_patch()
        try:
            r.create_patch()
            r["new2"] = 2
        except Exception as e:
            problems.append(f"create_patch() on the fresh record fails: {type(e).__name__}: {e}")

    try:
        with IH5Record(p, "r") as r:
            keys = sorted(r.keys())
        if "old2" in keys:
            problems.append(f"fresh record shows data of the old one: {keys}")
    except Exception as e:
        problems.append(
            f"record just written with mode 'w' is rejected: {type(e).__name__}: {e}; "
            f"files: {sorted(f.name for f in tmp.iterdir())}"
        )
finally:
    shutil.rmtree(tmp, ignore_errors=True)

if problems:
    print("PROPERTY VIOLATED:")
    for x in problems:
        print(" -", x)
    sys.exit(1)
print("ok")
sys.exit(0)
