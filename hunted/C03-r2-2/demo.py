import shim
import os, shutil, sys, tempfile, hashlib
from pathlib import Path
from metador_core.ih5.container import IH5Record, IH5MFRecord

def dirstate(d):
    return {p.name: hashlib.sha256(p.read_bytes()).hexdigest() for p in sorted(Path(d).iterdir())}

problems = []
for cls in (IH5Record, IH5MFRecord):
    for mode in ("x", "w-"):
        d = tempfile.mkdtemp()
        try:
            rec = f"{d}/foo"
            with cls(rec, "w") as r:
                r["a"] = 1
            with cls(rec, "a") as r:
                r["b"] = 2
            # the base container is gone, a patch container is left, e.g. after an
            # interrupted delete_files() (it removes the files in directory order).
            # The library regards this as an existing (broken) record: 'r', 'r+' and 'a'
            # refuse it, and 'w' removes the leftover files before it creates a new one.
            os.unlink(f"{d}/foo.ih5")
            for m in ("r", "r+", "a"):
                try:
                    cls(rec, m).close(commit=False)
                    problems.append(f"{cls.__name__}: mode {m!r} accepted the leftover patch containers?!")
                except Exception:
                    pass
            st = dirstate(d)
            try:
                r = cls(rec, mode)
            except Exception:
                # refusing is fine - but nothing may be touched
                if dirstate(d) != st:
                    problems.append(f"{cls.__name__} {mode!r}: refused, but changed the directory")
                continue
            # creating is accepted by the library -> then the result must be a record
            r["new"] = 5
            before = list(r.keys())
            r.close()
            try:
                r = cls(rec, "r")
                if list(r.keys()) != before:
                    problems.append(f"{cls.__name__} {mode!r}: other view after reopening")
                r.close()
            except Exception as e:
                problems.append(
                    f"{cls.__name__}: mode {mode!r} did not refuse the existing files {sorted(st)} and created "
                    f"a base container next to them; after close() the record cannot be reopened by name: "
                    f"{type(e).__name__}: {str(e)[:100]}"
                )
        finally:
            shutil.rmtree(d)

if problems:
    print("PROPERTY VIOLATED:")
    for p in problems:
        print("  -", p)
    sys.exit(1)
print("ok")
