import shim  # noqa: F401  (must be first)
import os
import shutil
import sys
import tempfile

from metador_core.container import MetadorContainer
from metador_core.ih5.container import IH5Record
from metador_core.plugins import schemas

ImageFileMeta = schemas.get("core.imagefile", (0, 1, 0))


def img(name):
    return ImageFileMeta(
        id_=name, filename=name, encodingFormat="image/png", contentSize=3,
        sha256="sha256:" + "0" * 64, width=1, height=2,
    )


def q(mc, *args):
    return sorted(n.name for n in mc.metador.query(*args))


problems = []
tmp = tempfile.mkdtemp()
try:
    # ---- scenario A: delete in a patch, discard the patch ----
    rec = IH5Record(os.path.join(tmp, "recA"), "w")
    mc = MetadorContainer(rec)
    mc["a"] = [1, 2]
    mc["a"].meta["core.imagefile"] = img("a")
    rec.commit_patch()

    rec.create_patch()
    del mc["a"].meta["core.imagefile"]
    rec.discard_patch()  # the deletion never happened

    # /a carries its core.imagefile object again (the patch was thrown away) ...
    if list(mc["a"].meta.keys()) != ["core.imagefile"] or q(mc, "core.imagefile") != ["/a"]:
        problems.append("A: unexpected state after discard (object not back)")
    # ... so it must be visible through the parent schema core.file as well
    if q(mc, "core.file") != ["/a"]:
        problems.append(f"A: query('core.file') after discard_patch = {q(mc, 'core.file')}, expected ['/a']")
    if mc["a"].meta.get("core.file") is None:
        problems.append("A: /a .meta.get('core.file') is None although /a carries core.imagefile")
    rec.create_patch()
    try:
        del mc["a"].meta["core.imagefile"]
    except KeyError as e:
        problems.append(f"A: deleting the existing object raises KeyError({e})")
    mc.close()

    # ---- scenario B: store in a patch, discard, store again, commit, reopen ----
    rec = IH5Record(os.path.join(tmp, "recB"), "w")
    mc = MetadorContainer(rec)
    mc["a"] = [1, 2]
    mc["b"] = [3]
    rec.commit_patch()

    rec.create_patch()
    mc["a"].meta["core.imagefile"] = img("a")
    rec.discard_patch()

    rec.create_patch()
    mc["b"].meta["core.imagefile"] = img("b")
    rec.commit_patch()
    mc.close()

    mc = MetadorContainer(IH5Record(os.path.join(tmp, "recB"), "r"))
    if q(mc, "core.imagefile") != ["/b"]:
        problems.append("B: unexpected state after reopen")
    if q(mc, "core.file") != ["/b"]:
        problems.append(f"B: after reopen query('core.file') = {q(mc, 'core.file')}, expected ['/b']")
    if mc["b"].meta.get("core.file") is None:
        problems.append("B: after reopen /b .meta.get('core.file') is None although /b carries core.imagefile")
    if len(mc.metador.schemas) == 0:
        problems.append("B: container schema index is empty although an object is stored")
    mc.close()
finally:
    shutil.rmtree(tmp, ignore_errors=True)

if problems:
    print("PROPERTY VIOLATED:")
    for p in problems:
        print("  -", p)
    sys.exit(1)
print("ok")
sys.exit(0)
