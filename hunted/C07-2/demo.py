import shim  # noqa: F401  (must be first)
import os
import shutil
import sys
import tempfile

import h5py

from metador_core.container import MetadorContainer
from metador_core.ih5.container import IH5Record
from metador_core.plugins import schemas

FileMeta = schemas.get("core.file", (0, 1, 0))


def fm(name):
    return FileMeta(
        id_=name, filename=name, encodingFormat="text/plain", contentSize=3,
        sha256="sha256:" + "0" * 64,
    )


def mk(kind, path):
    if kind == "h5py":
        return MetadorContainer(h5py.File(path + ".h5", "w"))
    return MetadorContainer(IH5Record(path, "w"))


problems = []
for kind in ("h5py", "ih5"):
    tmp = tempfile.mkdtemp()
    try:
        dst = mk(kind, os.path.join(tmp, "dst"))
        src = mk(kind, os.path.join(tmp, "src"))

        # destination container has some unrelated dataset /d with its own metadata
        dst["d"] = [1, 2]
        dst["d"].meta["core.file"] = fm("UNRELATED")
        # source container: /d and /only, each with metadata
        src["d"] = [3, 4]
        src["d"].meta["core.file"] = fm("SOURCE-d")
        src["only"] = [5]
        src["only"].meta["core.file"] = fm("SOURCE-only")
        # (a group copied across containers keeps its metadata, so cross-container copy is supported)
        g = src.create_group("g")
        g["x"] = [6]
        g["x"].meta["core.file"] = fm("SOURCE-g-x")

        dst.copy(src["g"], "g_copy")
        got = dst["g_copy/x"].meta.get("core.file")
        if got is None or got.id_ != "SOURCE-g-x":
            problems.append(f"{kind}: group copy across containers lost metadata (got {got})")

        # 1. copy dataset /d of the source container (node object as source)
        dst.copy(src["d"], "e")
        if list(dst["e"][()]) != [3, 4]:
            problems.append(f"{kind}: copied data wrong")
        got = dst["e"].meta.get("core.file")
        if got is None or got != src["d"].meta["core.file"]:
            problems.append(
                f"{kind}: copy of src:/d carries core.file object @id={getattr(got, 'id_', None)!r}, "
                f"expected a copy of the source object @id='SOURCE-d' "
                f"(it is the object of the unrelated node dst:/d)"
            )
        # 2. dataset without a namesake in the destination: metadata silently dropped
        dst.copy(src["only"], "f")
        got = dst["f"].meta.get("core.file")
        if got is None or got != src["only"].meta["core.file"]:
            problems.append(f"{kind}: copy of src:/only carries core.file = {got}, expected copy of 'SOURCE-only'")
        names = sorted(n.name for n in dst.metador.query("core.file"))
        if names != ["/d", "/e", "/f", "/g_copy/x"]:
            problems.append(f"{kind}: query('core.file') = {names}, expected ['/d', '/e', '/f', '/g_copy/x']")
        dst.close()
        src.close()
    finally:
        shutil.rmtree(tmp, ignore_errors=True)

if problems:
    print("PROPERTY VIOLATED:")
    for p in problems:
        print("  -", p)
    sys.exit(1)
print("ok")
sys.exit(0)
