import shim  # noqa: F401
import os
import shutil
import sys
import tempfile

import h5py
import numpy as np

from metador_core.ih5.container import IH5Record

BIG = np.zeros(100_000)  # 800 KB: larger than the 64 KB HDF5 limit for (compact) attributes

problems = []
d = tempfile.mkdtemp()
try:
    # reference: one plain HDF5 file
    ref = h5py.File(os.path.join(d, "ref.h5"), "w")
    ref["d"] = 1
    ref["d"].attrs["k"] = "old"
    ref.attrs["k"] = "old"
    for node in (ref["d"], ref):
        del node.attrs["k"]
        try:
            node.attrs["k"] = BIG
            raise SystemExit("harness: reference attribute write unexpectedly succeeded")
        except (OSError, ValueError, RuntimeError):
            pass
    ref_state = ("k" in ref["d"].attrs, "k" in ref.attrs)  # (False, False)
    ref.close()

    # IH5: same history, patch boundary before the deletes
    rec = IH5Record(os.path.join(d, "r"), "w")
    rec["d"] = 1
    rec["d"].attrs["k"] = "old"
    rec.attrs["k"] = "old"
    rec.commit_patch()
    rec.create_patch()
    for node in (rec["d"], rec):
        del node.attrs["k"]
        assert "k" not in node.attrs
        try:
            node.attrs["k"] = BIG
            raise SystemExit("harness: IH5 attribute write unexpectedly succeeded")
        except (OSError, ValueError, RuntimeError) as e:
            print(f"attribute write failed as expected: {type(e).__name__}: {str(e)[:90]}")

    def check(r, when):
        state = ("k" in r["d"].attrs, "k" in r.attrs)
        if state != ref_state:
            vals = [n.attrs.get("k") for n in (r["d"], r)]
            problems.append(
                f"{when}: deleted attribute 'k' present on (dataset, root) = {state}, values {vals}; "
                f"reference tree: {ref_state}"
            )

    check(rec, "after failed attribute writes")
    rec.close()
    rec = IH5Record(os.path.join(d, "r"), "r")
    check(rec, "after commit+reopen")
    rec.close()
finally:
    shutil.rmtree(d, ignore_errors=True)

if problems:
    print("PROPERTY VIOLATED:")
    for p in problems:
        print("  -", p)
    sys.exit(1)
print("ok")
