import shim  # noqa: F401  (must be first)
import sys

from metador_core.plugins import schemas

# Only installed schemas are used.
# example.matsci.instrument declares:  instrumentManufacturer: Optional[rocrate.Organization]  (= core.org 0.1.0)
Instrument = schemas.get("example.matsci.instrument", (0, 1, 0))
Org = schemas.get("core.org", (0, 1, 0))  # handle with explicit version
OrgU = schemas.get("core.org")  # version-less handle (same as schemas["core.org"]): same schema
IP = Instrument.Partial

problems = []


def check(label, org_cls):
    # operand 1: converted from a complete object, operand 2: parsed from a dict
    inst = Instrument(
        instrumentName="X", instrumentModel="Y", instrumentManufacturer=org_cls(name="ACME")
    )
    p1 = IP.to_partial(inst)
    p2 = IP.parse_obj({"instrumentManufacturer": {"url": "https://acme.example"}})
    for order, (a, b) in (("complete+parsed", (p1, p2)), ("parsed+complete", (p2, p1))):
        for ov in (False, True):
            try:
                r = a.merge_with(b, allow_overwrite=ov)
            except Exception as e:  # nothing conflicts here -> must not raise
                first = str(e).splitlines()[0]
                problems.append(f"[{label}, {order}, overwrite={ov}] raised {type(e).__name__}: {first}")
                continue
            m = r.instrumentManufacturer
            got = (getattr(m, "name", None), str(getattr(m, "url", None)))
            if got != ("ACME", "https://acme.example"):
                problems.append(
                    f"[{label}, {order}, overwrite={ov}] nested object not merged, values lost: (name, url) = {got}"
                )


check("Organization created through schemas.get('core.org', (0,1,0))", Org)  # control: fine
check("Organization created through schemas.get('core.org')", OrgU)

if problems and Org.Partial is not OrgU.Partial:
    print(
        "note: two different partial classes exist for the one schema core.org: "
        "schemas.get('core.org').Partial is not schemas.get('core.org', (0,1,0)).Partial"
    )

if problems:
    print("PROPERTY VIOLATED (nested objects are not merged recursively / provided values dropped):")
    for p in problems:
        print("  -", p)
    sys.exit(1)
print("ok")
