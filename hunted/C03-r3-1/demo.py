import shim  # noqa: F401  (must be first)
import os
import shutil
import sys
import tempfile
from pathlib import Path

from metador_core.ih5.container import IH5MFRecord

# Open mode 'w' of an IH5MFRecord either replaces the whole record or - if it refuses -
# must leave the existing files alone. Here it raises FileExistsError AFTER it has
# deleted the remaining containers of the record.

d = tempfile.mkdtemp()
try:
    foo = Path(d) / "foo"
    # neighbours with prefix-related names (must never be touched)
    for other in ["foo2", "foo-bar", "fo"]:
        with IH5MFRecord(Path(d) / other, "w") as r:
            r["x"] = other

    with IH5MFRecord(foo, "w") as r:  # base container + manifest
        r["a/b"] = [1, 2, 3]
    with IH5MFRecord(foo, "r+") as r:  # patch 1 + manifest
        r["a/c"] = 5

    # the base container is moved away (e.g. uploaded), its manifest is kept in order to
    # be able to create stubs - the situation IH5MFRecord protects manifests for
    os.unlink(Path(d) / "foo.ih5")
    before = sorted(os.listdir(d))

    problems = []
    try:
        rec = IH5MFRecord(foo, "w")
    except Exception as e:  # refused
        after = sorted(os.listdir(d))
        if after != before:
            gone = sorted(set(before) - set(after))
            problems.append(
                f"IH5MFRecord(foo, 'w') raised {type(e).__name__} ({e}),\n"
                f"  but it had already deleted: {gone}\n"
                f"  before: {before}\n  after:  {after}"
            )
    else:  # replaced: must be a fresh empty record that can be closed and reopened
        rec["new"] = 1
        rec.close()
        with IH5MFRecord(foo, "r") as r:
            if sorted(r.keys()) != ["new"]:
                problems.append(f"record not replaced, has keys {sorted(r.keys())}")

    if problems:
        print("PROPERTY VIOLATED:")
        print("\n".join(problems))
        sys.exit(1)
    print("ok")
    sys.exit(0)
finally:
    shutil.rmtree(d, ignore_errors=True)
