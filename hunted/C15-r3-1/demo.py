import shim  # noqa
import os, shutil, sys, tempfile

import h5py
import numpy as np

from metador_core.container import MetadorContainer

d = tempfile.mkdtemp()
problems = []
try:
    mc = MetadorContainer(h5py.File(os.path.join(d, "c.h5"), "w"))
    secret = np.array([11, 22, 33, 44, 55])
    mc["grp/data"] = secret
    mc["grp/scalar"] = 1234

    skel = mc["grp"].restrict(skel_only=True)
    ds, sc = skel["data"], skel["scalar"]

    # sanity: the direct ways are refused
    for name, f in {"[()]": lambda: ds[()], "list": lambda: list(ds), "np.asarray": lambda: np.asarray(ds)}.items():
        try:
            f()
            problems.append(f"{name} on skel_only dataset was not refused")
        except AttributeError:
            pass

    # binary operators / comparisons are forwarded by the proxy to the raw h5py dataset,
    # the numpy operand then loads the raw dataset via __array__
    ops = {
        "ds + np.int64(0)": lambda: ds + np.int64(0),
        "ds - np.zeros(5, int)": lambda: ds - np.zeros(5, dtype=int),
        "ds * np.int64(1)": lambda: ds * np.int64(1),
        "divmod(ds, np.int64(1))[0]": lambda: divmod(ds, np.int64(1))[0],
        "scalar | np.int64(0)": lambda: sc | np.int64(0),
    }
    for name, f in ops.items():
        try:
            res = f()
        except Exception as e:  # refused -> fine
            continue
        expect = 1234 if name.startswith("scalar") else secret
        if isinstance(res, (np.ndarray, np.generic)) and np.array_equal(res, expect):
            problems.append(f"{name} on a skel_only dataset returned its contents: {res!r}")

    try:
        eq, ne = ds == secret, ds == secret + 1
        if np.all(eq) and not np.any(ne):
            problems.append(f"`ds == array` on a skel_only dataset compares with the contents: {eq!r} / {ne!r}")
    except Exception:
        pass
    try:
        if (sc < np.int64(1235)) and not (sc < np.int64(1234)):
            problems.append("`scalar_ds < x` on a skel_only dataset is answered from the contents (binary search reads it)")
    except Exception:
        pass
    mc.close()
finally:
    shutil.rmtree(d)

if problems:
    print("VIOLATION: skel_only dataset yields its contents through operators:")
    for p in problems:
        print("  -", p)
    sys.exit(1)
print("ok: no operator on a skel_only dataset yields contents")
