import shim  # noqa: F401  (numpy-2 shim, puts $WT/src first)

"""schema_json() of a schema with a NamedTuple / TypedDict / dataclass field raises.

Such a schema plugin loads, instances can be created and validated, but attaching
one to a node raises AttributeError from the library's own schema_extra hook -
AFTER the object was written: the container then holds a metadata object for which
it has no JSON Schema, no parent chain, no package and no TOC link.
"""
import atexit
import json
import os
import shutil
import sys
import tempfile
import textwrap

# --- a regular plugin package: module + dist-info with entry points, on sys.path
pkg = tempfile.mkdtemp(prefix="fakepkg_")
atexit.register(shutil.rmtree, pkg, True)
with open(os.path.join(pkg, "hunt3_c20_mod.py"), "w") as f:
    f.write(
        textwrap.dedent(
            '''
            from dataclasses import dataclass
            from typing import NamedTuple, Optional
            from typing_extensions import TypedDict
            from metador_core.schema import MetadataSchema

            class Point(NamedTuple):
                x: int
                y: int

            class Size(TypedDict):
                w: int
                h: int

            @dataclass
            class Pos:
                lat: float
                lon: float

            class WithNT(MetadataSchema):
                class Plugin:
                    name = "hunt.withnt"
                    version = (0, 1, 0)
                p: Point

            class WithTD(MetadataSchema):
                class Plugin:
                    name = "hunt.withtd"
                    version = (0, 1, 0)
                s: Size

            class WithDC(MetadataSchema):
                class Plugin:
                    name = "hunt.withdc"
                    version = (0, 1, 0)
                pos: Pos
            '''
        )
    )
di = os.path.join(pkg, "hunt3_c20_pkg-1.0.0.dist-info")
os.mkdir(di)
with open(os.path.join(di, "METADATA"), "w") as f:
    f.write("Metadata-Version: 2.1\nName: hunt3-c20-pkg\nVersion: 1.0.0\n")
with open(os.path.join(di, "entry_points.txt"), "w") as f:
    f.write(
        "[metador_schema]\n"
        "hunt.withnt__0.1.0=hunt3_c20_mod:WithNT\n"
        "hunt.withtd__0.1.0=hunt3_c20_mod:WithTD\n"
        "hunt.withdc__0.1.0=hunt3_c20_mod:WithDC\n"
    )
sys.path.insert(0, pkg)
# ---

import h5py  # noqa: E402
import jsonschema  # noqa: E402

from metador_core.container import MetadorContainer  # noqa: E402
from metador_core.plugins import schemas  # noqa: E402

CASES = {
    "hunt.withnt": dict(p=(1, 2)),
    "hunt.withtd": dict(s={"w": 1, "h": 2}),
    "hunt.withdc": dict(pos={"lat": 1.5, "lon": 2.5}),
}

problems = []
d = tempfile.mkdtemp()
try:
    with MetadorContainer(h5py.File(d + "/x.h5", "w")) as mc:
        for name, dat in CASES.items():
            S = schemas.get(name, (0, 1, 0))  # loads and passes the plugin checks
            obj = S(**dat)  # a valid instance
            try:
                S.schema_json()
            except Exception as e:
                problems.append(f"{name}: schema_json() raises {type(e).__name__}: {e}")
            node = mc.create_dataset(name.split(".")[1], data=1)
            try:
                node.meta[name] = obj
            except Exception as e:
                problems.append(f"{name}: attaching a valid instance raises {type(e).__name__}: {e}")

    with MetadorContainer(h5py.File(d + "/x.h5", "r")) as mc:
        toc = mc.metador.schemas
        for key in mc.keys():
            for name, obj in mc[key].meta.items():
                raw = json.loads(obj.node[()])
                js = toc.get(obj.schema)
                if js is None:
                    problems.append(
                        f"/{key}: stored object {raw} of {name}, but container has no JSON Schema for it "
                        f"(schemas in container: {[r.name for r in toc.keys()]}, packages: {list(toc.packages.keys())})"
                    )
                    continue
                for e in jsonschema.Draft7Validator(js).iter_errors(raw):
                    problems.append(f"/{key}: {name} object invalid: {e.message}")
                if toc.parent_path(obj.schema) != schemas.parent_path(obj.schema):
                    problems.append(f"/{key}: parent chain differs")
                if toc.provider(obj.schema) != schemas.provider(obj.schema):
                    problems.append(f"/{key}: provider differs")
finally:
    shutil.rmtree(d, ignore_errors=True)

if problems:
    print("PROPERTY VIOLATED:")
    for p in problems:
        print(" -", p)
    sys.exit(1)
print("ok")
