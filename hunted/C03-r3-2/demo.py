import shim  # noqa: F401  (must be first)
import os
import shutil
import sys
import tempfile
from pathlib import Path

from metador_core.ih5.container import IH5MFRecord, IH5Record

# Mode 'w' replaces the whole record; afterwards the (new) record is a committed base
# and 'r+' / 'a' must start a new patch on it, 'r' must show the same tree.
# An IH5MFRecord "is a valid IH5Record" (class docstring), and an IH5Record can be
# "opened as IH5MFRecord and turned into a valid IH5MFRecord by committing a patch".

d = tempfile.mkdtemp()
try:
    foo = Path(d) / "foo"
    with IH5MFRecord(foo, "w") as r:  # base + manifest
        r["a"] = 1
    with IH5MFRecord(foo, "r+") as r:  # patch 1 + manifest
        r["b"] = 2

    problems = []
    for cls_w in (IH5Record, IH5MFRecord):
        # replace the whole record (first time through the plain class)
        with cls_w(foo, "w") as r:
            r["new"] = 1
        left = sorted(p.name for p in Path(d).iterdir())
        for mode in ("r+", "a"):
            try:
                with IH5MFRecord(foo, mode) as r:
                    tree = sorted(r.keys())
                    r.discard_patch()
                if tree != ["new"]:
                    problems.append(f"wrong tree {tree}")
            except Exception as e:
                problems.append(
                    f"after {cls_w.__name__}(foo, 'w') the directory holds {left};\n"
                    f"  IH5MFRecord(foo, {mode!r}) -> {type(e).__name__}: {e}"
                )

    if problems:
        print("PROPERTY VIOLATED: 'w' did not replace the whole record, leftovers of the")
        print("old record make 'r+'/'a' refuse to start a patch on the new committed base:")
        print("\n".join(problems))
        sys.exit(1)
    print("ok")
    sys.exit(0)
finally:
    shutil.rmtree(d, ignore_errors=True)
