import shim  # noqa: F401

import sys

from metador_core.harvester import Harvester
from metador_core.plugin.util import register_in_group
from metador_core.plugins import harvesters, schemas, widgets
from metador_core.schema import MetadataSchema
from metador_core.widget import Widget

problems = []


# only version 0.2.0 of the schema is registered; it supports requests for 0.1.0
class S(MetadataSchema):
    class Plugin:
        name = "tt.dep"
        version = (0, 2, 0)

    x: int = 0


register_in_group(schemas, S, violently=True)
req = schemas.PluginRef(name="tt.dep", version=(0, 1, 0))
res = schemas.resolve(req.name, req.version)
print("registered:", [r.version for r in schemas.versions("tt.dep")],
      "| request 0.1.0 resolves to", res.version if res else None,
      "| supports:", res.supports(req))
assert res is not None and res.version == (0, 2, 0)


class H(Harvester):
    class Plugin:
        name = "tt.dep.harv"
        version = (0, 1, 0)
        returns = req

    def run(self):
        return self.schema(x=1)


class W(Widget):
    class Plugin:
        name = "tt.dep.widg"
        version = (0, 1, 0)
        supports = [req]

    def show(self):
        return None


class Other(MetadataSchema):
    class Plugin:
        name = "tt.dep.other"
        version = (0, 1, 0)
        requires = [req]


for grp, cls in ((harvesters, H), (widgets, W), (schemas, Other)):
    name = cls.Plugin.name
    try:
        register_in_group(grp, cls, violently=True)
    except Exception as e:  # noqa: BLE001
        problems.append(
            f"{grp.name} plugin {name} that refers to tt.dep 0.1.0 cannot be loaded: {type(e).__name__}: {e}"
        )
        continue
    if grp.get(name, (0, 1, 0)) is None:
        problems.append(f"{name} not available after registration")

if problems:
    print("\nPROPERTY VIOLATED (the reference to tt.dep 0.1.0 is supported by the registered 0.2.0):")
    for p in problems:
        print(" -", p)
    sys.exit(1)
print("ok")
