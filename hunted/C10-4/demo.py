import shim
import json, shutil, sys, tempfile
from pathlib import Path
from metador_core.ih5.container import IH5MFRecord

# Manifest extensions must persist until overridden (i.e. until commit_patch(manifest_exts=...) is
# called again), and after every commit the manifest on disk must match the hash in its container.
# The dict passed as manifest_exts is kept by reference: when the caller later reuses/modifies its
# own dict, the record's extensions change without any override, and a merge writes a manifest that
# does not match the recorded hash.

def disk_exts(rec):
    return json.loads(Path(str(rec.ih5_files[-1]) + "mf.json").read_text())["manifest_exts"]

problems = []
d = tempfile.mkdtemp()
try:
    p = Path(d) / "real"
    info = {"owner": "alice", "tags": ["x"]}
    r = IH5MFRecord(p, "w")
    r["a"] = 1
    r.commit_patch(manifest_exts=info)
    assert disk_exts(r) == {"owner": "alice", "tags": ["x"]}

    # caller goes on using its own dict for something else; no commit_patch(manifest_exts=..) follows
    info["owner"] = "bob"
    info["tags"].append("y")

    # (a) merge: non-stub record, must give an openable record with the same manifest
    try:
        r.merge_files(Path(d) / "merged")
        m = IH5MFRecord(Path(d) / "merged", "r")
        if m.manifest.manifest_exts != {"owner": "alice", "tags": ["x"]}:
            problems.append(f"merged record has manifest_exts {m.manifest.manifest_exts!r}")
        m.close()
    except Exception as e:
        problems.append(f"merged record cannot be opened: {type(e).__name__}: {e}")

    # (b) next patch, exts not overridden -> must inherit what was committed
    r.create_patch()
    r["b"] = 2
    r.commit_patch()
    got = disk_exts(r)
    r.close()
    if got != {"owner": "alice", "tags": ["x"]}:
        problems.append(f"patch 1 manifest_exts on disk = {got!r}, expected the committed {{'owner': 'alice', 'tags': ['x']}} "
                        f"(never overridden through commit_patch)")
finally:
    shutil.rmtree(d)

if problems:
    print("PROPERTY VIOLATED:")
    for x in problems:
        print(" -", x)
    sys.exit(1)
print("ok")
