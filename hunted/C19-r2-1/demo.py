import shim  # noqa: F401  (must be first)

import os
import shutil
import sys
import tempfile
from pathlib import Path

from metador_core.util.diff import DirDiff
from metador_core.util.hashsums import dir_hashsums

problems = []
tmp = Path(tempfile.mkdtemp())
try:
    # ---- (a) a symlink that really leads OUTSIDE the directory is accepted ----
    d = tmp / "a" / "dir"
    (d / "sub").mkdir(parents=True)
    (tmp / "a" / "secret.txt").write_text("outside")  # sibling of dir, i.e. outside
    os.symlink("..", d / "sub" / "up")  # sub/up -> dir itself (in-directory, fine)
    os.symlink("sub/up/../secret.txt", d / "esc")  # dir/sub/up/.. == parent of dir!
    real = Path(os.path.realpath(d / "esc"))
    assert real == (tmp / "a" / "secret.txt").resolve() and (d / "esc").read_text() == "outside"
    try:
        h = dir_hashsums(d)
        problems.append(
            f"(a) link esc -> 'sub/up/../secret.txt' leads to {real} (outside of {d}), "
            f"but was accepted and recorded as {h['esc']!r}"
        )
    except ValueError:
        pass  # expected: rejected

    # ---- (b) symlinks that really stay INSIDE the directory are rejected ----
    d = tmp / "b" / "dir"
    (d / "deep" / "x" / "y").mkdir(parents=True)
    (d / "deep" / "other").write_text("inside")
    os.symlink("deep/x/y", d / "s")
    os.symlink("s/../../other", d / "l")  # = deep/x/y/../../other = deep/other
    assert Path(os.path.realpath(d / "l")) == (d / "deep" / "other").resolve()
    try:
        h = dir_hashsums(d)
        if h.get("l") != "symlink:deep/other":
            problems.append(f"(b1) l -> 's/../../other' is deep/other, recorded as {h.get('l')!r}")
    except ValueError as e:
        problems.append(f"(b1) in-directory link l -> 's/../../other' (= deep/other) rejected: {e}")

    d = tmp / "b2" / "real"
    d.mkdir(parents=True)
    (d / "f").write_text("x")
    os.symlink(d, tmp / "b2" / "alias")  # second name of the same directory
    os.symlink(str(tmp / "b2" / "alias" / "f"), d / "l")  # absolute link to real/f
    assert Path(os.path.realpath(d / "l")) == (d / "f").resolve()
    try:
        dir_hashsums(d)
    except ValueError as e:
        problems.append(f"(b2) in-directory link l -> '<alias of dir>/f' rejected: {e}")

    # ---- (c) re-targeting a link to another file is invisible ----
    trees = []
    for name, trg in (("c1", "f"), ("c2", "s/../f")):
        d = tmp / name
        (d / "deep" / "x").mkdir(parents=True)
        (d / "f").write_text("top")
        (d / "deep" / "f").write_text("deep")
        os.symlink("deep/x", d / "s")
        os.symlink(trg, d / "l")
        trees.append((dir_hashsums(d), os.path.relpath(os.path.realpath(d / "l"), os.path.realpath(d))))
    (h1, t1), (h2, t2) = trees
    assert t1 == "f" and t2 == "deep/f"
    if h1 == h2 or DirDiff.compare(h1, h2).is_empty:
        problems.append(
            f"(c) l -> 'f' (is {t1}) and l -> 's/../f' (is {t2}) are different in-directory "
            f"targets, but both trees are equal: l = {h1['l']!r} / {h2['l']!r}"
        )
finally:
    shutil.rmtree(tmp, ignore_errors=True)

if problems:
    print("PROPERTY VIOLATED:")
    for p in problems:
        print(" -", p)
    sys.exit(1)
print("ok")
sys.exit(0)
