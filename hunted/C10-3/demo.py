import shim
import json, shutil, sys, tempfile
from pathlib import Path
from metador_core.ih5.container import IH5MFRecord
from metador_core.ih5.manifest import IH5UBExtManifest
from metador_core.ih5.record import IH5UserBlock, hashsum_file

# After every commit the manifest on disk must match the hash and UUID recorded in its container.
# A redundant commit_patch() (nothing to commit) is refused with ValueError - documented and covered
# by the upstream test-suite. The caller catches it. Afterwards the record object reports a
# manifest UUID/hash for its latest container that belongs to no manifest, and merging breaks.

problems = []
d = tempfile.mkdtemp()
try:
    p = Path(d) / "real"
    r = IH5MFRecord(p, "w")
    r["a"] = 1
    r.commit_patch(manifest_exts={"e": 1})
    r.create_patch()
    r["b"] = 2
    r.commit_patch()

    try:
        r.commit_patch()           # nothing to commit -> ValueError, caught
    except ValueError:
        pass

    latest = r.ih5_files[-1]
    mf_path = Path(str(latest) + "mf.json")
    on_disk_mf_uuid = json.loads(mf_path.read_text())["manifest_uuid"]
    on_disk_mf_hash = hashsum_file(mf_path)
    disk_ext = IH5UBExtManifest.get(IH5UserBlock.load(latest))
    assert str(disk_ext.manifest_uuid) == on_disk_mf_uuid and disk_ext.manifest_hashsum == on_disk_mf_hash

    mem_ext = IH5UBExtManifest.get(r.ih5_meta[-1])      # public view of the container's user block
    if str(mem_ext.manifest_uuid) != on_disk_mf_uuid or mem_ext.manifest_hashsum != on_disk_mf_hash:
        problems.append(
            f"after a refused+caught commit_patch(), ih5_meta[-1] records manifest uuid {mem_ext.manifest_uuid} / "
            f"{mem_ext.manifest_hashsum[:20]}.., but the manifest on disk (and the user block on disk) is "
            f"{on_disk_mf_uuid} / {on_disk_mf_hash[:20]}..; rec.manifest.manifest_uuid={r.manifest.manifest_uuid}")

    # consequence: the (non-stub) record cannot be merged any more
    try:
        r.merge_files(Path(d) / "merged")
        m = IH5MFRecord(Path(d) / "merged", "r")
        if m.manifest.manifest_exts != {"e": 1} or sorted(m.keys()) != ["a", "b"]:
            problems.append("merged record differs")
        m.close()
    except BaseException as e:
        problems.append(f"merge_files after the caught error fails: {type(e).__name__}: {e}")
    r.close()
finally:
    shutil.rmtree(d)

if problems:
    print("PROPERTY VIOLATED:")
    for x in problems:
        print(" -", x)
    sys.exit(1)
print("ok")
