import shim  # noqa
import hashlib
import os
import shutil
import sys
import tempfile
from pathlib import Path

from metador_core.ih5.container import IH5Record


def snap(d: Path):
    return {
        str(p.relative_to(d)): hashlib.sha256(p.read_bytes()).hexdigest()
        for p in sorted(d.rglob("*"))
        if p.is_file()
    }


def setup(top: Path):
    work, backup = top / "work", top / "backup"
    work.mkdir(parents=True)
    # record with committed base and committed patch 1
    with IH5Record(work / "rec", "x") as r:
        r["a"] = 1
    with IH5Record(work / "rec", "r+") as r:
        r["b"] = 2
    # a full copy of the committed record (e.g. the published state) ...
    shutil.copytree(work, backup)
    # ... while the working directory only keeps the base (patch 1 is to be redone)
    (work / "rec.p1.ih5").unlink()
    return work, backup


def run(action: str) -> int:
    old_cwd = os.getcwd()
    top = Path(tempfile.mkdtemp())
    try:
        work, backup = setup(top)
        committed = snap(top)  # all of these files are committed containers

        os.chdir(work)
        r = IH5Record("rec", "r+")  # RELATIVE record path; creates ./rec.p1.ih5
        r["c"] = 3
        os.chdir(backup)  # the program changes its working directory
        try:
            getattr(r, action)()
        except Exception as e:  # an error would be fine for the property
            print(f"{action} raised {type(e).__name__}: {e}")
        try:
            r.close()
        except Exception:
            pass
        os.chdir(old_cwd)

        ret, now = 0, snap(top)
        for name, h in committed.items():
            if name not in now:
                print(f"VIOLATION ({action}): committed file {name} was DELETED")
                ret = 1
            elif now[name] != h:
                print(f"VIOLATION ({action}): committed file {name} was MODIFIED")
                ret = 1
        if ret:
            try:
                IH5Record(backup / "rec", "r").close()
            except Exception as e:
                print(f"  the committed copy can not be opened anymore: {e}")
        return ret
    finally:
        os.chdir(old_cwd)
        shutil.rmtree(top, ignore_errors=True)


if __name__ == "__main__":
    res = [run("commit_patch"), run("discard_patch")]
    if not any(res):
        print("OK: committed files untouched")
    sys.exit(1 if any(res) else 0)
