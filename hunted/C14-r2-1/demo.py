import shim  # noqa
import sys
from typing import Optional

from pydantic import Field
from typing_extensions import Annotated

from metador_core.schema import MetadataSchema
from metador_core.schema.core import check_types
from metador_core.schema.types import Int


# same declaration style as metador_core.schema.examples.matsci.MatsciFileInfo.method
class B(MetadataSchema):
    n: Annotated[Int, Field(default_factory=lambda: 5)]
    s: Optional[str]


check_types(B)  # the schema is accepted by the library's own checks
P = B.Partial
problems = []

empty = P()
if empty.n is not None:
    problems.append(f"empty partial is not empty: {empty!r}")

x = P(n=3)
for label, f in {
    "empty . x": lambda: empty.merge_with(x),
    "x . empty": lambda: x.merge_with(empty),
    "parse_obj({}) . x": lambda: P.parse_obj({}).merge_with(x),
}.items():
    try:
        r = f()
        if r != x:
            problems.append(f"{label}: expected {x!r}, got {r!r}")
    except Exception as e:  # noqa
        problems.append(f"{label}: raised {type(e).__name__}: {str(e).splitlines()[0]}")

try:
    r = x.merge_with(empty, allow_overwrite=True)
    if r.n != 3:
        problems.append(
            f"x . empty (allow_overwrite): provided n=3 was replaced by {r.n!r} coming from the EMPTY partial"
        )
except Exception as e:  # noqa
    problems.append(f"x . empty (allow_overwrite): raised {type(e).__name__}")

try:
    r = P.merge(P(s="a"), P(n=0))
    if r.n != 0 or r.s != "a":
        problems.append(f"merge(s='a', n=0): got {r!r}")
except Exception as e:  # noqa
    problems.append(
        f"merge(P(s='a'), P(n=0)) (disjoint fields!) raised {type(e).__name__}: {' '.join(str(e).split())}"
    )

if problems:
    print("PROPERTY VIOLATED (empty partial is not a neutral element):")
    for p in problems:
        print(" -", p)
    sys.exit(1)
print("ok")
