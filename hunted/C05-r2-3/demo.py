import shim  # noqa: F401  (must be first)
import shutil
import sys
import tempfile
import traceback
from pathlib import Path

import h5py
import numpy as np

from metador_core.ih5.container import IH5Record

tmp = Path(tempfile.mkdtemp())
problems = []
try:
    src = IH5Record(tmp / "src", "w")
    src["title"] = "Müller"  # plain unicode str -> scalar variable-length UTF-8 string
    vl = src.create_dataset("ragged", shape=(), dtype=h5py.vlen_dtype("i4"))  # scalar vlen
    vl[()] = np.array([1, 2, 3], dtype="i4")
    src.commit_patch()

    src.merge_files(tmp / "mrg")
    mrg = IH5Record(tmp / "mrg", "r")

    # (a) through the IH5 API itself: number of dimensions of a dataset
    nd_src, nd_mrg = src["ragged"].ndim, mrg["ragged"].ndim
    if nd_src != nd_mrg:
        problems.append(
            f"/ragged: ndim is {nd_src} in the source but {nd_mrg} in the merged container "
            "(scalar vlen dataset turned into a 1-dim int array)"
        )
    for name, rec in (("source", src), ("merged", mrg)):
        try:
            rec["ragged"][0]
            indexable = True
        except Exception:
            indexable = False
        print(f"  {name}: /ragged ndim={rec['ragged'].ndim} indexable with [0]: {indexable}")

    src_file, mrg_file = src.ih5_files[0], mrg.ih5_files[0]
    mrg.close()
    src.close()

    # (b) the containers are HDF5 files: look at them the way any HDF5 tool does
    def look(path):
        with h5py.File(path, "r") as f:
            ds = f["title"]
            enc = h5py.check_string_dtype(ds.dtype).encoding
            try:
                txt = ds.asstr()[()]
            except Exception as e:
                txt = f"<{type(e).__name__}: {e}>"
            return enc, txt, f["ragged"].shape, str(f["ragged"].dtype)

    s, m = look(src_file), look(mrg_file)
    print("  source file:", s)
    print("  merged file:", m)
    if s[0] != m[0] or s[1] != m[1]:
        problems.append(
            f"/title: stored as {s[0]} string in the source (reads {s[1]!r}), "
            f"but as {m[0]} string in the merged container (reads {m[1]!r})"
        )
    if s[2:] != m[2:]:
        problems.append(f"/ragged: shape/dtype {s[2:]} in source file, {m[2:]} in merged file")
except Exception:
    traceback.print_exc()
    problems.append("unexpected exception in demo")
finally:
    shutil.rmtree(tmp, ignore_errors=True)

if problems:
    print("PROPERTY VIOLATED: tree of merged container differs from the overlay view of the source")
    print("\n".join(problems))
    sys.exit(1)
print("ok: scalar datasets keep their type and shape through merge")
sys.exit(0)
