import shim  # noqa: F401  (must be first)
import json
import os
import shutil
import sys
import tempfile

import h5py
import jsonschema

from metador_core.container import MetadorContainer
from metador_core.plugins import schemas

# core.file = @make_mandatory("contentSize", "sha256") on schema.org MediaObject.
# The two fields are "mandatory", the embedded JSON Schema lists them as required,
# but an explicit None (YAML/JSON null) is still accepted for them.
INPUTS = {
    "dict": dict(filename="x.png", encodingFormat="image/png", contentSize=None, sha256=None),
    "yaml": "filename: x.png\nencodingFormat: image/png\ncontentSize: null\nsha256: null\n",
    "json": '{"filename": "x.png", "encodingFormat": "image/png", "contentSize": null, "sha256": "ab"}',
}

tmp = tempfile.mkdtemp()
problems = []
try:
    path = os.path.join(tmp, "c.h5")
    with MetadorContainer(h5py.File(path, "w")) as mc:
        for name, value in INPUTS.items():
            mc[name] = [1, 2, 3]
            try:
                mc[name].meta["core.file"] = value
            except Exception as e:  # rejecting the input is fine
                print(f"[{name}] rejected by the library ({type(e).__name__}) - ok")

    # freshly opened container: every stored object must validate against embedded schema
    with MetadorContainer(h5py.File(path, "r")) as mc:
        for name in INPUTS:
            for sname, stored in mc[name].meta.items():
                raw = stored.node[()]
                embedded = mc.metador.schemas[stored.schema]
                errs = list(jsonschema.Draft7Validator(embedded).iter_errors(json.loads(raw)))
                if errs:
                    problems.append(
                        f"[{name}] stored {sname} object {raw!r} violates the embedded JSON Schema: "
                        + "; ".join(e.message for e in errs)
                    )
                try:
                    mc[name].meta.get(sname, stored.schema.version)
                except Exception as e:
                    problems.append(f"[{name}] stored {sname} object cannot be read back: {type(e).__name__}")
finally:
    shutil.rmtree(tmp, ignore_errors=True)

if problems:
    print("PROPERTY VIOLATED (stored object must validate against embedded JSON Schema of its schema):")
    for p in problems:
        print("  -", p)
    sys.exit(1)
print("ok")
sys.exit(0)
