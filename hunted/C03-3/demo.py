import shim  # noqa
import shutil, sys, tempfile
from pathlib import Path

from metador_core.ih5.container import IH5Record

d = tempfile.mkdtemp()
problems = []
try:
    # a neighbour record in the same directory
    with IH5Record(Path(d) / "foo2", "w") as o:
        o["z"] = 1
    # record foo: committed base + uncommitted patch on disk
    p = Path(d) / "foo"
    r = IH5Record(p, "w")
    r["a"] = 1
    r.commit_patch()
    r.create_patch()
    r["b"] = 2
    r.close(commit=False)

    # 1) an open attempt that is (rightly) refused: explicit file list with a foreign file mixed in
    files = IH5Record.find_files(p) + [Path(d) / "foo2.ih5"]
    try:
        IH5Record(files, "r")
        problems.append("mixed file list was accepted")
    except ValueError as e:
        print("refused as expected:", e)

    # 2) the caller recovers and opens the record properly to continue the uncommitted patch
    for mode in ("r+", "a"):
        try:
            r = IH5Record(p, mode)
            ok = r._has_writable and sorted(r.keys()) == ["a", "b"] and len(r.ih5_files) == 2
            if not ok:
                problems.append(f"mode {mode}: unexpected state {r.ih5_files} {sorted(r.keys())}")
            r.close(commit=False)
        except Exception as e:
            problems.append(f"IH5Record(foo, {mode!r}) after the refused open raised {type(e).__name__}: {e}")
finally:
    shutil.rmtree(d)

if problems:
    print("VIOLATION: 'r+'/'a' cannot continue the uncommitted patch after an earlier refused open:")
    for x in problems:
        print("  -", x)
    sys.exit(1)
print("ok")
