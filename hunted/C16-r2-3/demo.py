import shim
import sys

from metador_core.plugins import harvesters, packers, schemas, widgets

problems = []


def try_subclass(what, base):
    """Record a problem if `base` (a plugin class we got WITHOUT ever stating a version) can be subclassed."""
    try:
        sub = type(base)("Sub", (base,), {})
    except TypeError:
        return  # refused, as the property demands
    problems.append(f"{what} -> {base!r}; subclass created: {sub.__mro__[:2]}")


# (a) pass a version-less class back into the group: the marker is dropped
for grp, name in [
    (schemas, "core.file"),
    (harvesters, "core.file.generic"),
    (widgets, "core.file.image"),
    (packers, "core.generic"),
]:
    marked = grp.get(name)  # no version stated -> may not be subclassed
    try:
        type(marked)("Sub", (marked,), {})
        problems.append(f"{grp.name}.get({name!r}) itself can be subclassed")
    except TypeError:
        pass
    try_subclass(f"{grp.name}.get({grp.name}.get({name!r}))", grp.get(marked))
    try_subclass(f"{grp.name}[{grp.name}[{name!r}]]", grp[grp[name]])

# (b) field inspector of a version-less schema: nested `schemas` are marked, but `origin` is the bare plugin class
marked = schemas.get("core.file")
nested = marked.Fields.author.schemas.Person
try:
    type(nested)("Sub", (nested,), {})
    problems.append("Fields.author.schemas.Person of a version-less schema can be subclassed")
except TypeError:
    pass
try_subclass('schemas.get("core.file").Fields.filename.origin', marked.Fields.filename.origin)

if problems:
    print("VIOLATION: plugin classes obtained without stating a version can be subclassed:")
    for p in problems:
        print("  -", p)
    sys.exit(1)
print("ok")
