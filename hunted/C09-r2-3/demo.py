import shim  # noqa: F401  (must be first)

import os
import shutil
import sys
import tempfile

import h5py

from metador_core.container import MetadorContainer
from metador_core.ih5.container import IH5MFRecord, IH5Record


def history(kind, tmp):
    if kind == "h5py.File":
        raw = h5py.File(os.path.join(tmp, "plain.h5"), "w")
    elif kind == "IH5Record":
        raw = IH5Record(os.path.join(tmp, "rec"), "w")
    else:
        raw = IH5MFRecord(os.path.join(tmp, "mfrec"), "w")
    log = []
    # flush is one of the three file-level methods MetadorContainer declares as
    # supported (MetadorContainer._self_SUPPORTED = {"mode", "flush", "close"})
    with MetadorContainer(raw) as mc:
        mc["a/b"] = [1, 2, 3]
        for name, fn in [
            ("hasattr(mc, 'flush')", lambda: hasattr(mc, "flush")),
            ("mc.flush()", lambda: mc.flush()),
            ("mc.mode", lambda: mc.mode),
        ]:
            try:
                log.append((name, "ok", fn()))
            except Exception as e:
                log.append((name, "FAILED", f"{type(e).__name__}: {e}"))
    return log


def main():
    tmp = tempfile.mkdtemp()
    try:
        results = {k: history(k, tmp) for k in ("h5py.File", "IH5Record", "IH5MFRecord")}
    finally:
        shutil.rmtree(tmp)
    bad = False
    ref = results["h5py.File"]
    for kind, log in results.items():
        for a, b in zip(ref, log):
            if a != b:
                bad = True
                print(f"step {a[0]}: h5py.File -> {a[1:]} / {kind} -> {b[1:]}")
    if bad:
        print("VIOLATION: a supported container operation works on plain HDF5 only")
        return 1
    print("OK: all drivers agree")
    return 0


if __name__ == "__main__":
    sys.exit(main())
