import shim  # noqa: F401
import os, shutil, sys, tempfile
import h5py, numpy as np
from metador_core.container import MetadorContainer
from metador_core.ih5.container import IH5Record

SECRET = [11, 22, 33, 44, 55]
problems = []
d = tempfile.mkdtemp()
try:
    for drv in ("h5py", "ih5"):
        if drv == "h5py":
            mc = MetadorContainer(h5py.File(os.path.join(d, "a.h5"), "w"))
        else:
            mc = MetadorContainer(IH5Record(os.path.join(d, "rec"), "w"))
        mc["g/ds"] = np.array(SECRET)
        mc["g/tab"] = np.array([[1, 2], [3, 4]])

        sk = mc["g"].restrict(skel_only=True)
        ds = sk["ds"]  # child of skel_only group -> skel_only dataset
        assert ds.acl and all(v for k, v in ds.acl.items() if k.name == "skel_only")
        try:
            ds[()]
            problems.append(f"[{drv}] sanity: ds[()] not refused?!")
        except AttributeError:
            pass  # this is the intended refusal

        readers = {
            "list(ds)": lambda: [int(x) for x in ds],
            "for row in tab": lambda: [list(map(int, r)) for r in sk["tab"]],
            "sum(ds)": lambda: int(sum(ds)),
            "max(ds)": lambda: int(max(ds)),
            "33 in ds": lambda: (33 in ds, 34 in ds),   # falls back to iteration
            "np.array(ds)": lambda: [int(x) for x in np.array(ds).reshape(-1)],
            "ds.astype(float)[:]": lambda: list(ds.astype(float)[:]),
            "ds.read_direct(buf)": lambda: (lambda b: (ds.read_direct(b), list(b))[1])(np.zeros(5, dtype=int)),
        }
        for what, fn in readers.items():
            try:
                got = fn()
            except Exception as e:  # refused (or not available on this driver) -> fine
                continue
            problems.append(f"[{drv}] skel_only dataset: {what} -> {got!r}")
        mc.close()
finally:
    shutil.rmtree(d)

if problems:
    print("PROPERTY VIOLATED (skel_only node yields dataset contents):")
    for p in problems:
        print(" -", p)
    sys.exit(1)
print("ok")
