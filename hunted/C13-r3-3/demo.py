import shim  # noqa: F401  (numpy shim + worktree first on sys.path)
import sys

from pydantic import Field, ValidationError
from typing_extensions import Annotated

from metador_core.plugins import schemas
from metador_core.schema import MetadataSchema
from metador_core.schema.types import Int

# pydantic's `const=True` restricts a field to its default value. It is neither part of
# the type hint nor one of FieldInfo.get_constraints(), so the override check does not
# see it: a child can change the constant, or drop it, without declaring an override.


class Parent(MetadataSchema):
    class Plugin:
        name = "demo.parent"
        version = (0, 1, 0)

    format_version: int = Field(1, const=True)
    level: Annotated[int, Field(const=True)] = 3
    size: Int


class ChangedConst(Parent):
    class Plugin:
        name = "demo.changed"
        version = (0, 1, 0)

    format_version: int = Field(2, const=True)  # other constant


class ChangedAnnotatedConst(Parent):
    class Plugin:
        name = "demo.changed_ann"
        version = (0, 1, 0)

    level: Annotated[int, Field(const=True)] = 4  # other constant, same Annotated hint


class DroppedConst(Parent):
    class Plugin:
        name = "demo.dropped"
        version = (0, 1, 0)

    format_version: int = 1  # same type hint, not constant any more


class DroppedConstNoHint(Parent):
    class Plugin:
        name = "demo.dropped_nohint"
        version = (0, 1, 0)

    format_version = 1  # new default without annotation: pydantic builds a fresh field


CASES = [
    (ChangedConst, dict(size=1)),
    (ChangedAnnotatedConst, dict(size=1)),
    (DroppedConst, dict(size=1, format_version=7)),
    (DroppedConstNoHint, dict(size=1, format_version=7)),
]


def run(child, raw) -> bool:
    """Return True if the property is violated for this child."""
    try:
        schemas.check_plugin("demo", child)
    except Exception as e:
        print(f"OK: {child.__name__} refused by the plugin check:", str(e).splitlines()[0])
        return False
    try:
        obj = child.parse_obj(raw)
    except (ValidationError, TypeError) as e:
        print(f"OK: {child.__name__} does not accept {raw}:", str(e).splitlines()[-1])
        return False
    ser = obj.json()
    try:
        Parent.parse_raw(ser)
    except Exception as e:
        print(f"VIOLATION: {child.__name__} passed the plugin check (no override declared),")
        print(f"  accepted {raw} and serialised it to: {ser}")
        print("  but the parent schema rejects it:", str(e).splitlines()[-1].strip())
        return True
    print(f"OK: parent accepts what {child.__name__} accepted")
    return False


if __name__ == "__main__":
    bad = [run(c, raw) for c, raw in CASES]
    sys.exit(1 if any(bad) else 0)
