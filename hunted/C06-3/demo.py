import shim  # noqa: F401  (numpy-2 shim + puts $WT/src first on sys.path)
import os, shutil, sys, tempfile

import h5py

from metador_core.container import MetadorContainer
from metador_core.ih5.container import IH5Record

# ---------------------------------------------------------------------------
# Independent on-disk audit (works on a plain h5py.File or a raw IH5Record, no library internals):
# returns a list of violations of "TOC and attached metadata are in exact one-to-one sync".
TOC = "/metador_container"


def audit(raw):
    nodes = {}
    raw.visititems(lambda _, n: nodes.__setitem__(n.name, n))
    probs, objs = [], {}
    for p, n in nodes.items():
        if p == TOC or p.startswith(TOC + "/"):
            continue
        segs = p.split("/")
        internal = [i for i, s in enumerate(segs) if s.startswith("metador_")]
        if not internal:
            continue  # ordinary user node
        i = internal[0]
        if not segs[i].startswith("metador_meta_"):
            probs.append(f"internal bookkeeping node outside of the TOC: {p}")
        elif i == len(segs) - 1:  # metadata directory of a node
            owner = segs[i][len("metador_meta_"):]
            owner_path = "/".join(segs[:i] + ([owner] if owner else [])) or "/"
            if owner_path not in raw:
                probs.append(f"metadata dir {p} belongs to non-existing node {owner_path}")
            if len(n) == 0:
                probs.append(f"empty metadata dir {p}")
        elif i == len(segs) - 2:  # metadata object <schema>__<ver>=<uuid>
            ep, uuid = segs[-1].split("=")
            objs[p] = (uuid, ep)
        else:
            probs.append(f"unexpected node inside metadata dir: {p}")
    links = {}
    if TOC + "/links" in raw:
        for ep, grp in raw[TOC + "/links"].items():
            if len(grp) == 0:
                probs.append(f"empty TOC link group for {ep}")
            for uuid, ln in grp.items():
                links[uuid] = (ln[()].decode("utf-8"), ep)
    seen = {}
    for p, (uuid, ep) in objs.items():
        if uuid in seen:
            probs.append(f"UUID {uuid} used twice: {p} and {seen[uuid]}")
        seen[uuid] = p
        if uuid not in links:
            probs.append(f"attached object {p} has no TOC link")
        elif links[uuid] != (p, ep):
            probs.append(f"TOC link of {p} points to {links[uuid]}")
    for uuid, (tgt, ep) in links.items():
        if tgt not in objs:
            probs.append(f"TOC link {ep}/{uuid} -> {tgt} is dangling")
    used = {ep for _, ep in objs.values()}
    stored = set(raw[TOC + "/schemas"].keys()) if TOC + "/schemas" in raw else set()
    if used != stored:
        probs.append(f"schemas in use {sorted(used)} != schema records {sorted(stored)}")
    pkgs = set(raw[TOC + "/packages"].keys()) if TOC + "/packages" in raw else set()
    if bool(pkgs) != bool(used):
        probs.append(f"package records {sorted(pkgs)} but schemas in use {sorted(used)}")
    for sub in ("links", "schemas", "packages"):
        if f"{TOC}/{sub}" in raw and len(raw[f"{TOC}/{sub}"]) == 0:
            probs.append(f"empty bookkeeping group {TOC}/{sub}")
    return probs
# ---------------------------------------------------------------------------

PERSON = {"name": "Jane Doe"}


def scenario(open_raw, reopen_raw):
    mc = MetadorContainer(open_raw())
    mc["a"] = 1
    a = mc["a"]  # node object
    mc.move("a", "b")  # the dataset now lives at /b (with h5py the object `a` follows: a.name == "/b")
    try:
        a.meta["core.person"] = PERSON
        print("   attach via the node object accepted; a.name =", a.name)
    except Exception as e:  # refusing is fine as well
        print("   attach refused:", type(e).__name__, e)
    print("   nodes:", list(mc.keys()), " metadata at /b:", list(mc["b"].meta.keys()))
    mc.close()
    raw = reopen_raw()
    problems = audit(raw)
    raw.close()
    return problems


def main():
    d = tempfile.mkdtemp()
    try:
        bad = 0
        h5 = os.path.join(d, "x.h5")
        ih5 = os.path.join(d, "rec")
        for name, o, r in [
            ("h5py.File", lambda: h5py.File(h5, "w"), lambda: h5py.File(h5, "r")),
            ("IH5Record", lambda: IH5Record(ih5, "w"), lambda: IH5Record(ih5, "r")),
        ]:
            print(name)
            problems = scenario(o, r)
            for p in problems:
                print("  - VIOLATION:", p)
            bad += len(problems)
        if bad:
            return 1
        print("ok: TOC in sync")
        return 0
    finally:
        shutil.rmtree(d, ignore_errors=True)


sys.exit(main())
