import shim  # noqa: F401  (must be first)
import os
import shutil
import sys
import tempfile

import h5py
import numpy as np

from metador_core.ih5.container import IH5Record

# History:
#   create_group g; g.attrs["tags"] = array of two variable-length strings, one of which
#   is a byte string that is no valid UTF-8 (legal in HDF5/h5py, stored and read fine);
#   g/d = 1
#   ---- commit + create_patch ----
#   copy g -> h        (then also: move g -> m, and merge_files)
TAGS = np.array([b"caf\xe9", b"ok"], dtype=h5py.string_dtype())


def view(root):
    out = {}

    def add(name, node):
        out[name] = sorted((k, repr(np.asarray(v).tolist())) for k, v in node.attrs.items())

    root.visititems(add)
    return out


def history(root, boundary):
    res = []
    root.create_group("g")
    root["g"].attrs["tags"] = TAGS
    root["g/d"] = 1
    boundary()
    for what, op in (
        ("copy g -> h", lambda: root.copy("g", "h")),
        ("move g -> m", lambda: root.move("g", "m")),
    ):
        try:
            op()
            res.append((what, "ok"))
        except Exception as e:
            res.append((what, f"raised {type(e).__name__}: {e}"))
    return res


tmp = tempfile.mkdtemp()
problems = []
try:
    ref = h5py.File(os.path.join(tmp, "ref.h5"), "w")
    want_res = history(ref, lambda: None)
    want = view(ref)
    ref.close()

    rec = IH5Record(os.path.join(tmp, "rec"), "w")

    def boundary():
        rec.commit_patch()
        rec.create_patch()

    got_res = history(rec, boundary)
    got = view(rec)
    rec.commit_patch()

    for (what, w), (_, g) in zip(want_res, got_res):
        if (w == "ok") != (g == "ok"):
            problems.append(f"{what}: single tree: {w}; IH5 record: {g}")
    if got != want:
        problems.append(f"tree differs:\n      single tree: {want}\n      IH5 record:  {got}")

    try:
        rec.merge_files(os.path.join(tmp, "merged"))
    except Exception as e:
        problems.append(f"merge_files of the record raised {type(e).__name__}: {e}")
    rec.close()
finally:
    shutil.rmtree(tmp)

if problems:
    print("IH5 copy/move/merge break on an array attribute of non-UTF-8 strings:")
    for p in problems:
        print("  -", p)
    sys.exit(1)
print("ok")
