import shim  # noqa
"""A rejected assignment is not atomic on IH5: it resurrects deleted data / leaves junk nodes behind.

The same history is applied through h5py.File and IH5Record (with one patch boundary).
Every step must succeed/fail alike and the visible tree must be the same afterwards.
"""
import os, shutil, sys, tempfile
import h5py, numpy as np
from metador_core.container import MetadorContainer
from metador_core.ih5.container import IH5Record, IH5MFRecord


def tree(mc):
    out = {"/@": sorted(mc.attrs.keys())}
    def vis(name, node):
        out[name] = repr(node[()]) if hasattr(node, "ndim") else "<group>"
    mc.visititems(vis)
    return out


def history(raw, boundary):
    mc = MetadorContainer(raw)
    log = []
    def attempt(label, fn):
        try:
            fn()
            log.append((label, "ok"))
        except Exception as e:  # caller catches the error and goes on
            log.append((label, "fails"))
    mc["names"] = [b"x", b"y"]
    mc["grp/val"] = 1
    mc.attrs["at"] = 1
    boundary()  # IH5: commit_patch + create_patch, h5py: nothing
    del mc["names"]
    del mc["grp"]
    del mc.attrs["at"]
    bad = np.array(["ab", "c"])  # numpy unicode array: h5py has no conversion path -> TypeError
    attempt("names = <U array>", lambda: mc.__setitem__("names", bad))
    attempt("grp = <U array>", lambda: mc.__setitem__("grp", bad))
    attempt("attrs[at] = str with NUL", lambda: mc.attrs.__setitem__("at", "x\x00y"))
    attempt("x/y/z = <U array>", lambda: mc.__setitem__("x/y/z", bad))
    attempt("nul = bytes with NUL", lambda: mc.__setitem__("nul", b"a\x00b"))
    return log, tree(mc)


tmp = tempfile.mkdtemp()
try:
    f = h5py.File(os.path.join(tmp, "plain.h5"), "w")
    ref = history(f, lambda: None)
    f.close()
    bad = False
    for cls in (IH5Record, IH5MFRecord):
        r = cls(os.path.join(tmp, "rec" + cls.__name__), "w")
        def boundary():
            r.commit_patch()
            r.create_patch()
        got = history(r, boundary)
        r.close()
        if got != ref:
            bad = True
            print(f"--- {cls.__name__} differs from h5py.File")
            print("  steps h5py:", ref[0])
            print("  steps ih5 :", got[0])
            for k in sorted(set(ref[1]) | set(got[1])):
                if ref[1].get(k) != got[1].get(k):
                    print(f"  node {k!r}: h5py={ref[1].get(k)!r}  ih5={got[1].get(k)!r}")
    if bad:
        print("VIOLATION: after assignments that failed on both drivers, the IH5 container shows "
              "deleted data again and/or extra nodes")
        sys.exit(1)
    print("ok: same outcome on both drivers")
finally:
    shutil.rmtree(tmp)
