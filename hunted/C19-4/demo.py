import shim  # noqa: F401  (must be first)
import shutil
import sys
import tempfile
from pathlib import Path

from metador_core.util.hashsums import dir_hashsums

root = Path(tempfile.mkdtemp())
problems = []
try:
    # two identical directories: x -> y, y -> x (both targets are in-directory names)
    A, B, C = root / "A", root / "B", root / "C"
    for d in (A, B, C):
        d.mkdir()
        (d / "f").write_bytes(b"data")
    for d in (A, B):
        (d / "x").symlink_to("y")
        (d / "y").symlink_to("x")
    # and one that differs by a single retarget (x -> f)
    (C / "x").symlink_to("f")
    (C / "y").symlink_to("x")

    trees = {}
    for d in (A, B, C):
        try:
            trees[d.name] = dir_hashsums(d)
            print(d.name, trees[d.name])
        except Exception as e:  # noqa
            print(d.name, "->", type(e).__name__, e)
            trees[d.name] = e
    if isinstance(trees["A"], Exception):
        problems.append(
            "directory with the in-directory links x->y, y->x gets no hashsum tree at all: "
            f"{type(trees['A']).__name__}: {trees['A']}"
        )
    else:
        if trees["A"] != trees["B"]:
            problems.append("identical directories, different trees")
        if trees["A"] == trees["C"]:
            problems.append("retarget of x not visible")

    # smallest form: a link to itself
    S = root / "S"
    S.mkdir()
    (S / "l").symlink_to("l")
    try:
        dir_hashsums(S)
    except Exception as e:  # noqa
        problems.append(f"l -> l: {type(e).__name__}: {e}")
finally:
    shutil.rmtree(root, ignore_errors=True)

if problems:
    print("PROPERTY VIOLATED:")
    for p in problems:
        print("  -", p)
    sys.exit(1)
print("ok")
sys.exit(0)
