import shim  # noqa: F401  (must be first)
import sys
from typing import Optional

from metador_core.schema.core import MetadataSchema, check_types


# A recursive model family, recursion going through a subclass
# (the schema.org pattern: Thing.subjectOf is a CreativeWork, and CreativeWork is a Thing)
class Thing(MetadataSchema):
    name: Optional[str]
    subjectOf: Optional["Work"]


class Work(Thing):
    version: Optional[int]


Thing.update_forward_refs(Work=Work)
Work.update_forward_refs(Work=Work)
check_types(Work)  # the schema checks of the library accept the classes

# the first partial that is requested is the one of the subclass
WP = Work.Partial
TP = Thing.Partial

problems = []

# operand 1: converted from a complete object, operand 2: parsed from a dict, nothing conflicts
p1 = TP.to_partial(Thing(name="thing", subjectOf=Work(name="paper")))
p2 = TP.parse_obj({"subjectOf": {"version": 0}})
for order, (a, b) in (("complete+parsed", (p1, p2)), ("parsed+complete", (p2, p1))):
    for ov in (False, True):
        try:
            r = a.merge_with(b, allow_overwrite=ov)
        except Exception as e:
            problems.append(f"[{order}, overwrite={ov}] raised {type(e).__name__}: {str(e).splitlines()[0]}")
            continue
        got = (r.subjectOf.name, r.subjectOf.version)
        if got != ("paper", 0):
            problems.append(f"[{order}, overwrite={ov}] nested object not merged: (name, version) = {got}")

# same with a partial built the way a harvester does it
p3 = TP.construct(subjectOf=WP(name="paper"))
try:
    r = p3.merge_with(p2)
    if (r.subjectOf.name, r.subjectOf.version) != ("paper", 0):
        problems.append("[constructed+parsed] nested object not merged")
except Exception as e:
    problems.append(f"[constructed+parsed] raised {type(e).__name__}: {str(e).splitlines()[0]}")

if problems:
    field_cls = TP.__fields__["subjectOf"].type_
    print("PROPERTY VIOLATED (nested objects are not merged recursively / provided values dropped):")
    for p in problems:
        print("  -", p)
    print(
        "note: Thing.Partial.subjectOf is declared with",
        f"{field_cls.__name__} (id {id(field_cls):#x}), but Work.Partial is (id {id(WP):#x}):",
        "same class" if field_cls is WP else "two different partial classes for the one model Work",
    )
    sys.exit(1)
print("ok")
