import shim  # noqa: F401  (numpy shim + worktree first on sys.path)
import enum
import sys

from phantom.interval import Inclusive
from pydantic import Field, ValidationError

from metador_core.plugins import schemas
from metador_core.schema import MetadataSchema
from metador_core.schema.types import MimeTypeStr

# A child "narrows" an inherited field by adding a pydantic constraint with an
# assigned Field(...) and keeps the type hint. For str/int based phantom types
# and enums pydantic then REPLACES the type by a plain constrained str/int,
# so the child field accepts far more than the hint (and the parent) does.


class Percent(int, Inclusive, low=0, high=100):
    """phantom type: 0 <= n <= 100"""


class Kind(str, enum.Enum):
    raw = "raw"
    processed = "processed"


class Parent(MetadataSchema):
    class Plugin:
        name = "demo.parent"
        version = (0, 1, 0)

    mime: MimeTypeStr
    fill: Percent
    kind: Kind


CASES = []


class ChildA(Parent):
    class Plugin:
        name = "demo.child_a"
        version = (0, 1, 0)

    mime: MimeTypeStr = Field(max_length=50)


CASES.append((ChildA, dict(mime="this is no mime type", fill=1, kind="raw")))


class ChildB(Parent):
    class Plugin:
        name = "demo.child_b"
        version = (0, 1, 0)

    fill: Percent = Field(multiple_of=5)


CASES.append((ChildB, dict(mime="a/b", fill=-1000, kind="raw")))


class ChildC(Parent):
    class Plugin:
        name = "demo.child_c"
        version = (0, 1, 0)

    kind: Kind = Field(max_length=20)


CASES.append((ChildC, dict(mime="a/b", fill=1, kind="anything")))


def run(child, raw) -> bool:
    """Return True if the property is violated for this child."""
    try:
        schemas.check_plugin("demo", child)
    except Exception as e:
        print(f"OK: {child.__name__} refused by the plugin check:", str(e).splitlines()[0])
        return False
    try:
        obj = child.parse_obj(raw)
    except ValidationError as e:
        print(f"OK: {child.__name__} does not accept {raw}:", str(e).splitlines()[-1])
        return False
    ser = obj.json()
    try:
        Parent.parse_raw(ser)
    except Exception as e:
        print(f"VIOLATION: {child.__name__} passed the plugin check (no override declared),")
        print("  effective field types:", {k: repr(child.__fields__[k].type_.__mro__[1:3])
                                           for k in child.__annotations__ if k in child.__fields__
                                           and isinstance(child.__fields__[k].type_, type)})
        print("  accepted and serialised:", ser)
        print("  but the parent schema rejects it:", str(e).splitlines()[-1].strip())
        return True
    print(f"OK: parent accepts what {child.__name__} accepted")
    return False


if __name__ == "__main__":
    bad = [run(c, raw) for c, raw in CASES]
    sys.exit(1 if any(bad) else 0)
