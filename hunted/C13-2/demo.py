import shim  # noqa: F401  (must be first)
import sys

from metador_core.plugin.util import register_in_group
from metador_core.plugins import schemas
from metador_core.schema import MetadataSchema
from metador_core.schema.types import Int, NonEmptyStr


class Measurement(MetadataSchema):
    class Plugin:
        name = "hunt.measurement"
        version = (0, 1, 0)

    size: Int  # mandatory, None not allowed
    label: NonEmptyStr


class LazyMeasurement(Measurement):  # no @override declared
    class Plugin:
        name = "hunt.lazymeasurement"
        version = (0, 1, 0)

    # same type hint as in the parent, but the common `= None` idiom: pydantic (v1) turns
    # the field into an optional one that admits None
    size: Int = None


register_in_group(schemas, Measurement, violently=True)
try:
    register_in_group(schemas, LazyMeasurement, violently=True)
except (TypeError, ValueError) as e:
    print("OK: child schema making a mandatory field optional was refused:", str(e)[:80])
    sys.exit(0)

print("child schema hunt.lazymeasurement passed the plugin check without any @override")
Parent = schemas.get("hunt.measurement", (0, 1, 0))
Child = schemas.get("hunt.lazymeasurement", (0, 1, 0))
fld = Child.__fields__["size"]
print(f"child field 'size': required={fld.required} allow_none={fld.allow_none};",
      f"parent: required={Parent.__fields__['size'].required} allow_none={Parent.__fields__['size'].allow_none}")

bad = 0
for kwargs in (dict(label="a"), dict(label="a", size=None), dict(label="a", size=3)):
    try:
        obj = Child(**kwargs)
    except Exception:
        continue  # child rejects it -> nothing to compare
    ser = obj.json()
    try:
        Parent.parse_raw(ser)
    except Exception as e:  # pydantic ValidationError
        bad += 1
        msg = str(e).replace("\n", " ")
        print(f"VIOLATION: child accepts {kwargs}, serialises to {ser},\n   but parent hunt.measurement rejects it: {msg}")

sys.exit(1 if bad else 0)
