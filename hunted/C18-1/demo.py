import shim  # noqa
import os
import shutil
import sys
import tempfile
from pathlib import Path

from metador_core.util.diff import DirDiff
from metador_core.util.hashsums import dir_hashsums

# BORDERLINE finding: the diff of the *snapshots* is exact, but the snapshot of a symlink
# stores the fully resolved end of a symlink chain instead of the link's own target.
problems = []
root = Path(tempfile.mkdtemp())
try:
    d = root / "data"
    d.mkdir()
    (d / "f").write_text("one")
    (d / "g").write_text("two")
    os.symlink("f", d / "m")  # m -> f
    os.symlink("m", d / "l")  # l -> m   (chain l -> m -> f)
    h0 = dir_hashsums(d)

    # (A) retarget l from "m" to "f": the entry l was changed on disk
    os.unlink(d / "l")
    os.symlink("f", d / "l")
    h1 = dir_hashsums(d)
    diff = DirDiff.compare(h0, h1)
    if diff.is_empty or diff.get("l") is None:
        problems.append(
            f"(A) l was retargeted m -> f, but no difference is reported "
            f"(snapshot of l before {h0['l']!r}, after {h1['l']!r})"
        )

    # back to the chain
    os.unlink(d / "l")
    os.symlink("m", d / "l")
    assert dir_hashsums(d) == h0

    # (B) retarget only m from "f" to "g": l itself is untouched (readlink is still "m")
    os.unlink(d / "m")
    os.symlink("g", d / "m")
    assert os.readlink(d / "l") == "m"
    h2 = dir_hashsums(d)
    diff = DirDiff.compare(h0, h2)
    reported = [x for x in ("l", "m") if diff.get(x) is not None]
    if "m" not in reported:
        problems.append("(B) m was retargeted but is not reported")
    if "l" in reported:
        n = diff.get("l")
        problems.append(
            f"(B) only m was retargeted, l is byte-for-byte unchanged on disk, but l is "
            f"reported as {n.status().name}: {n.prev!r} -> {n.curr!r}"
        )
finally:
    shutil.rmtree(root)

if problems:
    print("VIOLATION:")
    for p in problems:
        print("  ", p)
    sys.exit(1)
print("ok")
sys.exit(0)
