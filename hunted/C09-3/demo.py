import shim  # noqa
"""require_dataset on an existing dataset: h5py checks shape/dtype (and demands both), IH5 hands out anything."""
import os, shutil, sys, tempfile
import h5py, numpy as np
from metador_core.container import MetadorContainer
from metador_core.ih5.container import IH5Record, IH5MFRecord


def run(raw, boundary):
    mc = MetadorContainer(raw)
    log = []
    def step(label, fn):
        try:
            r = fn()
            log.append((label, "ok", None if r is None else (r.name, repr(r[()]))))
        except Exception as e:
            log.append((label, "fails", None))
    mc["d"] = np.arange(2)  # int64, shape (2,)
    boundary()
    step("require_dataset('d', (2,), 'i8')   [matching]", lambda: mc.require_dataset("d", (2,), "i8"))
    step("require_dataset('d', (3,), 'i8')   [wrong shape]", lambda: mc.require_dataset("d", shape=(3,), dtype="i8"))
    step("require_dataset('d', (2,), 'S3')   [wrong dtype]", lambda: mc.require_dataset("d", (2,), "S3"))
    step("require_dataset('d', (2,), 'i2', exact=True)", lambda: mc.require_dataset("d", (2,), "i2", exact=True))
    step("require_dataset('d')               [no shape/dtype]", lambda: mc.require_dataset("d"))
    step("require_dataset('new', data=[1,2]) [no shape/dtype]", lambda: mc.require_dataset("new", data=[1, 2]))
    log.append(("keys", sorted(mc.keys())))
    return log


tmp = tempfile.mkdtemp()
try:
    f = h5py.File(os.path.join(tmp, "plain.h5"), "w")
    ref = run(f, lambda: None)
    f.close()
    bad = False
    for cls in (IH5Record, IH5MFRecord):
        r = cls(os.path.join(tmp, "rec" + cls.__name__), "w")
        def boundary():
            r.commit_patch()
            r.create_patch()
        got = run(r, boundary)
        r.close()
        for a, b in zip(ref, got):
            if a != b:
                bad = True
                print(f"{cls.__name__}: {a[0]}: h5py.File -> {a[1:]}, IH5 -> {b[1:]}")
    if bad:
        print("VIOLATION: require_dataset succeeds on IH5 where it fails on h5py.File")
        sys.exit(1)
    print("ok: same outcome on both drivers")
finally:
    shutil.rmtree(tmp)
