import shim  # noqa: F401  (must be first)

import shutil
import sys
import tempfile
from pathlib import Path

import numpy as np

from metador_core.ih5.container import IH5Record

# The same coherent file set must be accepted every time. Here it is accepted, then
# (after one *rejected* attempt on a superset with a stray duplicate of the base, the
# exception being caught by the caller) the identical set is rejected.

tmp = Path(tempfile.mkdtemp())
problems = []
try:
    p = tmp / "rec"
    w = IH5Record(p, "w")
    w["a"] = np.arange(10)
    w.commit_patch()
    w.create_patch()
    w["b"] = 1
    w.close(commit=False)  # interrupted session: committed base + incomplete patch p1

    # the set is accepted for continuing the work (documented behaviour of 'r+'/'a')
    w = IH5Record(p, "r+")
    assert [f.name for f in w.ih5_files] == ["rec.ih5", "rec.p1.ih5"]
    w.close(commit=False)

    # a file manager leaves a duplicate of the base next to the record
    stray = tmp / "rec (copy).ih5"
    shutil.copy(tmp / "rec.ih5", stray)
    try:
        x = IH5Record(p, "r+")
        x.close(commit=False)
        problems.append("file set with a duplicated container was accepted")
    except ValueError as e:
        print("rejected as expected:", str(e)[:90])

    stray.unlink()  # user repairs the directory: exactly the set accepted above

    try:
        w = IH5Record(p, "r+")
        w["c"] = 2
        w.close()
        chk = IH5Record(p, "r")
        assert sorted(chk.keys()) == ["a", "b", "c"]
        chk.close()
    except Exception as e:
        problems.append(
            "coherent set (accepted before) is rejected after a failed open attempt: "
            f"{type(e).__name__}: {e}"
        )
finally:
    shutil.rmtree(tmp, ignore_errors=True)

if problems:
    print("PROPERTY VIOLATED:")
    for x in problems:
        print(" -", x)
    sys.exit(1)
print("ok")
sys.exit(0)
