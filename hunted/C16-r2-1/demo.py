import shim
import sys

from metador_core.plugins import plugingroups, schemas, widgets
from metador_core.schema.plugins import PluginRef

problems = []

# references to plugins of OTHER groups that merely share name+version with a plugin group
foreign = [
    schemas.PluginRef(name="schema", version=(0, 1, 0)),  # a *schema* called "schema"
    widgets.PluginRef(name="harvester", version=(0, 1, 0)),  # a *widget* called "harvester"
    PluginRef(group="packer", name="widget", version=(0, 0, 0)),
]
for ref in foreign:
    # no registered reference of group 'plugingroup' supports a reference of another group
    supporters = [k for k in plugingroups.keys() if k.supports(ref)]
    assert supporters == [], supporters
    got = plugingroups.get(ref)
    if got is not None:
        problems.append(
            f"plugingroups.get({ref!r}) -> plugin group '{got.name}' "
            f"(expected None: nothing supports it; `ref in plugingroups` is {ref in plugingroups})"
        )

# for comparison: an ordinary group refuses such a reference
assert schemas.get(widgets.PluginRef(name="core.file", version=(0, 1, 0))) is None

if problems:
    print("VIOLATION: plugingroups.get resolves references of other plugin groups:")
    for p in problems:
        print("  -", p)
    sys.exit(1)
print("ok")
