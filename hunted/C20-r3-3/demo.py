import shim  # noqa: F401  (numpy-2 shim, puts $WT/src first)

"""The parent chain of a schema is wrong if a parent has a newer compatible version.

Family A (the layout the versioning rules ask for - a new minor version of the
parent schema forces a new minor version of the child):
    fam.root 0.1.0, fam.root 0.2.0,
    fam.base 0.1.0 (subclass of root 0.1.0), fam.base 0.2.0 (subclass of root 0.2.0),
    fam.mid  0.1.0 (subclass of base 0.1.0)
Family B (a new minor version of a schema does not derive from the parent any more):
    alt.root 0.1.0, alt.base 0.1.0 (subclass of alt.root), alt.base 0.2.0 (no parent),
    alt.mid 0.1.0 (subclass of alt.base 0.1.0)

The chain is computed by PGSchema._compute_parent_path, which after each step
continues from the NEWEST COMPATIBLE version of the parent, not from the parent class.
"""
import atexit
import os
import shutil
import sys
import tempfile
import textwrap

pkg = tempfile.mkdtemp(prefix="fakepkg_")
atexit.register(shutil.rmtree, pkg, True)
with open(os.path.join(pkg, "hunt3_c20_fam.py"), "w") as f:
    f.write(
        textwrap.dedent(
            '''
            from typing import Optional
            from metador_core.schema import MetadataSchema

            class Root1(MetadataSchema):
                class Plugin:
                    name = "fam.root"
                    version = (0, 1, 0)
                r: int
            class Root2(MetadataSchema):
                class Plugin:
                    name = "fam.root"
                    version = (0, 2, 0)
                r: int
                r2: Optional[int]
            class Base1(Root1):
                class Plugin:
                    name = "fam.base"
                    version = (0, 1, 0)
                x: int
            class Base2(Root2):
                class Plugin:
                    name = "fam.base"
                    version = (0, 2, 0)
                x: int
            class Mid1(Base1):
                class Plugin:
                    name = "fam.mid"
                    version = (0, 1, 0)
                y: int = 0

            class ARoot(MetadataSchema):
                class Plugin:
                    name = "alt.root"
                    version = (0, 1, 0)
                r: int
            class ABase1(ARoot):
                class Plugin:
                    name = "alt.base"
                    version = (0, 1, 0)
                x: int
            class ABase2(MetadataSchema):   # accepts more than 0.1.0 -> minor bump
                class Plugin:
                    name = "alt.base"
                    version = (0, 2, 0)
                x: int
            class AMid1(ABase1):
                class Plugin:
                    name = "alt.mid"
                    version = (0, 1, 0)
                y: int = 0
            '''
        )
    )
di = os.path.join(pkg, "hunt3_c20_fam-1.0.0.dist-info")
os.mkdir(di)
with open(os.path.join(di, "METADATA"), "w") as f:
    f.write("Metadata-Version: 2.1\nName: hunt3-c20-fam\nVersion: 1.0.0\n")
EPS = {
    "fam.root__0.1.0": "Root1", "fam.root__0.2.0": "Root2", "fam.base__0.1.0": "Base1",
    "fam.base__0.2.0": "Base2", "fam.mid__0.1.0": "Mid1", "alt.root__0.1.0": "ARoot",
    "alt.base__0.1.0": "ABase1", "alt.base__0.2.0": "ABase2", "alt.mid__0.1.0": "AMid1",
}
with open(os.path.join(di, "entry_points.txt"), "w") as f:
    f.write("[metador_schema]\n" + "".join(f"{k}=hunt3_c20_fam:{v}\n" for k, v in EPS.items()))
sys.path.insert(0, pkg)

import h5py  # noqa: E402

from metador_core.container import MetadorContainer  # noqa: E402
from metador_core.plugins import schemas  # noqa: E402
from metador_core.schema import MetadataSchema  # noqa: E402


def show(chain):
    return [f"{r.name} {'.'.join(map(str, r.version))}" for r in chain]


def mro_chain(cls):
    """The registered schemas a schema class really derives from (root first)."""
    ret = []
    for c in reversed(cls.__mro__):
        if isinstance(c, type) and issubclass(c, MetadataSchema) and c.__dict__.get("Plugin"):
            ret.append(schemas.PluginRef(name=c.Plugin.name, version=c.Plugin.version))
    return ret


problems = []
Mid1 = schemas.get("fam.mid", (0, 1, 0))
AMid1 = schemas.get("alt.mid", (0, 1, 0))
ARoot = schemas.get("alt.root", (0, 1, 0))

d = tempfile.mkdtemp()
try:
    with MetadorContainer(h5py.File(d + "/x.h5", "w")) as mc:
        mc["m"] = 1
        mc["m"].meta[Mid1] = Mid1(r=1, x=2)
        mc["a"] = 1
        mc["a"].meta[AMid1] = AMid1(r=1, x=2)

    with MetadorContainer(h5py.File(d + "/x.h5", "r")) as mc:
        toc = mc.metador.schemas
        for key, cls in (("m", Mid1), ("a", AMid1)):
            obj = next(iter(mc[key].meta.values()))
            emb = toc.parent_path(obj.schema)
            want = mro_chain(cls)
            print(f"/{key}: embedded chain {show(emb)}; classes: {show(want)}")
            if emb != want:
                problems.append(
                    f"/{key}: embedded parent chain of {obj.schema.name} is {show(emb)}, "
                    f"but the schema derives from {show(want)}"
                )
            # the description of the container vs. the plugin system, for all listed schemas
            for ref in emb:
                if toc.parent_path(ref) != schemas.parent_path(ref):
                    problems.append(
                        f"/{key}: container says parents of {show([ref])[0]} are {show(toc.parent_path(ref))}, "
                        f"plugin system says {show(schemas.parent_path(ref))}"
                    )
        # consequence: an instance of a child schema of alt.root is not found as such
        a_obj = AMid1(r=1, x=2)
        assert isinstance(a_obj, ARoot)
        found = [n.name for n in mc.metador.query("alt.root")]
        if "/a" not in found:
            problems.append(
                f"query('alt.root') finds {found}, not /a which holds an alt.mid object (an alt.root instance)"
            )
finally:
    shutil.rmtree(d, ignore_errors=True)

if problems:
    print("PROPERTY VIOLATED:")
    for p in problems:
        print(" -", p)
    sys.exit(1)
print("ok")
