import shim  # noqa
import pickle
import sys
from typing import Optional

from metador_core.schema import MetadataSchema
from metador_core.schema.types import PintQuantity, PintUnit


class Measurement(MetadataSchema):
    q: Optional[PintQuantity]
    u: Optional[PintUnit]


problems = []
for kw in [dict(q="5 m"), dict(u="m/s")]:
    orig = Measurement(**kw)
    obj = pickle.loads(pickle.dumps(orig))  # e.g. sent to / received from a worker process
    if obj != orig:
        problems.append(f"{kw}: unpickled instance is not equal to the original")
        continue
    for fname, ser in {"json": lambda o: o.json(), "yaml": lambda o: o.yaml(), "bytes": bytes}.items():
        try:
            back = Measurement.parse_raw(ser(obj))
            if back != orig:
                problems.append(f"{kw}: {fname} round trip not equal")
        except Exception as e:
            val = obj.q if obj.q is not None else obj.u
            problems.append(
                f"{kw}: {fname} of the unpickled (equal) instance raised {type(e).__name__}: {e}"
                f"  [field value is now a {type(val).__module__}.{type(val).__name__}]"
            )

if problems:
    print("PROPERTY VIOLATED: a valid instance cannot be serialised:")
    for p in problems:
        print("  -", p)
    sys.exit(1)
print("ok: pickled instances with units/quantities can be serialised")
sys.exit(0)
