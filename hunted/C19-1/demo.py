import shim  # noqa: F401  (must be first)
import os
import shutil
import sys
import tempfile
from pathlib import Path

from metador_core.util.diff import DirDiff
from metador_core.util.hashsums import dir_hashsums

root = Path(tempfile.mkdtemp())
problems = []
try:
    # --- (a) retarget a link from an alias to the aliased file ------------------
    # A:  c (file), b -> c, l -> b        B:  c (file), b -> c, l -> c
    A, B = root / "A", root / "B"
    for d in (A, B):
        d.mkdir()
        (d / "c").write_bytes(b"data")
        (d / "b").symlink_to("c")
    (A / "l").symlink_to("b")
    (B / "l").symlink_to("c")
    ha, hb = dir_hashsums(A), dir_hashsums(B)
    print("A/l ->", os.readlink(A / "l"), " tree:", ha)
    print("B/l ->", os.readlink(B / "l"), " tree:", hb)
    if ha == hb:
        problems.append(
            "(a) l->b (b->c) and l->c have different symlink targets, but the hashsum trees are equal"
        )

    # same thing as an in-place single edit seen through DirDiff
    before = dir_hashsums(A)
    (A / "l").unlink()
    (A / "l").symlink_to("c")
    if DirDiff.compare(before, dir_hashsums(A)).is_empty:
        problems.append("(a') retargeting A/l from 'b' to 'c' yields an empty DirDiff")

    # --- (b) same via a directory alias ----------------------------------------
    C, D = root / "C", root / "D"
    for d in (C, D):
        d.mkdir()
        (d / "v2").mkdir()
        (d / "v2" / "f").write_bytes(b"data")
        (d / "latest").symlink_to("v2")
    (C / "l").symlink_to("latest/f")
    (D / "l").symlink_to("v2/f")
    if dir_hashsums(C) == dir_hashsums(D):
        problems.append("(b) l->latest/f (latest->v2) and l->v2/f give equal trees")

    # --- (c) a working link and a broken link get the same tree ----------------
    E, F = root / "E", root / "F"
    for d in (E, F):
        d.mkdir()
        (d / "f").write_bytes(b"data")
    (E / "l").symlink_to("f")  # readable
    (F / "l").symlink_to("missing/../f")  # ENOENT when followed
    try:
        (F / "l").read_bytes()
        broken = False
    except OSError:
        broken = True
    assert (E / "l").read_bytes() == b"data" and broken
    if dir_hashsums(E) == dir_hashsums(F):
        problems.append(
            "(c) E/l->'f' (readable) and F/l->'missing/../f' (broken) give equal trees: "
            + str(dir_hashsums(F))
        )
finally:
    shutil.rmtree(root, ignore_errors=True)

if problems:
    print("PROPERTY VIOLATED:")
    for p in problems:
        print("  -", p)
    sys.exit(1)
print("ok")
sys.exit(0)
