import shim  # noqa: F401  (must be first)

import os
import shutil
import sys
import tempfile

import h5py

from metador_core.container import MetadorContainer
from metador_core.ih5.container import IH5Record

FILE_META = dict(
    id_="x",
    filename="y.txt",
    encodingFormat="text/plain",
    contentSize=3,
    sha256="sha256:" + "0" * 64,
)


def open_raw(kind, path):
    if kind == "h5py.File":
        return h5py.File(path + ".h5", "w")
    return IH5Record(path, "w")


def tree(mc):
    out = []
    mc.visit(out.append)
    return sorted(out)


def main():
    tmp = tempfile.mkdtemp()
    bad = False
    try:
        # the source of the copy: a node of ANOTHER MetadorContainer (MetadorGroup.copy
        # explicitly supports that: "the source node could belong to a different container")
        for src_kind in ("h5py.File", "IH5Record"):
            src = MetadorContainer(open_raw(src_kind, os.path.join(tmp, "src")))
            src["g/y"] = [1, 2, 3]
            src["g"].attrs["k"] = 1
            src["g/y"].meta["core.file"] = FILE_META

            results = {}
            for dst_kind in ("h5py.File", "IH5Record"):
                dst = MetadorContainer(open_raw(dst_kind, os.path.join(tmp, "dst")))
                try:
                    dst.copy(src["g"], "copied")
                    outcome = "ok"
                except Exception as e:
                    outcome = f"FAILED ({type(e).__name__}: {e})"
                found = sorted(n.name for n in dst.metador.query("core.file"))
                results[dst_kind] = (outcome, tree(dst), found)
                dst.close()
                for f in os.listdir(tmp):
                    if f.startswith("dst"):
                        os.unlink(os.path.join(tmp, f))
            src.close()
            for f in os.listdir(tmp):
                os.unlink(os.path.join(tmp, f))

            a, b = results["h5py.File"], results["IH5Record"]
            if a != b:
                bad = True
                print(f"source container on {src_kind}: dst.copy(src['g'], 'copied')")
                print(f"    destination on h5py.File: {a}")
                print(f"    destination on IH5Record: {b}")
    finally:
        shutil.rmtree(tmp)
    if bad:
        print("VIOLATION: same operation, different outcome on plain HDF5 and on IH5")
        return 1
    print("OK: both drivers agree")
    return 0


if __name__ == "__main__":
    sys.exit(main())
