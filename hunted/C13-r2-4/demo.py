import shim  # noqa: F401  (must be first)

import sys

from pydantic import Field

from metador_core.plugins import schemas
from metador_core.schema import MetadataSchema

violations = []


def trial(label, make, inputs):
    try:
        P, C = make()
        schemas.check_plugin("demo.child", C)  # what is done when a plugin is loaded
    except Exception as e:  # refused -> this is what the property wants
        print(f"refused (fine): {label}: {type(e).__name__}: {str(e).strip().splitlines()[0]}")
        return
    print(f"{label}: accepted by check_plugin")
    for inp in inputs:
        try:
            obj = C.parse_obj(inp)
        except Exception:
            continue
        ser = obj.json()
        try:
            P.parse_raw(ser)
        except Exception as e:
            msg = str(e).replace("\n", " ")
            violations.append(label)
            print(f"VIOLATION: child accepts {inp!r}, serialises to {ser}; parent rejects: {msg}")


def case_dropped_bound():
    class P(MetadataSchema):
        size: int = Field(ge=0)  # constraint given by assigning the Field (accepted by the library)

    class C(P):
        size: int  # same hint, constraint gone

    return P, C


def case_widened_bound():
    class P(MetadataSchema):
        size: int = Field(..., ge=0)

    class C(P):
        size: int = Field(..., ge=-10)

    return P, C


def case_pattern():
    class P(MetadataSchema):
        code: str = Field(..., regex="^[a-z]+$")

    class C(P):
        code: str = Field(..., regex="^[a-z0-9]+$")

    return P, C


def case_alias():
    class P(MetadataSchema):
        size: int

    class C(P):
        size: int = Field(..., alias="fileSize")  # serialised by alias, parent misses 'size'

    return P, C


trial("parent size: int = Field(ge=0), child size: int", case_dropped_bound, [{"size": -1}])
trial("parent Field(ge=0), child Field(ge=-10)", case_widened_bound, [{"size": -5}])
trial("parent Field(regex=[a-z]+), child Field(regex=[a-z0-9]+)", case_pattern, [{"code": "a1"}])
trial("parent size: int, child size: int = Field(alias='fileSize')", case_alias, [{"size": 1}])

if violations:
    print("\nConstraints/aliases attached by assigning a pydantic Field are invisible to the override "
          "check (only FieldInfo inside Annotated[...] is compared).")
    sys.exit(1)
print("ok")
