import shim  # noqa: F401
import shutil
import sys
import tempfile
from pathlib import Path

import h5py

from metador_core.ih5.container import IH5MFRecord, IH5Record
from metador_core.ih5.manifest import IH5UBExtManifest

# "An IH5MFRecord is a valid IH5Record (the manifest file then is simply ignored)."
# So a stub + patch set can be opened with the plain IH5Record class - but then merging
# is not refused and produces a "full" container of the record that has lost all data.

d = Path(tempfile.mkdtemp())
problems = []
try:
    with IH5MFRecord(d / "orig", "w") as r:
        r["data"] = [1, 2, 3]
        r.commit_patch()
        manifest_file = d / "orig.ih5mf.json"

    # somewhere else: only the manifest is available -> stub, patch on top of it
    stub = IH5MFRecord.create_stub(d / "work", manifest_file)
    stub.close()
    with IH5MFRecord(d / "work", "r+") as w:
        w["extra"] = 1
        w.commit_patch()
        try:
            w.merge_files(d / "mf-merged")
            problems.append("IH5MFRecord merged a stub")
        except ValueError as e:
            print("IH5MFRecord refuses:", e)

    with IH5Record(d / "work", "r") as w:  # same files, generic class
        try:
            m = w.merge_files(d / "merged")
        except ValueError as e:
            print("OK, IH5Record refuses:", e)
            m = None
    if m is not None:
        problems.append("IH5Record.merge_files merged a file set that contains a stub")
        with IH5Record(d / "merged", "r") as x, IH5Record(d / "orig", "r") as o:
            ub = x.ih5_meta[0]
            ext = IH5UBExtManifest.get(ub)
            print("merged container: record uuid equal to original:", ub.record_uuid == o.ih5_uuid,
                  "| is_stub_container:", ext.is_stub_container if ext else None)
            print("original data:", o["data"][()], "| merged 'data':", x["data"][()])
            if isinstance(x["data"][()], h5py.Empty) and not (ext and ext.is_stub_container):
                problems.append(
                    "the merged container passes as complete container of the record, but the data is gone"
                )
finally:
    shutil.rmtree(d)

for p in problems:
    print("VIOLATION:", p)
sys.exit(1 if problems else 0)
