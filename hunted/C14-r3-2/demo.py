import shim  # noqa: F401  (must be first)
import json
import shutil
import sys
import tempfile
from pathlib import Path
from typing import Optional

from metador_core.harvester import harvest
from metador_core.schema.core import MetadataSchema


class Book(MetadataSchema):
    """Schema that keeps extra fields (the default of all metador schemas)."""

    title: Optional[str]
    pages: Optional[int]


P = Book.Partial
problems = []
tmp = Path(tempfile.mkdtemp())


def attempt(name, what, func, expect):
    try:
        got = func()
    except Exception as e:
        problems.append(f"extra field {name!r}: {what} raised {type(e).__name__}: {e}")
        return
    if got != expect:
        problems.append(f"extra field {name!r}: {what} gave {got!r}, expected {expect!r}")


try:
    # names of extra fields as they may come in any JSON/YAML document, e.g. {"title": "T", "copy": 2}
    # (only class-level entry points are used, so that the extra field cannot shadow the call itself)
    for name in ("copy", "cast", "merge_with", "from_partial"):
        doc = {"title": "T", name: 0}
        complete = Book.parse_obj(doc)  # accepted by the complete schema
        x = P.parse_obj(doc)  # accepted by the partial schema
        y = P.parse_obj({"pages": 0})
        both = {**doc, "pages": 0}

        attempt(name, "Partial.merge(x, empty)", lambda: P.merge(x, P()).dict(), doc)
        attempt(name, "Partial.merge(empty, x)", lambda: P.merge(P(), x).dict(), doc)
        attempt(name, "Partial.merge(x, y)", lambda: P.merge(x, y).dict(), both)
        attempt(name, "Partial.merge(y, x)", lambda: P.merge(y, x).dict(), both)
        attempt(
            name,
            "Partial.merge(<complete object>, y)",
            lambda: P.merge(complete, y).dict(),
            {**complete.dict(), "pages": 0},
        )
        # the harvesting pipeline: two metadata files -> merged -> complete object
        f1, f2 = tmp / f"{name}_1.json", tmp / f"{name}_2.json"
        f1.write_text(json.dumps(doc))
        f2.write_text(json.dumps({"pages": 0}))
        attempt(name, "harvest(Book, [file1, file2])", lambda: harvest(Book, [f1, f2]).dict(), both)
finally:
    shutil.rmtree(tmp, ignore_errors=True)

if problems:
    print("PROPERTY VIOLATED (merging / converting back fails for metadata with certain extra field names):")
    for p in problems:
        print("  -", p)
    sys.exit(1)
print("ok")
