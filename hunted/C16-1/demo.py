import shim  # noqa
import sys

from metador_core.plugin.metaclass import UndefVersion
from metador_core.plugins import harvesters, packers, schemas, widgets

# "a plugin class obtained without stating a version cannot be subclassed"
bad = []
for pg in (schemas, harvesters, widgets, packers):
    for name in sorted({ref.name for ref in pg.keys()}):
        for how, getter in (
            ("get(name)", lambda: pg.get(name)),
            ("[name]", lambda: pg[name]),
        ):
            cls = getter()
            assert cls is not None and UndefVersion._is_marked(cls), (pg.name, name)
            try:

                class Sub(cls):  # must be refused with TypeError
                    pass

            except TypeError:
                continue
            bad.append(
                f"{pg.name}s.{how} for {name!r}: no version stated, but subclassing worked: "
                f"{Sub.__mro__[:2]}"
            )

if bad:
    print("VIOLATION: plugin classes obtained without a version could be subclassed:")
    for line in bad:
        print("  ", line)
    sys.exit(1)
print("ok: every plugin class obtained without a version refused subclassing")
sys.exit(0)
