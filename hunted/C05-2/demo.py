import shim  # noqa: F401
import shutil
import sys
import tempfile
import traceback
from pathlib import Path

from metador_core.ih5.container import IH5Record

# An attribute given as python `bytes` that are not valid UTF-8 (e.g. Latin-1 text) is
# accepted and stored by the record, but such a record can not be merged any more.

d = Path(tempfile.mkdtemp())
problems = []
try:
    with IH5Record(d / "src", "w") as r:
        r["data"] = [1, 2, 3]
        r["data"].attrs["author"] = "Müller".encode("latin-1")  # b'M\xfcller'
        r.commit_patch()
        r.create_patch()
        r["more"] = 1
        r.commit_patch()

        src_val = r["data"].attrs["author"]
        print("value as seen in the source record:", repr(src_val))
        try:
            r.merge_files(d / "mrg")
        except Exception as e:  # noqa
            traceback.print_exc(limit=1)
            problems.append(f"merge_files raised {type(e).__name__}: {e}")

    if not problems:
        with IH5Record(d / "mrg", "r") as m:
            mrg_val = m["data"].attrs["author"]
            if mrg_val != src_val:
                problems.append(f"attribute differs after merge: {mrg_val!r} != {src_val!r}")
            else:
                print("OK, merged record has the same attribute value")
finally:
    shutil.rmtree(d)

for p in problems:
    print("VIOLATION:", p)
sys.exit(1 if problems else 0)
