import shim  # noqa: F401  (must be first)

"""A schema with a required-but-nullable field (`x: Optional[int] = ...`, only documented
field types) accepts x=None; the library always serializes with exclude_none=True, so the
stored object is `{}`: it does not validate against the embedded JSON Schema (x is
required there) and cannot be parsed back by its own schema."""
import json
import os
import shutil
import sys
import tempfile
import textwrap

site = tempfile.mkdtemp(prefix="site")
with open(os.path.join(site, "huntopt_mod.py"), "w") as f:
    f.write(textwrap.dedent('''
        from typing import Optional
        from metador_core.schema import MetadataSchema

        class ReqOpt(MetadataSchema):
            class Plugin:
                name = "hunt.reqopt"
                version = (0, 1, 0)
            x: Optional[int] = ...   # required, may be None (pydantic "required optional")
    '''))
di = os.path.join(site, "hunt_opt-1.0.0.dist-info")
os.makedirs(di)
with open(os.path.join(di, "METADATA"), "w") as f:
    f.write("Metadata-Version: 2.1\nName: hunt-opt\nVersion: 1.0.0\n")
with open(os.path.join(di, "entry_points.txt"), "w") as f:
    f.write("[metador_schema]\nhunt.reqopt__0.1.0 = huntopt_mod:ReqOpt\n")
sys.path.insert(0, site)

import h5py  # noqa: E402
import jsonschema  # noqa: E402

from metador_core.container import MetadorContainer  # noqa: E402
from metador_core.ih5.container import IH5Record  # noqa: E402

problems = []
tmp = tempfile.mkdtemp()
try:
    for drv in ("h5", "ih5"):
        path = os.path.join(tmp, "c" + drv)
        mc = MetadorContainer(h5py.File(path, "w") if drv == "h5" else IH5Record(path, "w"))
        mc["d"] = [1, 2, 3]
        try:
            mc["d"].meta["hunt.reqopt"] = dict(x=None)
        except Exception as e:  # refusing the schema or the value would be fine
            print(f"[{drv}] rejected: {e!r}")
        for name, so in mc["d"].meta.items():
            dat = so.node[()]
            try:
                jsonschema.validate(json.loads(dat), mc.metador.schemas[so.schema])
            except Exception as e:
                msg = str(e).split("\n")[0]
                problems.append(
                    f"[{drv}] stored {name} object {dat!r} does not validate against the embedded JSON Schema: {msg}"
                )
            try:
                mc["d"].meta.get(name)
            except Exception as e:
                problems.append(f"[{drv}] stored {name} object cannot be read back: {type(e).__name__}")
        mc.close()
finally:
    shutil.rmtree(tmp, ignore_errors=True)
    shutil.rmtree(site, ignore_errors=True)

if problems:
    print("PROPERTY VIOLATED:")
    for p in problems:
        print("  -", p)
    sys.exit(1)
print("ok")
