import shim  # noqa: F401  (must be first)

"""Attaching is not atomic: the object is written first, the schema is described afterwards.
If describing fails, the exception leaves the object stored at the node (visible in
node.meta, readable, kept on reopen) but the container has neither JSON Schema, parent
chain nor package for it.  Trigger here: a schema with a field type made with the library's
own ParserMixin whose Parser does not set the (optional) schema_info -> schema_json() raises."""
import os
import shutil
import sys
import tempfile
import textwrap

site = tempfile.mkdtemp(prefix="site")
with open(os.path.join(site, "huntsym_mod.py"), "w") as f:
    f.write(textwrap.dedent('''
        from metador_core.schema import MetadataSchema
        from metador_core.schema.parser import BaseParser, ParserMixin
        from metador_core.schema.encoder import json_encoder

        @json_encoder(lambda v: v.s)
        class Sym(ParserMixin):
            """Custom field type (parses from / serializes to a string)."""
            def __init__(self, s):
                self.s = s
            def __eq__(self, o):
                return isinstance(o, Sym) and o.s == self.s
            class Parser(BaseParser):      # schema_info is optional (default {})
                @classmethod
                def parse(cls, tcls, v):
                    if isinstance(v, tcls):
                        return v
                    if isinstance(v, str):
                        return tcls(v)
                    raise TypeError("expected str")

        class WithSym(MetadataSchema):
            class Plugin:
                name = "hunt.withsym"
                version = (0, 1, 0)
            x: Sym
    '''))
di = os.path.join(site, "hunt_sym-1.0.0.dist-info")
os.makedirs(di)
with open(os.path.join(di, "METADATA"), "w") as f:
    f.write("Metadata-Version: 2.1\nName: hunt-sym\nVersion: 1.0.0\n")
with open(os.path.join(di, "entry_points.txt"), "w") as f:
    f.write("[metador_schema]\nhunt.withsym__0.1.0 = huntsym_mod:WithSym\n")
sys.path.insert(0, site)

import h5py  # noqa: E402

from metador_core.container import MetadorContainer  # noqa: E402
from metador_core.ih5.container import IH5Record  # noqa: E402
from metador_core.plugins import schemas  # noqa: E402

problems = []
tmp = tempfile.mkdtemp()
try:
    S = schemas.get("hunt.withsym", (0, 1, 0))  # loads and passes all plugin checks
    obj = S(x="abc")
    assert S.parse_raw(bytes(obj)) == obj  # a perfectly usable schema

    for drv in ("h5", "ih5"):
        path = os.path.join(tmp, "c" + drv)

        def op(mode):
            return MetadorContainer(h5py.File(path, mode) if drv == "h5" else IH5Record(path, mode))

        mc = op("w")
        mc["d"] = [1, 2, 3]
        try:
            mc["d"].meta["hunt.withsym"] = obj
        except Exception as e:  # caller catches the error and goes on
            print(f"[{drv}] attach raised:", repr(e))

        def check(mc, label):
            for name, so in mc["d"].meta.items():
                T = mc.metador.schemas
                if so.schema not in T or T.get(so.schema) is None:
                    problems.append(
                        f"[{drv}] {label}: object {so.node.name} is stored at /d, but the container "
                        f"has no JSON Schema / parents / package for {name} (schemas: {sorted(T.keys())})"
                    )

        check(mc, "live")
        mc.close()
        mc = op("r")
        check(mc, "reopened")
        mc.close()
finally:
    shutil.rmtree(tmp, ignore_errors=True)
    shutil.rmtree(site, ignore_errors=True)

if problems:
    print("PROPERTY VIOLATED:")
    for p in problems:
        print("  -", p)
    sys.exit(1)
print("ok")
