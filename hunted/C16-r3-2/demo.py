import shim  # noqa: F401

import sys

from metador_core.harvester import Harvester
from metador_core.plugin.util import register_in_group
from metador_core.plugins import harvesters, schemas
from metador_core.schema import MetadataSchema

problems = []


def mk_schema(name, version):
    class S(MetadataSchema):
        class Plugin:
            pass

        x: int = 0

    S.Plugin.name, S.Plugin.version = name, version
    S.__name__ = S.__qualname__ = f"S_{'_'.join(map(str, version))}"
    return S


def mk_harvester(name, s_name, s_version):
    class H(Harvester):
        class Plugin:
            returns = schemas.PluginRef(name=s_name, version=s_version)

        def run(self):
            return self.schema(x=1)

    H.Plugin.name, H.Plugin.version = name, (0, 1, 0)
    return H


def scenario(tag, order):
    """Schema versions 0.10.0 and 1.0.0; a harvester that returns EXACTLY the registered 0.10.0."""
    s_name, h_name = f"tt.sch{tag}", f"tt.harv{tag}"
    things = {
        "S_0_10_0": (schemas, mk_schema(s_name, (0, 10, 0))),
        "S_1_0_0": (schemas, mk_schema(s_name, (1, 0, 0))),
        "H": (harvesters, mk_harvester(h_name, s_name, (0, 10, 0))),
    }
    for k in order:
        grp, cls = things[k]
        try:
            register_in_group(grp, cls, violently=True)
        except Exception as e:  # noqa: BLE001
            problems.append(f"order {order}: registering {k} failed: {type(e).__name__}: {e}")
    req = schemas.resolve(s_name, (0, 10, 0))
    print(f"order {order}: schema versions {[r.version for r in schemas.versions(s_name)]},",
          f"request 0.10.0 resolves to {req.version if req else None},",
          f"harvester versions {[r.version for r in harvesters.versions(h_name)]}")
    if not harvesters.versions(h_name):
        problems.append(f"order {order}: harvester is not listed by its group")
        return
    h_cls = harvesters.get(h_name, (0, 1, 0))
    # the harvester declares to return tt.sch 0.10.0 -> its schema must be the one resolved for that request
    want = schemas.get(s_name, (0, 10, 0))
    got = h_cls().schema.__partial_src__ if hasattr(h_cls().schema, "__partial_src__") else None
    got_v = getattr(getattr(got, "Plugin", None), "version", None)
    if got_v != want.Plugin.version:
        problems.append(
            f"order {order}: harvester declared for {s_name} 0.10.0 works with schema version {got_v}, "
            f"the group resolves its request to {want.Plugin.version}"
        )


scenario("a", ["S_0_10_0", "S_1_0_0", "H"])  # what happens with entry points: all versions are known
scenario("b", ["S_0_10_0", "H", "S_1_0_0"])  # same set, other registration order

if problems:
    print("\nPROPERTY VIOLATED:")
    for p in problems:
        print(" -", p)
    sys.exit(1)
print("ok")
