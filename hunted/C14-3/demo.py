import shim  # noqa
import sys

from metador_core.schema.common import NumValue
from metador_core.schema.common.schemaorg import MediaObject
from metador_core.schema.common.schemaorg import QuantitativeValue as QV

# nested position `width` of schemaorg.MediaObject; the classes occurring there
# form an inheritance chain: NumValue < QuantitativeValue
P = MediaObject.Partial
x = P(width=NumValue.Partial(unitText="px"))
y = P(width=QV.Partial(name="n"))
z = P(width=QV.Partial(value="five"))  # valid for QuantitativeValue, not for NumValue
assert issubclass(type(x.width), type(y.width)) and type(y.width) is type(z.width)
snap = (repr(x), repr(y), repr(z))

problems = []
kw = dict(allow_overwrite=True)
left = x.merge_with(y, **kw).merge_with(z, **kw)
right = x.merge_with(y.merge_with(z, **kw), **kw)
if snap != (repr(x), repr(y), repr(z)):
    problems.append("operands mutated")


def vals(p):
    return {k: v for k, v in p.width.dict().items() if not k.startswith("@")}


if left != right:
    problems.append(
        f"not associative: (x+y)+z -> width={vals(left)}  but  x+(y+z) -> width={vals(right)}"
    )
# the three operands provide three different, non-conflicting fields of `width`
want = {"unitText": "px", "name": "n", "value": "five"}
for name, res in (("(x+y)+z", left), ("x+(y+z)", right)):
    lost = {k: v for k, v in want.items() if vals(res).get(k) != v}
    if lost:
        problems.append(f"{name}: provided, non-conflicting values silently dropped: {lost}")

if problems:
    print("PROPERTY VIOLATED:")
    for p in problems:
        print(" -", p)
    sys.exit(1)
print("ok")
