import shim  # noqa: F401
import os, shutil, sys, tempfile
import h5py, numpy as np
from metador_core.container import MetadorContainer, MetadorNode
from metador_core.container.interface import NodeAcl
from metador_core.ih5.container import IH5Record
from metador_core.plugins import schemas

BibMeta = schemas.get("core.bib", (0, 1, 0))
BIB = dict(name="x", abstract="y", author=[dict(name="A B")], dateCreated="2020-01-01")

problems = []
d = tempfile.mkdtemp()
try:
    for drv in ("h5py", "ih5"):
        if drv == "h5py":
            mc = MetadorContainer(h5py.File(os.path.join(d, "a.h5"), "w"))
        else:
            mc = MetadorContainer(IH5Record(os.path.join(d, "rec"), "w"))
        mc["g/ds"] = np.arange(5)
        mc["outside"] = 1
        mc["g"].meta["core.bib"] = BibMeta(**BIB)
        mc["g/ds"].meta["core.bib"] = BibMeta(**BIB)

        for start in ("g", "g/ds"):
            node = mc[start].restrict(read_only=True, local_only=True)
            # public listing API of the metadata interface of the restricted node
            for listing in ("values", "items"):
                objs = getattr(node.meta, listing)()
                sm = list(objs)[0] if listing == "values" else list(objs)[0][1]
                raw = getattr(sm, "node", None)  # public dataclass field of StoredMetadata
                if raw is None:
                    continue  # no node handed out at all -> fine
                if not isinstance(raw, MetadorNode):
                    problems.append(f"[{drv}] <ro+local {start}>.meta.{listing}() hands out a raw "
                                    f"{type(raw).__module__}.{type(raw).__name__} for {raw.name}")
                else:
                    if not (raw.acl[NodeAcl.read_only] and raw.acl[NodeAcl.local_only]):
                        problems.append(f"[{drv}] node from meta.{listing}() lost restrictions: {raw.acl}")
                    continue
                # upward escape from a local_only node
                try:
                    top = raw.file
                    up = raw.parent.parent.parent
                    problems.append(f"[{drv}] local_only {start}: reached {up.name!r} and file object "
                                    f"{type(top).__name__}; reads outside: {top['outside'][()]}")
                except AttributeError:
                    pass
                # mutation from a read_only node
                try:
                    raw.attrs["evil"] = 1
                    raw.file["written_via_ro"] = 1
                except Exception:
                    pass
                if "written_via_ro" in mc:
                    problems.append(f"[{drv}] read_only {start}: created /written_via_ro through meta.{listing}()")
                    del mc["written_via_ro"]
                if "evil" in raw.attrs:
                    problems.append(f"[{drv}] read_only {start}: attribute set on stored metadata object {raw.name}")
                    del raw.attrs["evil"]
        mc.close()
finally:
    shutil.rmtree(d)

if problems:
    print("PROPERTY VIOLATED:")
    for p in problems:
        print(" -", p)
    sys.exit(1)
print("ok")
