import shim  # noqa
import os, shutil, sys, tempfile
import numpy as np
from metador_core.container import MetadorContainer
from metador_core.ih5.container import IH5Record


def snapshot(rec, mc):
    """Physical content of each container file + logical view of the dataset."""
    phys = []
    for f in rec.__files__:
        names = []
        f.visit(names.append)
        phys.append(sorted(n for n in names if not n.startswith("metador_")))
    ds = mc["g/ds"]
    return phys, ds[()].tolist(), {k: ds.attrs[k] for k in ds.attrs.keys()}


d = tempfile.mkdtemp()
bad = []
try:
    rec = IH5Record(os.path.join(d, "rec"), "w")
    mc = MetadorContainer(rec)
    mc["g/ds"] = np.arange(4)
    mc["g/ds"].attrs["unit"] = "mm"
    rec.commit_patch()
    rec.create_patch()  # writable again, the dataset lives in the base container

    ro = mc["g"].restrict(read_only=True)
    ds = ro["ds"]
    before = snapshot(rec, mc)
    try:
        ds[0] = 99  # sanity: the plain write is refused
        bad.append("__setitem__ not refused")
    except Exception:
        pass
    try:
        ds.copy_into_patch()
        refused = False
    except Exception as e:
        refused = True
        print(f"ok: copy_into_patch refused ({type(e).__name__}: {e})")
    after = snapshot(rec, mc)
    if not refused:
        bad.append("read_only_node.copy_into_patch() was accepted")
    if before != after:
        bad.append(f"container changed:\n      before={before}\n      after ={after}")
    rec.discard_patch()
    rec.close()
finally:
    shutil.rmtree(d, ignore_errors=True)

if bad:
    print("VIOLATION: mutating dataset operation of the IH5 driver allowed on a read_only node:")
    for b in bad:
        print("  -", b)
    sys.exit(1)
print("OK: read_only node refused copy_into_patch, container unchanged")
sys.exit(0)
