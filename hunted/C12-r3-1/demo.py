import shim  # noqa
import sys

from pydantic import ValidationError

from metador_core.plugins import schemas

# A valid core.file object that carries an additional (extra) field called "json",
# "yaml" or "dict". Extra fields are kept on purpose (Config.extra = allow).
FileMeta = schemas.get("core.file", (0, 1, 0))
base = dict(filename="a.txt", encodingFormat="text/plain", contentSize=1, sha256="ab")

problems = []
for key in ["json", "yaml", "dict"]:
    try:
        obj = FileMeta.parse_obj({**base, key: {"some": "thing"}})  # accepted = valid instance
    except ValidationError:
        continue  # (refusing such a field name cleanly would be consistent, too)
    forms = {
        "json()": lambda o: o.json(),
        "yaml()": lambda o: o.yaml(),
        "bytes()": lambda o: bytes(o),
    }
    for fname, ser in forms.items():
        try:
            text = ser(obj)
        except Exception as e:
            problems.append(f"extra field {key!r}: {fname} raised {type(e).__name__}: {e}")
            continue
        try:
            back = FileMeta.parse_raw(text)
            if not (back == obj):
                problems.append(f"extra field {key!r}: {fname} round trip is not equal")
        except Exception as e:
            problems.append(
                f"extra field {key!r}: comparing/parsing after {fname} raised {type(e).__name__}: {e}"
            )

if problems:
    print("PROPERTY VIOLATED: a valid instance cannot be serialised / compared:")
    for p in problems:
        print("  -", p)
    sys.exit(1)
print("ok: instances with extra fields named json/yaml/dict survive serialisation")
sys.exit(0)
