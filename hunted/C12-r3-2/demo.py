import shim  # noqa
import sys

from metador_core.schema.common import NumValue, Pixels

# Valid instances of schema classes of the library that have a custom `Parser`.
objs = [
    NumValue(value=5, unitText="m", minValue=1, maxValue=10, name="length"),
    Pixels(value=5),  # (no unit stated)
]

problems = []
for obj in objs:
    for fname, ser in {"json": lambda o: o.json(), "bytes": bytes, "yaml": lambda o: o.yaml()}.items():
        text = ser(obj)
        back = type(obj).parse_raw(text)
        if back != obj:
            problems.append(
                f"{type(obj).__name__} via {fname}:\n"
                f"      original: {obj.json()}\n"
                f"      written : {text!r}\n"
                f"      read    : {back.json()}"
            )

if problems:
    print("PROPERTY VIOLATED: parsing the serialised form gives a different instance:")
    for p in problems:
        print("  -", p)
    sys.exit(1)
print("ok: NumValue/Pixels instances survive JSON, bytes and YAML")
sys.exit(0)
