import shim  # noqa: F401  (numpy-2 shim, puts $WT/src first on sys.path)

import shutil
import sys
import tempfile

import h5py

from metador_core.container import MetadorContainer
from metador_core.ih5.container import IH5Record
from metador_core.plugins import schemas


def file_meta():
    return schemas.get("core.file").parse_obj(
        {"id_": "x", "filename": "x", "contentSize": 3, "sha256": "sha256:" + "ab" * 32,
         "encodingFormat": "text/plain"}
    )


def index_of(mc):
    """UUID -> TOC link path, as kept in memory by the container object (observation only)."""
    return dict(mc.metador._links._toc_path)


def index_diff(mc):
    """Compare the incrementally maintained index with one rebuilt from what is stored."""
    rebuilt = index_of(MetadorContainer(mc.__wrapped__))  # fresh wrapper = loaded from disk
    kept = index_of(mc)
    return [
        f"UUID {u}: kept in memory -> {kept.get(u, '<absent>')!r}, rebuilt from disk -> {rebuilt.get(u, '<absent>')!r}"
        for u in sorted(set(kept) | set(rebuilt))
        if u not in kept or u not in rebuilt or kept[u] != rebuilt[u]
    ]


tmp = tempfile.mkdtemp()
bad = []
try:
    # (a) IH5 record: attaching between commit_patch() and create_patch() is refused
    rec = IH5Record(tmp + "/rec", "w")
    mc = MetadorContainer(rec)
    mc["d"] = 1
    rec.commit_patch()
    try:
        mc["d"].meta["core.file"] = file_meta()
        print("(a) attach without a patch: succeeded?!")
    except ValueError as e:
        print("(a) attach without a patch refused, as expected:", e)
    diff = index_diff(mc)
    rec.create_patch()
    mc["d"].meta["core.file"] = file_meta()  # the retry works
    diff = diff + [d for d in index_diff(mc) if d not in diff]
    if diff:
        bad.append(("IH5 record, failed attach followed by create_patch + successful retry", diff))
    rec.commit_patch()
    rec.close()

    # (b) h5py file opened read-only
    with MetadorContainer(h5py.File(tmp + "/c.h5", "w")) as mc:
        mc["d"] = 1
        mc["d"].meta["core.file"] = file_meta()
    mc = MetadorContainer(h5py.File(tmp + "/c.h5", "r"))
    try:
        mc["d"].meta["core.dir"] = schemas.get("core.dir")()
        print("(b) attach in read-only file: succeeded?!")
    except Exception as e:
        print("(b) attach in read-only file refused, as expected:", str(e)[:60])
    diff = index_diff(mc)
    if diff:
        bad.append(("h5py file opened 'r', failed attach", diff))
    mc.close()

    if bad:
        print("VIOLATION: in-memory TOC index differs from the one rebuilt from disk after a failed attach:")
        for what, diff in bad:
            print("  *", what)
            for d in diff:
                print("      -", d)
        sys.exit(1)
    print("ok: in-memory index equals the index rebuilt from disk")
    sys.exit(0)
finally:
    shutil.rmtree(tmp, ignore_errors=True)
