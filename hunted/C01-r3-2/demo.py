import shim  # noqa: F401  (must be first)

import os
import shutil
import sys
import tempfile
from pathlib import Path

import h5py
import numpy as np

from metador_core.ih5.container import IH5MFRecord


def show(rec):
    out = {}

    def visit(name, node):
        if hasattr(node, "ndim"):
            val = node[()]
            val = "<EMPTY placeholder>" if isinstance(val, h5py.Empty) else val.tolist()
        else:
            val = "<group>"
        ats = {k: ("<EMPTY>" if isinstance(v, h5py.Empty) else v) for k, v in node.attrs.items()}
        out[name] = (val, ats)

    rec.visititems(visit)
    return out


tmp = tempfile.mkdtemp()
try:
    os.mkdir(f"{tmp}/remote")  # where the complete record lives
    os.mkdir(f"{tmp}/local")  # where only the manifest is available
    os.mkdir(f"{tmp}/control")

    for where in ["remote", "control"]:
        with IH5MFRecord(f"{tmp}/{where}/rec", "w") as r:
            r["g/d"] = np.arange(5)
            r["g/d"].attrs["unit"] = "m"
            r["g"].attrs["k"] = "v"

    # control: the operations applied to the complete record, in a new patch
    with IH5MFRecord(f"{tmp}/control/rec", "r+") as r:
        r.move("g/d", "g/e")
        r.copy("g", "g2")
    with IH5MFRecord(f"{tmp}/control/rec", "r") as r:
        expected = show(r)

    # documented workflow: create the patch "in thin air" on top of a stub
    stub = IH5MFRecord.create_stub(f"{tmp}/local/rec", Path(f"{tmp}/remote/rec.ih5mf.json"))
    stub.close()
    refused = False
    with IH5MFRecord(f"{tmp}/local/rec", "r+") as s:
        try:
            s.move("g/d", "g/e")  # accepted without complaint ...
            s.copy("g", "g2")
        except ValueError as e:
            refused = True
            print("operation refused on the stub:", e)
        patch = s.ih5_files[-1]
    if refused:
        print("OK (the library refuses what it cannot represent)")
        sys.exit(0)

    # ... "upload" the patch (+ its manifest) to the complete record
    shutil.copy(patch, f"{tmp}/remote/")
    shutil.copy(f"{patch}mf.json", f"{tmp}/remote/")
    with IH5MFRecord(f"{tmp}/remote/rec", "r") as r:
        got = show(r)

    print("same operations in a patch on the complete record:")
    for k, v in expected.items():
        print("   ", k, v)
    print("same operations in a patch made on the stub, attached to the complete record:")
    for k, v in got.items():
        print("   ", k, v, "" if repr(expected.get(k)) == repr(v) else "   <-- WRONG")
    if repr(got) != repr(expected):
        print("FAIL: move/copy in a stub-based patch silently replaced data + attribute values by placeholders")
        sys.exit(1)
    print("OK")
    sys.exit(0)
finally:
    shutil.rmtree(tmp)
