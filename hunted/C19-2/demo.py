import shim  # noqa: F401  (must be first)
import os
import shutil
import sys
import tempfile
from pathlib import Path

from metador_core.util.hashsums import dir_hashsums

root = Path(tempfile.mkdtemp())
problems = []
try:
    D, OUT = root / "D", root / "OUT"
    D.mkdir()
    OUT.mkdir()
    (D / "f").write_bytes(b"1")
    (D / "g").write_bytes(b"2")
    # D/l leads OUT of D (its target is OUT/back) ...
    (D / "l").symlink_to(OUT / "back")
    # ... and something out there happens to point back into D
    (OUT / "back").symlink_to(D / "f")

    try:
        h1 = dir_hashsums(D)
    except ValueError as e:
        print("rejected as demanded:", e)
        h1 = None

    if h1 is not None:
        problems.append(
            f"D/l -> {os.readlink(D / 'l')} leads outside of D but was accepted, recorded as {h1['l']!r}"
        )
        # consequence: the tree of D depends on things that are not in D
        (OUT / "back").unlink()
        (OUT / "back").symlink_to(D / "g")
        h2 = dir_hashsums(D)
        if h1 != h2:
            problems.append(
                f"nothing inside D changed, but its hashsum tree did: l={h1['l']!r} -> l={h2['l']!r}"
            )

finally:
    shutil.rmtree(root, ignore_errors=True)

if problems:
    print("PROPERTY VIOLATED:")
    for p in problems:
        print("  -", p)
    sys.exit(1)
print("ok")
sys.exit(0)
