import shim  # noqa: F401  (must be first)

import shutil
import sys
import tempfile
from pathlib import Path

from metador_core.ih5.container import IH5Record

# merge_files() on a file set WITHOUT base container (patches only, opened with
# allow_baseless=True - "technically there is nothing special about a base")
# produces a committed container M that links to the base (prev_patch = base) and
# carries the index/uuid of the last patch.  The set {base, M} has a hole in the
# patch indices (0 -> 2), is accepted, and shows data that is NOT the state of the
# record: everything the merged patches deleted or replaced is back.

d = Path(tempfile.mkdtemp())
problems = []
try:
    with IH5Record(d / "rec", "w") as r:
        r["a"] = 1
        r["g/old"] = 1
    with IH5Record(d / "rec", "r+") as r:  # patch 1: delete a, replace group g
        del r["a"]
        del r["g"]
        r["g/new"] = 2
    with IH5Record(d / "rec", "r+") as r:  # patch 2
        r["c"] = 3

    def listing(rec):
        out = []
        rec.visit(out.append)
        return sorted(out)

    with IH5Record(d / "rec", "r") as r:
        base, p1, p2 = r.ih5_files
        truth = listing(r)
    print("state of the record (base+p1+p2):", truth)

    # merge the two patches into one container
    try:
        with IH5Record([p1, p2], "r", allow_baseless=True) as r:
            m = r.merge_files(d / "p1to2")
    except Exception as e:  # refusing to merge without base would be fine
        print("merge of patches-only set refused:", type(e).__name__, e)
        m = None

    if m is not None:
        try:
            rec = IH5Record([base, m], "r")
        except Exception as e:  # refusing the set with a hole would be fine, too
            print("{base, merged patches} refused:", type(e).__name__, e)
            rec = None
        if rec is not None:
            idxs = [ub.patch_index for ub in rec.ih5_meta]
            shown = listing(rec)
            rec.close()
            print("accepted set", [base.name, m.name], "patch indices", idxs)
            print("shows:", shown)
            if shown != truth:
                problems.append(
                    f"file set with patch indices {idxs} was accepted and shows {shown}, "
                    f"but the record state after these patches is {truth}"
                )
finally:
    shutil.rmtree(d, ignore_errors=True)

if problems:
    print("PROPERTY VIOLATED:")
    for p in problems:
        print(" -", p)
    sys.exit(1)
print("ok")
sys.exit(0)
