import shim  # noqa
"""Comparing / hashing group nodes and containers works on h5py.File but raises on IH5 records."""
import os, shutil, sys, tempfile
import h5py
from metador_core.container import MetadorContainer
from metador_core.ih5.container import IH5Record, IH5MFRecord

CHECKS = {
    'mc["g"] == mc["g"]': lambda mc: mc["g"] == mc["g"],
    'mc["g"] != mc["h"]': lambda mc: mc["g"] != mc["h"],
    'mc == mc': lambda mc: mc == mc,
    'mc["g"].file == mc': lambda mc: mc["g"].file == mc,
    'mc["g/d"].parent == mc["g"]': lambda mc: mc["g/d"].parent == mc["g"],
    'mc["g"] in [mc["h"], mc["g"]]': lambda mc: mc["g"] in [mc["h"], mc["g"]],
    'len({mc["g"], mc["g"], mc["h"]})': lambda mc: len({mc["g"], mc["g"], mc["h"]}),
    '{mc["g"]: 1}[mc["g"]]': lambda mc: {mc["g"]: 1}[mc["g"]],
    'mc["g/d"] == mc["g/d"] (dataset)': lambda mc: mc["g/d"] == mc["g/d"],
}


def run(raw):
    mc = MetadorContainer(raw)
    mc["g/d"] = 1
    mc.create_group("h")
    res = {}
    for label, fn in CHECKS.items():
        try:
            res[label] = ("ok", fn(mc))
        except Exception as e:
            res[label] = ("raises", type(e).__name__ + ": " + str(e))
    return res


tmp = tempfile.mkdtemp()
try:
    f = h5py.File(os.path.join(tmp, "plain.h5"), "w")
    ref = run(f)
    f.close()
    bad = False
    for cls in (IH5Record, IH5MFRecord):
        r = cls(os.path.join(tmp, "rec" + cls.__name__), "w")
        got = run(r)
        r.close()
        for label in CHECKS:
            if ref[label] != got[label]:
                bad = True
                print(f"{cls.__name__}: {label}: h5py.File -> {ref[label]}, IH5 -> {got[label]}")
    if bad:
        print("VIOLATION: node comparison / hashing gives different results (raises) on IH5")
        sys.exit(1)
    print("ok: same outcome on both drivers")
finally:
    shutil.rmtree(tmp)
